// nlsyn — dumps the syntax trees of Rust source files as JSON (engine E2, front half).
// usage: nlsyn <file.rs>... ; writes one JSON document {"files":[{path, items}]} to stdout.
// The analyses themselves (CSA, lexer/parser table rules) live in the Python rule layer.
use proc_macro2::{Span, TokenStream};
use quote::ToTokens;
use std::fmt::Write as _;
use syn::punctuated::Punctuated;
use syn::spanned::Spanned;
use syn::*;

#[derive(Clone)]
enum J {
    Null,
    B(bool),
    I(i128),
    S(String),
    A(Vec<J>),
    O(Vec<(String, J)>),
}
fn s<T: Into<String>>(x: T) -> J {
    J::S(x.into())
}
fn o(v: Vec<(&str, J)>) -> J {
    J::O(v.into_iter().map(|(k, v)| (k.to_string(), v)).collect())
}
fn esc(out: &mut String, t: &str) {
    out.push('"');
    for c in t.chars() {
        match c {
            '"' => out.push_str("\\\""),
            '\\' => out.push_str("\\\\"),
            '\n' => out.push_str("\\n"),
            '\r' => out.push_str("\\r"),
            '\t' => out.push_str("\\t"),
            c if (c as u32) < 0x20 => {
                let _ = write!(out, "\\u{:04x}", c as u32);
            }
            c => out.push(c),
        }
    }
    out.push('"');
}
impl J {
    fn write(&self, out: &mut String) {
        match self {
            J::Null => out.push_str("null"),
            J::B(b) => out.push_str(if *b { "true" } else { "false" }),
            J::I(i) => {
                let _ = write!(out, "{}", i);
            }
            J::S(t) => esc(out, t),
            J::A(v) => {
                out.push('[');
                for (i, x) in v.iter().enumerate() {
                    if i > 0 {
                        out.push(',');
                    }
                    x.write(out);
                }
                out.push(']');
            }
            J::O(v) => {
                out.push('{');
                for (i, (k, x)) in v.iter().enumerate() {
                    if i > 0 {
                        out.push(',');
                    }
                    esc(out, k);
                    out.push(':');
                    x.write(out);
                }
                out.push('}');
            }
        }
    }
}

fn line(sp: Span) -> J {
    J::I(sp.start().line as i128)
}
fn toks<T: ToTokens>(t: &T) -> String {
    t.to_token_stream().to_string()
}
fn node(kind: &str, sp: Span, mut rest: Vec<(&str, J)>) -> J {
    let mut v = vec![("k", s(kind)), ("line", line(sp)), ("col", J::I(sp.start().column as i128)), ("end_line", J::I(sp.end().line as i128))];
    v.append(&mut rest);
    o(v)
}
fn path_j(p: &Path) -> J {
    J::A(p.segments.iter().map(|seg| s(seg.ident.to_string())).collect())
}
fn path_str(p: &Path) -> String {
    p.segments.iter().map(|seg| seg.ident.to_string()).collect::<Vec<_>>().join("::")
}
fn attrs_j(attrs: &[Attribute]) -> J {
    J::A(attrs.iter().map(|a| s(toks(&a.meta))).collect())
}
fn is_cfg_test(attrs: &[Attribute]) -> bool {
    attrs.iter().any(|a| {
        let t = toks(&a.meta).replace(' ', "");
        t == "cfg(test)"
    })
}

fn lit_j(l: &Lit) -> J {
    match l {
        Lit::Str(x) => node("lit", x.span(), vec![("lit", s("str")), ("value", s(x.value()))]),
        Lit::Char(x) => node("lit", x.span(), vec![("lit", s("char")), ("value", s(x.value().to_string())), ("code", J::I(x.value() as i128))]),
        Lit::Int(x) => node("lit", x.span(), vec![("lit", s("int")), ("value", match x.base10_parse::<i128>() { Ok(v) => J::I(v), Err(_) => s(x.to_string()) }), ("suffix", s(x.suffix()))]),
        Lit::Float(x) => node("lit", x.span(), vec![("lit", s("float")), ("value", s(x.base10_digits()))]),
        Lit::Bool(x) => node("lit", x.span(), vec![("lit", s("bool")), ("value", J::B(x.value))]),
        Lit::Byte(x) => node("lit", x.span(), vec![("lit", s("byte")), ("value", J::I(x.value() as i128))]),
        other => node("lit", other.span(), vec![("lit", s("other")), ("text", s(toks(other)))]),
    }
}

fn pat_j(p: &Pat) -> J {
    let sp = p.span();
    match p {
        Pat::Ident(x) => node("p_ident", sp, vec![
            ("name", s(x.ident.to_string())),
            ("by_ref", J::B(x.by_ref.is_some())),
            ("mut", J::B(x.mutability.is_some())),
            ("sub", match &x.subpat { Some((_, sub)) => pat_j(sub), None => J::Null }),
        ]),
        Pat::Wild(_) => node("p_wild", sp, vec![]),
        Pat::Path(x) => node("p_path", sp, vec![("path", path_j(&x.path))]),
        Pat::TupleStruct(x) => node("p_tuple_struct", sp, vec![("path", path_j(&x.path)), ("elems", J::A(x.elems.iter().map(pat_j).collect()))]),
        Pat::Struct(x) => node("p_struct", sp, vec![
            ("path", path_j(&x.path)),
            ("fields", J::A(x.fields.iter().map(|f| o(vec![("member", s(toks(&f.member))), ("pat", pat_j(&f.pat))])).collect())),
            ("rest", J::B(x.rest.is_some())),
        ]),
        Pat::Tuple(x) => node("p_tuple", sp, vec![("elems", J::A(x.elems.iter().map(pat_j).collect()))]),
        Pat::Or(x) => node("p_or", sp, vec![("cases", J::A(x.cases.iter().map(pat_j).collect()))]),
        Pat::Lit(x) => node("p_lit", sp, vec![("lit", lit_j(&x.lit))]),
        Pat::Range(x) => node("p_range", sp, vec![
            ("start", match &x.start { Some(e) => expr_j(e), None => J::Null }),
            ("end", match &x.end { Some(e) => expr_j(e), None => J::Null }),
            ("inclusive", J::B(matches!(x.limits, RangeLimits::Closed(_)))),
        ]),
        Pat::Reference(x) => node("p_ref", sp, vec![("pat", pat_j(&x.pat))]),
        Pat::Type(x) => node("p_type", sp, vec![("pat", pat_j(&x.pat)), ("ty", s(toks(&x.ty)))]),
        Pat::Paren(x) => pat_j(&x.pat),
        Pat::Slice(x) => node("p_slice", sp, vec![("elems", J::A(x.elems.iter().map(pat_j).collect()))]),
        Pat::Rest(_) => node("p_rest", sp, vec![]),
        other => node("p_other", sp, vec![("text", s(toks(other)))]),
    }
}

fn block_j(b: &Block) -> J {
    node("block", b.span(), vec![("stmts", J::A(b.stmts.iter().map(stmt_j).collect()))])
}

fn macro_j(m: &Macro, sp: Span) -> J {
    let name = path_str(&m.path);
    let mut v = vec![("name", s(name.clone())), ("tokens", s(m.tokens.to_string()))];
    // try: comma separated expressions
    if name != "matches" && m.parse_body_with(Punctuated::<Expr, Token![,]>::parse_terminated).is_ok() {
        let args = m.parse_body_with(Punctuated::<Expr, Token![,]>::parse_terminated).unwrap();
        v.push(("args", J::A(args.iter().map(expr_j).collect())));
    } else if name == "matches" {
        // matches!(expr, pattern [if guard])
        struct M(Expr, Pat, Option<Expr>);
        impl parse::Parse for M {
            fn parse(input: parse::ParseStream) -> Result<Self> {
                let e: Expr = input.parse()?;
                let _: Token![,] = input.parse()?;
                let p = Pat::parse_multi_with_leading_vert(input)?;
                let g = if input.peek(Token![if]) {
                    let _: Token![if] = input.parse()?;
                    Some(input.parse()?)
                } else {
                    None
                };
                let _ = input.parse::<Option<Token![,]>>();
                Ok(M(e, p, g))
            }
        }
        if let Ok(M(e, p, g)) = m.parse_body::<M>() {
            v.push(("scrutinee", expr_j(&e)));
            v.push(("pat", pat_j(&p)));
            v.push(("guard", match g { Some(g) => expr_j(&g), None => J::Null }));
        }
    }
    node("macro", sp, v)
}

fn expr_j(e: &Expr) -> J {
    let sp = e.span();
    match e {
        Expr::Lit(x) => lit_j(&x.lit),
        Expr::Path(x) => node("path", sp, vec![("path", path_j(&x.path)), ("text", s(toks(&x.path)))]),
        Expr::Call(x) => node("call", sp, vec![("func", expr_j(&x.func)), ("args", J::A(x.args.iter().map(expr_j).collect()))]),
        Expr::MethodCall(x) => node("mcall", sp, vec![
            ("recv", expr_j(&x.receiver)),
            ("method", s(x.method.to_string())),
            ("turbofish", match &x.turbofish { Some(t) => s(toks(t)), None => J::Null }),
            ("args", J::A(x.args.iter().map(expr_j).collect())),
        ]),
        Expr::Field(x) => node("field", sp, vec![("base", expr_j(&x.base)), ("member", s(toks(&x.member)))]),
        Expr::Index(x) => node("index", sp, vec![("base", expr_j(&x.expr)), ("index", expr_j(&x.index))]),
        Expr::Unary(x) => node("unary", sp, vec![("op", s(toks(&x.op))), ("expr", expr_j(&x.expr))]),
        Expr::Binary(x) => node("binary", sp, vec![("op", s(toks(&x.op))), ("l", expr_j(&x.left)), ("r", expr_j(&x.right))]),
        Expr::Assign(x) => node("assign", sp, vec![("l", expr_j(&x.left)), ("r", expr_j(&x.right))]),
        Expr::Reference(x) => node("ref", sp, vec![("mut", J::B(x.mutability.is_some())), ("expr", expr_j(&x.expr))]),
        Expr::Paren(x) => expr_j(&x.expr),
        Expr::Group(x) => expr_j(&x.expr),
        Expr::Block(x) => node("blockexpr", sp, vec![
            ("label", match &x.label { Some(l) => s(l.name.ident.to_string()), None => J::Null }),
            ("block", block_j(&x.block)),
        ]),
        Expr::Unsafe(x) => node("unsafe", sp, vec![("block", block_j(&x.block))]),
        Expr::If(x) => node("if", sp, vec![
            ("cond", expr_j(&x.cond)),
            ("then", block_j(&x.then_branch)),
            ("else", match &x.else_branch { Some((_, e)) => expr_j(e), None => J::Null }),
        ]),
        Expr::Let(x) => node("let", sp, vec![("pat", pat_j(&x.pat)), ("expr", expr_j(&x.expr))]),
        Expr::Match(x) => node("match", sp, vec![
            ("expr", expr_j(&x.expr)),
            ("arms", J::A(x.arms.iter().map(|a| node("arm", a.span(), vec![
                ("pat", pat_j(&a.pat)),
                ("guard", match &a.guard { Some((_, g)) => expr_j(g), None => J::Null }),
                ("body", expr_j(&a.body)),
            ])).collect())),
        ]),
        Expr::While(x) => node("while", sp, vec![
            ("label", match &x.label { Some(l) => s(l.name.ident.to_string()), None => J::Null }),
            ("cond", expr_j(&x.cond)),
            ("body", block_j(&x.body)),
        ]),
        Expr::Loop(x) => node("loop", sp, vec![
            ("label", match &x.label { Some(l) => s(l.name.ident.to_string()), None => J::Null }),
            ("body", block_j(&x.body)),
        ]),
        Expr::ForLoop(x) => node("for", sp, vec![
            ("label", match &x.label { Some(l) => s(l.name.ident.to_string()), None => J::Null }),
            ("pat", pat_j(&x.pat)),
            ("iter", expr_j(&x.expr)),
            ("body", block_j(&x.body)),
        ]),
        Expr::Return(x) => node("return", sp, vec![("expr", match &x.expr { Some(e) => expr_j(e), None => J::Null })]),
        Expr::Break(x) => node("break", sp, vec![
            ("label", match &x.label { Some(l) => s(l.ident.to_string()), None => J::Null }),
            ("expr", match &x.expr { Some(e) => expr_j(e), None => J::Null }),
        ]),
        Expr::Continue(x) => node("continue", sp, vec![("label", match &x.label { Some(l) => s(l.ident.to_string()), None => J::Null })]),
        Expr::Try(x) => node("try", sp, vec![("expr", expr_j(&x.expr))]),
        Expr::Closure(x) => node("closure", sp, vec![
            ("inputs", J::A(x.inputs.iter().map(pat_j).collect())),
            ("body", expr_j(&x.body)),
            ("move", J::B(x.capture.is_some())),
        ]),
        Expr::Struct(x) => node("struct", sp, vec![
            ("path", path_j(&x.path)),
            ("fields", J::A(x.fields.iter().map(|f| o(vec![("member", s(toks(&f.member))), ("expr", expr_j(&f.expr))])).collect())),
            ("rest", match &x.rest { Some(r) => expr_j(r), None => J::Null }),
        ]),
        Expr::Tuple(x) => node("tuple", sp, vec![("elems", J::A(x.elems.iter().map(expr_j).collect()))]),
        Expr::Array(x) => node("array", sp, vec![("elems", J::A(x.elems.iter().map(expr_j).collect()))]),
        Expr::Cast(x) => node("cast", sp, vec![("expr", expr_j(&x.expr)), ("ty", s(toks(&x.ty)))]),
        Expr::Range(x) => node("range", sp, vec![
            ("start", match &x.start { Some(e) => expr_j(e), None => J::Null }),
            ("end", match &x.end { Some(e) => expr_j(e), None => J::Null }),
            ("inclusive", J::B(matches!(x.limits, RangeLimits::Closed(_)))),
        ]),
        Expr::Macro(x) => macro_j(&x.mac, sp),
        Expr::Repeat(x) => node("repeat", sp, vec![("expr", expr_j(&x.expr)), ("len", expr_j(&x.len))]),
        other => node("other", sp, vec![("text", s(toks(other)))]),
    }
}

fn stmt_j(st: &Stmt) -> J {
    match st {
        Stmt::Local(l) => {
            let (init, els) = match &l.init {
                Some(i) => (expr_j(&i.expr), match &i.diverge { Some((_, e)) => expr_j(e), None => J::Null }),
                None => (J::Null, J::Null),
            };
            node("s_let", l.span(), vec![("pat", pat_j(&l.pat)), ("init", init), ("else", els), ("attrs", attrs_j(&l.attrs))])
        }
        Stmt::Item(i) => node("s_item", i.span(), vec![("item", item_j(i))]),
        Stmt::Expr(e, semi) => node("s_expr", e.span(), vec![("expr", expr_j(e)), ("semi", J::B(semi.is_some()))]),
        Stmt::Macro(m) => node("s_expr", m.span(), vec![("expr", macro_j(&m.mac, m.span())), ("semi", J::B(m.semi_token.is_some())), ("attrs", attrs_j(&m.attrs))]),
    }
}

fn sig_j(sig: &Signature) -> Vec<(&'static str, J)> {
    let inputs: Vec<J> = sig
        .inputs
        .iter()
        .map(|a| match a {
            FnArg::Receiver(r) => o(vec![("self", J::B(true)), ("mut", J::B(r.mutability.is_some())), ("ref", J::B(r.reference.is_some()))]),
            FnArg::Typed(t) => o(vec![("pat", pat_j(&t.pat)), ("ty", s(toks(&t.ty)))]),
        })
        .collect();
    vec![
        ("name", s(sig.ident.to_string())),
        ("inputs", J::A(inputs)),
        ("output", s(toks(&sig.output))),
        ("unsafe", J::B(sig.unsafety.is_some())),
    ]
}

fn item_j(i: &Item) -> J {
    let sp = i.span();
    match i {
        Item::Fn(f) => {
            let mut v = sig_j(&f.sig);
            v.push(("vis", s(toks(&f.vis))));
            v.push(("attrs", attrs_j(&f.attrs)));
            v.push(("body", block_j(&f.block)));
            node("fn", sp, v)
        }
        Item::Impl(im) => {
            let items: Vec<J> = im
                .items
                .iter()
                .map(|ii| match ii {
                    ImplItem::Fn(f) => {
                        let mut v = sig_j(&f.sig);
                        v.push(("vis", s(toks(&f.vis))));
                        v.push(("attrs", attrs_j(&f.attrs)));
                        v.push(("body", block_j(&f.block)));
                        node("fn", f.span(), v)
                    }
                    ImplItem::Macro(m) => macro_j(&m.mac, m.span()),
                    other => node("impl_other", other.span(), vec![("text", s(toks(other)))]),
                })
                .collect();
            node("impl", sp, vec![
                ("self_ty", s(toks(&im.self_ty))),
                ("trait", match &im.trait_ { Some((_, p, _)) => s(toks(p)), None => J::Null }),
                ("unsafe", J::B(im.unsafety.is_some())),
                ("attrs", attrs_j(&im.attrs)),
                ("items", J::A(items)),
            ])
        }
        Item::Enum(e) => node("enum", sp, vec![
            ("name", s(e.ident.to_string())),
            ("attrs", attrs_j(&e.attrs)),
            ("variants", J::A(e.variants.iter().map(|v| o(vec![
                ("name", s(v.ident.to_string())),
                ("line", line(v.span())),
                ("docs", J::A(v.attrs.iter().filter_map(|a| match &a.meta { Meta::NameValue(nv) if nv.path.is_ident("doc") => match &nv.value { Expr::Lit(ExprLit { lit: Lit::Str(sv), .. }) => Some(s(sv.value())), _ => None }, _ => None }).collect())),
                ("fields", s(toks(&v.fields))),
                ("discr", match &v.discriminant { Some((_, e)) => expr_j(e), None => J::Null }),
            ])).collect())),
        ]),
        Item::Struct(st) => node("structdef", sp, vec![
            ("name", s(st.ident.to_string())),
            ("attrs", attrs_j(&st.attrs)),
            ("fields", J::A(st.fields.iter().map(|f| o(vec![("name", s(f.ident.as_ref().map(|i| i.to_string()).unwrap_or_default())), ("ty", s(toks(&f.ty)))])).collect())),
        ]),
        Item::Const(c) => node("const", sp, vec![("name", s(c.ident.to_string())), ("ty", s(toks(&c.ty))), ("expr", expr_j(&c.expr))]),
        Item::Static(c) => node("static", sp, vec![("name", s(c.ident.to_string())), ("ty", s(toks(&c.ty))), ("mut", J::B(matches!(c.mutability, StaticMutability::Mut(_))))]),
        Item::Mod(m) => {
            let test = is_cfg_test(&m.attrs);
            let items = match (&m.content, test) {
                (Some((_, items)), false) => J::A(items.iter().map(item_j).collect()),
                _ => J::Null,
            };
            node("mod", sp, vec![("name", s(m.ident.to_string())), ("cfg_test", J::B(test)), ("attrs", attrs_j(&m.attrs)), ("items", items)])
        }
        Item::Macro(m) => node("item_macro", sp, vec![
            ("name", s(path_str(&m.mac.path))),
            ("ident", match &m.ident { Some(i) => s(i.to_string()), None => J::Null }),
            ("tokens", s(m.mac.tokens.to_string())),
        ]),
        Item::Use(u) => node("use", sp, vec![("text", s(toks(u)))]),
        Item::Trait(t) => node("trait", sp, vec![("name", s(t.ident.to_string())), ("text", s(toks(t)))]),
        Item::Type(t) => node("type", sp, vec![("name", s(t.ident.to_string())), ("ty", s(toks(&t.ty)))]),
        other => node("item_other", sp, vec![("text", s(toks(other)))]),
    }
}

fn main() {
    let mut files = Vec::new();
    for p in std::env::args().skip(1) {
        let src = match std::fs::read_to_string(&p) {
            Ok(x) => x,
            Err(e) => {
                eprintln!("nlsyn: cannot read {}: {}", p, e);
                std::process::exit(2);
            }
        };
        let f: File = match syn::parse_file(&src) {
            Ok(f) => f,
            Err(e) => {
                eprintln!("nlsyn: cannot parse {}: {}", p, e);
                std::process::exit(2);
            }
        };
        let _ = TokenStream::new();
        files.push(o(vec![("path", s(p.clone())), ("items", J::A(f.items.iter().map(item_j).collect()))]));
    }
    let mut out = String::new();
    o(vec![("files", J::A(files))]).write(&mut out);
    println!("{}", out);
}
