#!/bin/sh
# rebase_patch.sh <patch.diff> <old-base-commit>: re-express a stored variant (made against an older /repo commit) against /repo HEAD.
# Writes <patch.diff> in place (keeping <patch.diff>.base-<old> as the original) when the 3-way merge is clean.
set -e
P="$1"; OLD="$2"
WT=/tmp/rebase_wt
git -C /repo worktree remove --force $WT >/dev/null 2>&1 || true
git -C /repo worktree add -q --detach $WT "$OLD"
cd $WT
git apply "$P"
git -c user.name=x -c user.email=x@x commit -qam variant
V=$(git rev-parse HEAD)
git checkout -q --detach $(git -C /repo rev-parse HEAD)
if git -c user.name=x -c user.email=x@x cherry-pick -X ignore-all-space $V >/dev/null 2>&1; then
  cp "$P" "$P.base-$OLD"
  git diff HEAD~1 HEAD > "$P"
  echo "rebased $P"
else
  git cherry-pick --abort >/dev/null 2>&1 || true
  echo "CONFLICT $P"
fi
cd /
git -C /repo worktree remove --force $WT
