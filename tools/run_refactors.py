#!/usr/bin/env python3
"""run_refactors.py [name-filter...] — analyse every behaviour-preserving variant under seeded/refactors in parallel;
a variant is fine when no check reports a violation or a checker error"""
import os, subprocess, sys, glob
from concurrent.futures import ThreadPoolExecutor
HERE = os.path.dirname(os.path.dirname(os.path.abspath(__file__)))
flt = sys.argv[1:]
names = sorted(os.path.basename(os.path.dirname(p)) for p in glob.glob(os.path.join(HERE, 'seeded/refactors/*/patch.diff')))
names = [n for n in names if not flt or any(f in n for f in flt)]
outdir = os.path.join(HERE, '.work', 'refactor_results')
os.makedirs(outdir, exist_ok=True)

def one(n):
    try:
        r = subprocess.run([sys.executable, os.path.join(HERE, 'tools/run_seeded.py'), os.path.join(HERE, 'seeded/refactors', n, 'patch.diff')],
                           stdout=subprocess.PIPE, stderr=subprocess.STDOUT, text=True, timeout=1500)
        out = r.stdout
    except subprocess.TimeoutExpired:
        out = '  TIMEOUT'
    open(os.path.join(outdir, n + '.txt'), 'w').write(out)
    return n, out

bad = 0
with ThreadPoolExecutor(max_workers=6) as ex:
    for n, out in ex.map(one, names):
        silent = 'MISSED' in out
        print('%s %s' % ('ok   ' if silent else 'ALARM', n))
        if not silent:
            bad += 1
            print(out.rstrip())
print('%d variants, %d with alarms' % (len(names), bad))
