#!/bin/sh
# rebase_start.sh <patch.diff> <old-base>: leaves /tmp/rebase_wt at /repo HEAD with the variant cherry-picked (conflict markers if any)
P="$1"; OLD="$2"; WT=/tmp/rebase_wt
git -C /repo worktree remove --force $WT >/dev/null 2>&1 || true
git -C /repo worktree add -q --detach $WT "$OLD"
cd $WT && git apply "$P" && git -c user.name=x -c user.email=x@x commit -qam variant && V=$(git rev-parse HEAD) && git checkout -q --detach $(git -C /repo rev-parse HEAD) && (git -c user.name=x -c user.email=x@x cherry-pick -X ignore-all-space --no-commit $V >/dev/null 2>&1; git status --short | head)
