#!/usr/bin/env python3
"""import_round.py <round> [Cnn...] — copy confirmed agent mutants from /tmp/wt/Cnn into seeded/Cnn-r<round>-k (patch, demo, meta)"""
import json, os, shutil, sys, glob
rnd = sys.argv[1]
only = sys.argv[2:]
conf = json.load(open('/tmp/confirm_results.json'))
HERE = os.path.dirname(os.path.dirname(os.path.abspath(__file__)))
for d in sorted(glob.glob('/tmp/wt/C??')):
    pid = os.path.basename(d)
    if only and pid not in only:
        continue
    for k in (1, 2, 3):
        key = '%s-%d' % (pid, k)
        diff = os.path.join(d, 'MUTANT_%d.diff' % k)
        if not os.path.exists(diff) or key not in conf:
            continue
        c = conf[key]
        if not (c.get('tests_pass') and c.get('demo_differs')):
            print('NOT CONFIRMED', key, c.get('tests'), c.get('error'))
            continue
        out = os.path.join(HERE, 'seeded', '%s-r%s-%d' % (pid, rnd, k))
        os.makedirs(out, exist_ok=True)
        shutil.copy(diff, os.path.join(out, 'patch.diff'))
        for f in glob.glob(os.path.join(d, 'demo_%d.*' % k)):
            shutil.copy(f, os.path.join(out, os.path.basename(f)))
        meta = json.load(open(os.path.join(d, 'meta_%d.json' % k))) if os.path.exists(os.path.join(d, 'meta_%d.json' % k)) else {}
        meta['round'] = int(rnd)
        meta['confirmed'] = {'how': 'scratch git worktree of /repo HEAD: git apply patch.diff; cargo test --offline (46+53 pass, 1 ignored); demo run on the unchanged and on the changed tree',
                             'tests_pass_with_change': True, 'demo_differs': True, 'unchanged': c.get('base'), 'changed': c.get('mut')}
        meta['checks_run'] = 'tools/run_seeded.py patch.diff (scratch copy of /repo with the patch, python3 check.py all --tier quick)'
        json.dump(meta, open(os.path.join(out, 'meta.json'), 'w'), indent=1, ensure_ascii=False)
        print('imported', out)
