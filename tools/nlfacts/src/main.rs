// nlfacts — MIR/HIR fact extractor for the nederlang static checks (engine E1).
//
// Used as RUSTC_WORKSPACE_WRAPPER: argv = [nlfacts, <rustc path>, rustc args...].
// For the crate(s) named in NLFACTS_CRATES (comma separated; default "nederlang") it runs
// rustc with callbacks and, after analysis, writes one JSON fact file per compilation unit to
// $NLFACTS_OUT/<crate>-<crate type>.json (one write per process). For every other crate it
// behaves exactly like rustc.
#![feature(rustc_private)]
#![allow(clippy::all)]

extern crate rustc_abi;
extern crate rustc_driver;
extern crate rustc_hir;
extern crate rustc_interface;
extern crate rustc_middle;
extern crate rustc_session;
extern crate rustc_span;

use rustc_driver::{Callbacks, Compilation};
use rustc_hir::def::DefKind;
use rustc_hir::def_id::{DefId, LOCAL_CRATE};
use rustc_interface::interface;
use rustc_middle::mir::{
    self, AggregateKind, BasicBlockData, Body, Const, Operand, Place, ProjectionElem, Rvalue,
    StatementKind, TerminatorKind,
};
use rustc_middle::ty::{self, Instance, Ty, TyCtxt, TypingEnv};
use rustc_span::{ExpnKind, Span};
use std::fmt::Write as _;

// ------------------------------------------------------------------------------------------
// a tiny JSON value
// ------------------------------------------------------------------------------------------
#[derive(Clone)]
enum J {
    Null,
    B(bool),
    I(i128),
    S(String),
    A(Vec<J>),
    O(Vec<(String, J)>),
}
fn s<T: Into<String>>(x: T) -> J {
    J::S(x.into())
}
fn o(v: Vec<(&str, J)>) -> J {
    J::O(v.into_iter().map(|(k, v)| (k.to_string(), v)).collect())
}
fn esc(out: &mut String, t: &str) {
    out.push('"');
    for c in t.chars() {
        match c {
            '"' => out.push_str("\\\""),
            '\\' => out.push_str("\\\\"),
            '\n' => out.push_str("\\n"),
            '\r' => out.push_str("\\r"),
            '\t' => out.push_str("\\t"),
            c if (c as u32) < 0x20 => {
                let _ = write!(out, "\\u{:04x}", c as u32);
            }
            c => out.push(c),
        }
    }
    out.push('"');
}
impl J {
    fn write(&self, out: &mut String) {
        match self {
            J::Null => out.push_str("null"),
            J::B(b) => out.push_str(if *b { "true" } else { "false" }),
            J::I(i) => {
                let _ = write!(out, "{}", i);
            }
            J::S(t) => esc(out, t),
            J::A(v) => {
                out.push('[');
                for (i, x) in v.iter().enumerate() {
                    if i > 0 {
                        out.push(',');
                    }
                    x.write(out);
                }
                out.push(']');
            }
            J::O(v) => {
                out.push('{');
                for (i, (k, x)) in v.iter().enumerate() {
                    if i > 0 {
                        out.push(',');
                    }
                    esc(out, k);
                    out.push(':');
                    x.write(out);
                }
                out.push('}');
            }
        }
    }
}

// ------------------------------------------------------------------------------------------
struct Cb {
    out_dir: String,
}

impl Callbacks for Cb {
    fn config(&mut self, _config: &mut interface::Config) {}

    fn after_analysis<'tcx>(&mut self, _c: &interface::Compiler, tcx: TyCtxt<'tcx>) -> Compilation {
        let krate = tcx.crate_name(LOCAL_CRATE).to_string();
        let ctype = format!("{:?}", tcx.crate_types().first()).to_lowercase();
        let kind = if ctype.contains("executable") { "bin" } else { "lib" };
        let facts = extract(tcx, &krate, kind);
        let mut text = String::with_capacity(1 << 22);
        facts.write(&mut text);
        let path = format!("{}/{}-{}.json", self.out_dir, krate, kind);
        std::fs::create_dir_all(&self.out_dir).expect("nlfacts: cannot create output dir");
        std::fs::write(&path, text).expect("nlfacts: cannot write facts");
        Compilation::Continue
    }
}

fn span_j<'tcx>(tcx: TyCtxt<'tcx>, sp: Span) -> J {
    let sm = tcx.sess.source_map();
    // the place in user-written code (outermost call site of any macro expansion)
    let root = sp.source_callsite();
    let lo = sm.lookup_char_pos(root.lo());
    let hi = sm.lookup_char_pos(root.hi());
    let file = match &lo.file.name {
        rustc_span::FileName::Real(r) => match r.local_path() {
            Some(p) => p.to_string_lossy().to_string(),
            None => format!("{:?}", lo.file.name),
        },
        other => format!("{:?}", other),
    };
    let mut v = vec![
        ("file", s(file)),
        ("line", J::I(lo.line as i128)),
        ("col", J::I(lo.col.0 as i128 + 1)),
        ("line_hi", J::I(hi.line as i128)),
        ("exp", J::B(sp.from_expansion())),
    ];
    if sp.from_expansion() {
        // macro backtrace, innermost first
        let mut names = Vec::new();
        let mut desugar = Vec::new();
        for ed in sp.macro_backtrace() {
            match ed.kind {
                ExpnKind::Macro(_, name) => names.push(s(name.to_string())),
                ExpnKind::Desugaring(d) => desugar.push(s(format!("{:?}", d))),
                ExpnKind::AstPass(p) => desugar.push(s(format!("{:?}", p))),
                ExpnKind::Root => {}
            }
        }
        // desugarings (`?`, for loops) are not macros: record them apart
        if names.is_empty() && !desugar.is_empty() {
            // not a macro expansion in the user's sense
            v[4] = ("exp", J::B(false));
        }
        v.push(("macros", J::A(names)));
        v.push(("desugar", J::A(desugar)));
        // line inside the macro definition (for macro_rules! of the crate itself)
        let inner = sm.lookup_char_pos(sp.lo());
        v.push(("inner_line", J::I(inner.line as i128)));
    }
    o(v)
}

fn ty_s<'tcx>(t: Ty<'tcx>) -> String {
    rustc_middle::ty::print::with_no_visible_paths!(rustc_middle::ty::print::with_no_trimmed_paths!(format!("{:?}", t)))
}

fn def_path<'tcx>(tcx: TyCtxt<'tcx>, d: DefId) -> String {
    // canonical definition path (not the shortest visible re-export): stable names for std items
    rustc_middle::ty::print::with_no_visible_paths!(rustc_middle::ty::print::with_no_trimmed_paths!(tcx.def_path_str(d)))
}

fn place_j<'tcx>(tcx: TyCtxt<'tcx>, body: &Body<'tcx>, p: &Place<'tcx>) -> J {
    let mut proj = Vec::new();
    let mut cur_ty = mir::PlaceTy::from_ty(body.local_decls[p.local].ty);
    for elem in p.projection.iter() {
        let j = match elem {
            ProjectionElem::Deref => s("deref"),
            ProjectionElem::Field(f, fty) => {
                let mut name = format!("{}", f.index());
                let mut owner = String::new();
                if let ty::Adt(adt, _) = cur_ty.ty.kind() {
                    owner = def_path(tcx, adt.did());
                    let vidx = cur_ty.variant_index.unwrap_or(rustc_abi::FIRST_VARIANT);
                    if vidx.index() < adt.variants().len() {
                        let v = adt.variant(vidx);
                        if f.index() < v.fields.len() {
                            name = v.fields[f].name.to_string();
                        }
                    }
                }
                o(vec![
                    ("field", J::I(f.index() as i128)),
                    ("name", s(name)),
                    ("of", s(owner)),
                    ("ty", s(ty_s(fty))),
                ])
            }
            ProjectionElem::Index(l) => o(vec![("index", J::I(l.index() as i128))]),
            ProjectionElem::ConstantIndex { offset, from_end, .. } => o(vec![
                ("const_index", J::I(offset as i128)),
                ("from_end", J::B(from_end)),
            ]),
            ProjectionElem::Subslice { from, to, from_end } => o(vec![
                ("subslice", J::A(vec![J::I(from as i128), J::I(to as i128)])),
                ("from_end", J::B(from_end)),
            ]),
            ProjectionElem::Downcast(name, vidx) => {
                let n = match name {
                    Some(n) => n.to_string(),
                    None => {
                        if let ty::Adt(adt, _) = cur_ty.ty.kind() {
                            adt.variant(vidx).name.to_string()
                        } else {
                            format!("{}", vidx.index())
                        }
                    }
                };
                o(vec![("downcast", s(n)), ("vidx", J::I(vidx.index() as i128))])
            }
            other => s(format!("{:?}", other)),
        };
        proj.push(j);
        cur_ty = cur_ty.projection_ty(tcx, elem);
    }
    o(vec![
        ("local", J::I(p.local.index() as i128)),
        ("proj", J::A(proj)),
        ("ty", s(ty_s(cur_ty.ty))),
        ("text", s(format!("{:?}", p))),
    ])
}

fn enum_variant_of_scalar<'tcx>(tcx: TyCtxt<'tcx>, t: Ty<'tcx>, bits: u128) -> Option<String> {
    if let ty::Adt(adt, _) = t.kind() {
        if adt.is_enum() {
            for (vidx, d) in adt.discriminants(tcx) {
                if d.val == bits {
                    return Some(adt.variant(vidx).name.to_string());
                }
            }
        }
    }
    None
}

fn const_j<'tcx>(tcx: TyCtxt<'tcx>, c: &mir::ConstOperand<'tcx>) -> J {
    let t = c.const_.ty();
    let mut v = vec![("k", s("const")), ("ty", s(ty_s(t))), ("text", s(format!("{}", c.const_)))];
    if let ty::FnDef(did, args) = t.kind() {
        v.push(("fn", s(def_path(tcx, *did))));
        v.push(("fn_args", s(format!("{:?}", args))));
    }
    if let Const::Unevaluated(uv, _) = c.const_ {
        if let Some(pr) = uv.promoted {
            v.push(("promoted", J::I(pr.index() as i128)));
        } else if uv.def.is_local() {
            // a named constant of this crate: its initialiser is dumped with the constants (`body`)
            v.push(("const_item", s(def_path(tcx, uv.def))));
        }
    }
    // scalar value
    let env = TypingEnv::fully_monomorphized();
    let scalar = match c.const_ {
        Const::Val(mir::ConstValue::Scalar(sc), _) => Some(sc),
        Const::Val(..) => None,
        Const::Unevaluated(uv, _) if uv.promoted.is_some() => None,
        _ => c.const_.try_eval_scalar(tcx, env),
    };
    if let Some(mir::interpret::Scalar::Int(si)) = scalar {
        let size = si.size();
        let bits = si.to_bits(size);
        v.push(("bits", J::I(bits as i128)));
        v.push(("size", J::I(size.bytes() as i128)));
        if t.is_signed() {
            v.push(("int", J::I(si.to_int(size))));
        } else if t.is_integral() || t.is_bool() || t.is_char() {
            v.push(("int", J::I(bits as i128)));
        }
        if let Some(name) = enum_variant_of_scalar(tcx, t, bits) {
            v.push(("variant", s(name)));
        }
    }
    // string literal
    if let ty::Ref(_, inner, _) = t.kind() {
        if inner.is_str() {
            if let Const::Val(val, _) = c.const_ {
                if let Some(bytes) = val.try_get_slice_bytes_for_diagnostics(tcx) {
                    v.push(("str", s(String::from_utf8_lossy(bytes).to_string())));
                }
            }
        }
    }
    o(v)
}

fn operand_j<'tcx>(tcx: TyCtxt<'tcx>, body: &Body<'tcx>, op: &Operand<'tcx>) -> J {
    match op {
        Operand::Copy(p) => o(vec![("k", s("copy")), ("place", place_j(tcx, body, p))]),
        Operand::Move(p) => o(vec![("k", s("move")), ("place", place_j(tcx, body, p))]),
        Operand::Constant(c) => const_j(tcx, c),
        #[allow(unreachable_patterns)]
        other => o(vec![("k", s("other")), ("text", s(format!("{:?}", other)))]),
    }
}

fn rvalue_j<'tcx>(tcx: TyCtxt<'tcx>, body: &Body<'tcx>, rv: &Rvalue<'tcx>) -> J {
    match rv {
        Rvalue::Use(op, ..) => o(vec![("k", s("use")), ("op", operand_j(tcx, body, op))]),
        Rvalue::CopyForDeref(p) => o(vec![
            ("k", s("use")),
            ("op", o(vec![("k", s("copy")), ("place", place_j(tcx, body, p))])),
        ]),
        Rvalue::Ref(_, bk, p) => o(vec![
            ("k", s("ref")),
            ("mut", J::B(matches!(bk, mir::BorrowKind::Mut { .. }))),
            ("place", place_j(tcx, body, p)),
        ]),
        Rvalue::RawPtr(k, p) => o(vec![
            ("k", s("rawptr")),
            ("mut", J::B(format!("{:?}", k).contains("Mut"))),
            ("place", place_j(tcx, body, p)),
        ]),
        Rvalue::Cast(ck, op, t) => o(vec![
            ("k", s("cast")),
            ("ck", s(format!("{:?}", ck))),
            ("op", operand_j(tcx, body, op)),
            ("from", s(ty_s(op.ty(body, tcx)))),
            ("to", s(ty_s(*t))),
        ]),
        Rvalue::BinaryOp(bop, ops) => o(vec![
            ("k", s("binop")),
            ("op", s(format!("{:?}", bop))),
            ("l", operand_j(tcx, body, &ops.0)),
            ("r", operand_j(tcx, body, &ops.1)),
            ("lty", s(ty_s(ops.0.ty(body, tcx)))),
            ("rty", s(ty_s(ops.1.ty(body, tcx)))),
        ]),
        Rvalue::UnaryOp(uop, op) => o(vec![
            ("k", s("unop")),
            ("op", s(format!("{:?}", uop))),
            ("x", operand_j(tcx, body, op)),
            ("xty", s(ty_s(op.ty(body, tcx)))),
        ]),
        Rvalue::Discriminant(p) => {
            let t = p.ty(body, tcx).ty;
            let en = if let ty::Adt(adt, _) = t.kind() { def_path(tcx, adt.did()) } else { ty_s(t) };
            o(vec![("k", s("discr")), ("place", place_j(tcx, body, p)), ("enum", s(en))])
        }
        Rvalue::Aggregate(kind, ops) => {
            let mut v = vec![("k", s("aggregate"))];
            match &**kind {
                AggregateKind::Adt(did, vidx, _, _, _) => {
                    let adt = tcx.adt_def(*did);
                    v.push(("adt", s(def_path(tcx, *did))));
                    v.push(("variant", s(adt.variant(*vidx).name.to_string())));
                    let names: Vec<J> =
                        adt.variant(*vidx).fields.iter().map(|f| s(f.name.to_string())).collect();
                    v.push(("fields", J::A(names)));
                }
                AggregateKind::Closure(did, _) => {
                    v.push(("closure", s(def_path(tcx, *did))));
                }
                other => v.push(("agg", s(format!("{:?}", other)))),
            }
            v.push(("ops", J::A(ops.iter().map(|x| operand_j(tcx, body, x)).collect())));
            o(v)
        }
        Rvalue::ThreadLocalRef(d) => o(vec![("k", s("tls")), ("def", s(def_path(tcx, *d)))]),
        Rvalue::Repeat(op, _) => o(vec![("k", s("repeat")), ("op", operand_j(tcx, body, op))]),
        other => o(vec![("k", s("other")), ("text", s(format!("{:?}", other)))]),
    }
}

fn resolve_callee<'tcx>(
    tcx: TyCtxt<'tcx>,
    body_def: DefId,
    func: &Operand<'tcx>,
    body: &Body<'tcx>,
) -> Vec<(&'static str, J)> {
    let fty = func.ty(body, tcx);
    let mut v: Vec<(&'static str, J)> = Vec::new();
    match fty.kind() {
        ty::FnDef(did, args) => {
            v.push(("path", s(def_path(tcx, *did))));
            v.push(("generic_args", s(format!("{:?}", args))));
            v.push(("local", J::B(did.is_local())));
            v.push(("krate", s(tcx.crate_name(did.krate).to_string())));
            {
                let sig = tcx.fn_sig(*did).instantiate_identity().skip_norm_wip();
                v.push(("unsafe", J::B(format!("{:?}", sig.safety()).contains("Unsafe"))));
            }
            // resolve trait methods to the impl that will run
            let env = TypingEnv::post_analysis(tcx, body_def);
            let resolved = std::panic::catch_unwind(std::panic::AssertUnwindSafe(|| {
                Instance::try_resolve(tcx, env, *did, args)
            }));
            if let Ok(Ok(Some(inst))) = resolved {
                let rd = inst.def_id();
                v.push(("resolved", s(def_path(tcx, rd))));
                v.push(("resolved_local", J::B(rd.is_local())));
                v.push(("resolved_kind", s(format!("{:?}", inst.def).split('(').next().unwrap_or("").to_string())));
                if let Some(impl_did) = tcx.impl_of_assoc(rd) {
                    let self_ty = tcx.type_of(impl_did).instantiate_identity().skip_norm_wip();
                    v.push(("impl_self", s(ty_s(self_ty))));
                    if let Some(tr) = tcx.impl_opt_trait_ref(impl_did) {
                        let tr = tr.instantiate_identity().skip_norm_wip();
                        v.push(("impl_trait", s(def_path(tcx, tr.def_id))));
                    }
                }
            } else {
                v.push(("resolved", J::Null));
            }
            if let Some(tr) = tcx.trait_of_assoc(*did) {
                v.push(("trait", s(def_path(tcx, tr))));
            }
            // the Self type / first generic arg (useful for `<T as Trait>::m`)
            if let Some(first) = args.types().next() {
                v.push(("self_ty", s(ty_s(first))));
            }
        }
        ty::FnPtr(..) => {
            v.push(("path", s("<fn pointer>")));
            v.push(("indirect", operand_j(tcx, body, func)));
        }
        _ => {
            v.push(("path", s(format!("<indirect {}>", ty_s(fty)))));
            v.push(("indirect", operand_j(tcx, body, func)));
        }
    }
    v
}

fn block_j<'tcx>(tcx: TyCtxt<'tcx>, def: DefId, body: &Body<'tcx>, idx: usize, bb: &BasicBlockData<'tcx>) -> J {
    let mut stmts = Vec::new();
    for st in &bb.statements {
        match &st.kind {
            StatementKind::Assign(b) => {
                let (p, rv) = &**b;
                stmts.push(o(vec![
                    ("k", s("assign")),
                    ("place", place_j(tcx, body, p)),
                    ("rv", rvalue_j(tcx, body, rv)),
                    ("span", span_j(tcx, st.source_info.span)),
                ]));
            }
            StatementKind::SetDiscriminant { place, variant_index } => {
                stmts.push(o(vec![
                    ("k", s("setdiscr")),
                    ("place", place_j(tcx, body, place)),
                    ("vidx", J::I(variant_index.index() as i128)),
                ]));
            }
            StatementKind::Intrinsic(i) => {
                stmts.push(o(vec![("k", s("intrinsic")), ("text", s(format!("{:?}", i)))]));
            }
            StatementKind::StorageLive(l) => {
                stmts.push(o(vec![("k", s("live")), ("local", J::I(l.index() as i128))]));
            }
            StatementKind::StorageDead(l) => {
                stmts.push(o(vec![("k", s("dead")), ("local", J::I(l.index() as i128))]));
            }
            _ => {}
        }
    }
    let term = bb.terminator();
    let sp = span_j(tcx, term.source_info.span);
    let t = match &term.kind {
        TerminatorKind::Goto { target } => o(vec![("k", s("goto")), ("target", J::I(target.index() as i128))]),
        TerminatorKind::SwitchInt { discr, targets } => {
            let dty = discr.ty(body, tcx);
            let mut ts = Vec::new();
            for (val, bbx) in targets.iter() {
                ts.push(J::A(vec![J::I(val as i128), J::I(bbx.index() as i128)]));
            }
            o(vec![
                ("k", s("switch")),
                ("op", operand_j(tcx, body, discr)),
                ("ty", s(ty_s(dty))),
                ("targets", J::A(ts)),
                ("otherwise", J::I(targets.otherwise().index() as i128)),
                ("span", sp),
            ])
        }
        TerminatorKind::Return => o(vec![("k", s("return")), ("span", sp)]),
        TerminatorKind::Unreachable => o(vec![("k", s("unreachable"))]),
        TerminatorKind::UnwindResume => o(vec![("k", s("resume"))]),
        TerminatorKind::UnwindTerminate(_) => o(vec![("k", s("terminate"))]),
        TerminatorKind::Drop { place, target, unwind, .. } => o(vec![
            ("k", s("drop")),
            ("place", place_j(tcx, body, place)),
            ("target", J::I(target.index() as i128)),
            ("unwind", unwind_j(unwind)),
            ("span", sp),
        ]),
        TerminatorKind::Call { func, args, destination, target, unwind, fn_span, .. } => {
            let mut v = vec![("k", s("call"))];
            v.push(("callee", J::O(resolve_callee(tcx, def, func, body).into_iter().map(|(k, x)| (k.to_string(), x)).collect())));
            v.push(("args", J::A(args.iter().map(|a| operand_j(tcx, body, &a.node)).collect())));
            v.push(("dest", place_j(tcx, body, destination)));
            v.push(("target", match target { Some(t) => J::I(t.index() as i128), None => J::Null }));
            v.push(("unwind", unwind_j(unwind)));
            v.push(("span", sp));
            v.push(("fn_span", span_j(tcx, *fn_span)));
            o(v)
        }
        TerminatorKind::Assert { cond, expected, msg, target, unwind } => {
            let full = format!("{:?}", msg);
            let kind = full.split(|c: char| c == '(' || c == '{' || c == ' ').next().unwrap_or("").to_string();
            o(vec![
                ("k", s("assert")),
                ("cond", operand_j(tcx, body, cond)),
                ("expected", J::B(*expected)),
                ("msg", s(kind)),
                ("msg_full", s(full)),
                ("target", J::I(target.index() as i128)),
                ("unwind", unwind_j(unwind)),
                ("span", sp),
            ])
        }
        TerminatorKind::FalseEdge { real_target, .. } => o(vec![("k", s("goto")), ("target", J::I(real_target.index() as i128))]),
        TerminatorKind::FalseUnwind { real_target, .. } => o(vec![("k", s("goto")), ("target", J::I(real_target.index() as i128))]),
        other => o(vec![("k", s("other")), ("text", s(format!("{:?}", other))), ("span", sp)]),
    };
    o(vec![
        ("i", J::I(idx as i128)),
        ("cleanup", J::B(bb.is_cleanup)),
        ("stmts", J::A(stmts)),
        ("term", t),
    ])
}

fn unwind_j(u: &mir::UnwindAction) -> J {
    match u {
        mir::UnwindAction::Cleanup(bb) => J::I(bb.index() as i128),
        _ => J::Null,
    }
}

fn in_test_cfg<'tcx>(tcx: TyCtxt<'tcx>, d: DefId) -> bool {
    // `cargo check --lib/--bin` never passes --test, so cfg(test) items do not exist here.
    let _ = (tcx, d);
    false
}

fn extract<'tcx>(tcx: TyCtxt<'tcx>, krate: &str, kind: &str) -> J {
    let mut fns = Vec::new();
    let mut adts = Vec::new();
    let mut consts = Vec::new();
    let mut statics = Vec::new();
    let mut impls = Vec::new();
    let mut foreign_statics = Vec::new();

    // ---- items -------------------------------------------------------------------------
    for id in tcx.hir_crate_items(()).definitions() {
        let did = id.to_def_id();
        let dk = tcx.def_kind(did);
        match dk {
            DefKind::Struct | DefKind::Enum | DefKind::Union => {
                let adt = tcx.adt_def(did);
                let t = tcx.type_of(did).instantiate_identity().skip_norm_wip();
                let mut variants = Vec::new();
                let discrs: Vec<(rustc_abi::VariantIdx, u128)> = if adt.is_enum() {
                    adt.discriminants(tcx).map(|(i, d)| (i, d.val)).collect()
                } else {
                    Vec::new()
                };
                for (vidx, v) in adt.variants().iter_enumerated() {
                    let d = discrs.iter().find(|(i, _)| *i == vidx).map(|(_, d)| *d);
                    let fields: Vec<J> = v
                        .fields
                        .iter()
                        .map(|f| {
                            let fty = tcx.type_of(f.did).instantiate_identity().skip_norm_wip();
                            o(vec![
                                ("name", s(f.name.to_string())),
                                ("ty", s(ty_s(fty))),
                                ("vis", s(format!("{:?}", f.vis))),
                            ])
                        })
                        .collect();
                    variants.push(o(vec![
                        ("name", s(v.name.to_string())),
                        ("discr", match d { Some(d) => J::I(d as i128), None => J::Null }),
                        ("fields", J::A(fields)),
                    ]));
                }
                let mut v = vec![
                    ("path", s(def_path(tcx, did))),
                    ("kind", s(format!("{:?}", dk))),
                    ("repr", s(format!("{:?}", adt.repr()))),
                    ("repr_int", s(format!("{:?}", adt.repr().int))),
                    ("variants", J::A(variants)),
                    ("span", span_j(tcx, tcx.def_span(did))),
                    ("vis", s(format!("{:?}", tcx.visibility(did)))),
                ];
                let generics = tcx.generics_of(did);
                if generics.own_params.iter().all(|p| matches!(p.kind, ty::GenericParamDefKind::Lifetime)) {
                    let env = TypingEnv::post_analysis(tcx, did);
                    if let Ok(layout) = tcx.layout_of(env.as_query_input(t)) {
                        v.push(("size", J::I(layout.size.bytes() as i128)));
                        v.push(("align", J::I(layout.align.abi.bytes() as i128)));
                    }
                    v.push(("is_copy", J::B(tcx.type_is_copy_modulo_regions(env, t))));
                    v.push(("needs_drop", J::B(t.needs_drop(tcx, env))));
                }
                adts.push(o(v));
            }
            DefKind::Const { .. } | DefKind::AssocConst { .. } => {
                let t = tcx.type_of(did).instantiate_identity().skip_norm_wip();
                let mut v = vec![("path", s(def_path(tcx, did))), ("ty", s(ty_s(t))), ("span", span_j(tcx, tcx.def_span(did)))];
                if tcx.generics_of(did).is_empty() && tcx.generics_of(did).parent.is_none() {
                    if let Ok(val) = tcx.const_eval_poly(did) {
                        if let Some(si) = val.try_to_scalar_int() {
                            let size = si.size();
                            let bits = si.to_bits(size);
                            v.push(("bits", J::I(bits as i128)));
                            if t.is_signed() {
                                v.push(("int", J::I(si.to_int(size))));
                            } else {
                                v.push(("int", J::I(bits as i128)));
                            }
                        }
                    }
                }
                if tcx.generics_of(did).is_empty() && tcx.generics_of(did).parent.is_none() && did.is_local() && !in_test_cfg(tcx, did) {
                    // the initialiser (a table of tuples, a struct of function pointers): the body the compiler evaluates
                    let body: &Body<'tcx> = tcx.mir_for_ctfe(did);
                    let locals: Vec<J> = body
                        .local_decls
                        .iter_enumerated()
                        .map(|(l, d)| o(vec![("i", J::I(l.index() as i128)), ("ty", s(ty_s(d.ty))), ("name", J::Null)]))
                        .collect();
                    let blocks: Vec<J> = body
                        .basic_blocks
                        .iter_enumerated()
                        .map(|(i, bb)| block_j(tcx, did, body, i.index(), bb))
                        .collect();
                    let mut proms = Vec::new();
                    for (pi, pb) in tcx.promoted_mir(did).iter_enumerated() {
                        let plocals: Vec<J> = pb
                            .local_decls
                            .iter_enumerated()
                            .map(|(l, d)| o(vec![("i", J::I(l.index() as i128)), ("ty", s(ty_s(d.ty))), ("name", J::Null)]))
                            .collect();
                        let pblocks: Vec<J> = pb
                            .basic_blocks
                            .iter_enumerated()
                            .map(|(i, bb)| block_j(tcx, did, pb, i.index(), bb))
                            .collect();
                        proms.push(o(vec![("i", J::I(pi.index() as i128)), ("locals", J::A(plocals)), ("blocks", J::A(pblocks))]));
                    }
                    v.push(("body", o(vec![("locals", J::A(locals)), ("blocks", J::A(blocks)), ("promoted", J::A(proms))])));
                }
                consts.push(o(v));
            }
            DefKind::Static { mutability, nested, .. } => {
                let t = tcx.type_of(did).instantiate_identity().skip_norm_wip();
                statics.push(o(vec![
                    ("path", s(def_path(tcx, did))),
                    ("ty", s(ty_s(t))),
                    ("mut", J::B(mutability.is_mut())),
                    ("nested", J::B(nested)),
                    ("thread_local", J::B(tcx.is_thread_local_static(did))),
                    ("interior_mut", J::B(!t.is_freeze(tcx, TypingEnv::post_analysis(tcx, did)))),
                    ("span", span_j(tcx, tcx.def_span(did))),
                ]));
            }
            DefKind::Impl { .. } => {
                let self_ty = tcx.type_of(did).instantiate_identity().skip_norm_wip();
                let mut v = vec![
                    ("self_ty", s(ty_s(self_ty))),
                    ("span", span_j(tcx, tcx.def_span(did))),
                ];
                if let Some(tr) = tcx.impl_opt_trait_ref(did) {
                    let tr = tr.instantiate_identity().skip_norm_wip();
                    v.push(("trait", s(def_path(tcx, tr.def_id))));
                    v.push(("trait_ref", s(format!("{:?}", tr))));
                    let safety = format!("{:?}", tcx.impl_trait_header(did).safety);
                    v.push(("unsafe", J::B(safety.contains("Unsafe"))));
                }
                let items: Vec<J> = tcx.associated_item_def_ids(did).iter().map(|d| s(def_path(tcx, *d))).collect();
                v.push(("items", J::A(items)));
                impls.push(o(v));
            }
            _ => {}
        }
    }

    // ---- bodies ------------------------------------------------------------------------
    for ldid in tcx.mir_keys(()).iter() {
        let did = ldid.to_def_id();
        let dk = tcx.def_kind(did);
        let is_fn = matches!(dk, DefKind::Fn | DefKind::AssocFn | DefKind::Closure);
        if !is_fn {
            continue;
        }
        if in_test_cfg(tcx, did) {
            continue;
        }
        let body: &Body<'tcx> = tcx.optimized_mir(did);
        let mut v = vec![
            ("path", s(def_path(tcx, did))),
            ("def_kind", s(format!("{:?}", dk))),
            ("span", span_j(tcx, tcx.def_span(did))),
            ("body_span", span_j(tcx, body.span)),
            ("arg_count", J::I(body.arg_count as i128)),
        ];
        if matches!(dk, DefKind::Fn | DefKind::AssocFn) {
            v.push(("vis", s(format!("{:?}", tcx.visibility(did)))));
            let sig = tcx.fn_sig(did).instantiate_identity().skip_norm_wip();
            v.push(("unsafe", J::B(format!("{:?}", sig.safety()).contains("Unsafe"))));
            v.push(("sig", s(format!("{:?}", sig.skip_binder()))));
            v.push(("ret", s(ty_s(sig.skip_binder().output()))));
            if let Some(impl_did) = tcx.impl_of_assoc(did) {
                let self_ty = tcx.type_of(impl_did).instantiate_identity().skip_norm_wip();
                v.push(("impl_self", s(ty_s(self_ty))));
                if let Some(tr) = tcx.impl_opt_trait_ref(impl_did) {
                    let tr = tr.instantiate_identity().skip_norm_wip();
                    v.push(("impl_trait", s(def_path(tcx, tr.def_id))));
                }
            }
            let attrs = tcx.codegen_fn_attrs(did);
            v.push(("inline", s(format!("{:?}", attrs.inline))));
        } else {
            v.push(("parent", s(def_path(tcx, tcx.parent(did)))));
        }
        // locals
        let mut names: Vec<Option<String>> = vec![None; body.local_decls.len()];
        let mut dbg = Vec::new();
        for vdi in &body.var_debug_info {
            if let mir::VarDebugInfoContents::Place(p) = &vdi.value {
                if p.projection.is_empty() {
                    names[p.local.index()] = Some(vdi.name.to_string());
                }
                dbg.push(o(vec![("name", s(vdi.name.to_string())), ("place", place_j(tcx, body, p))]));
            }
        }
        let locals: Vec<J> = body
            .local_decls
            .iter_enumerated()
            .map(|(l, d)| {
                o(vec![
                    ("i", J::I(l.index() as i128)),
                    ("ty", s(ty_s(d.ty))),
                    ("name", match &names[l.index()] { Some(n) => s(n.clone()), None => J::Null }),
                ])
            })
            .collect();
        v.push(("locals", J::A(locals)));
        v.push(("debug", J::A(dbg)));
        let blocks: Vec<J> = body
            .basic_blocks
            .iter_enumerated()
            .map(|(i, bb)| block_j(tcx, did, body, i.index(), bb))
            .collect();
        v.push(("blocks", J::A(blocks)));
        let mut proms = Vec::new();
        for (pi, pb) in tcx.promoted_mir(did).iter_enumerated() {
            let plocals: Vec<J> = pb
                .local_decls
                .iter_enumerated()
                .map(|(l, d)| o(vec![("i", J::I(l.index() as i128)), ("ty", s(ty_s(d.ty))), ("name", J::Null)]))
                .collect();
            let pblocks: Vec<J> = pb
                .basic_blocks
                .iter_enumerated()
                .map(|(i, bb)| block_j(tcx, did, pb, i.index(), bb))
                .collect();
            proms.push(o(vec![("i", J::I(pi.index() as i128)), ("locals", J::A(plocals)), ("blocks", J::A(pblocks))]));
        }
        v.push(("promoted", J::A(proms)));
        // statics referenced from this body (through constants pointing to static allocations)
        for c in body.required_consts() {
            let _ = c;
        }
        fns.push(o(v));
    }

    // foreign statics referenced: scan all bodies' constants of pointer type to statics
    for ldid in tcx.mir_keys(()).iter() {
        let did = ldid.to_def_id();
        if !matches!(tcx.def_kind(did), DefKind::Fn | DefKind::AssocFn | DefKind::Closure) {
            continue;
        }
        let body: &Body<'tcx> = tcx.optimized_mir(did);
        for bb in body.basic_blocks.iter() {
            for st in &bb.statements {
                if let StatementKind::Assign(b) = &st.kind {
                    if let Rvalue::Use(Operand::Constant(c), ..) = &b.1 {
                        if let Some(sd) = c.check_static_ptr(tcx) {
                            foreign_statics.push(o(vec![
                                ("in", s(def_path(tcx, did))),
                                ("static", s(def_path(tcx, sd))),
                                ("local", J::B(sd.is_local())),
                                ("mut", J::B(tcx.is_mutable_static(sd))),
                            ]));
                        }
                    }
                    if let Rvalue::ThreadLocalRef(sd) = &b.1 {
                        foreign_statics.push(o(vec![
                            ("in", s(def_path(tcx, did))),
                            ("static", s(def_path(tcx, *sd))),
                            ("local", J::B(sd.is_local())),
                            ("thread_local", J::B(true)),
                        ]));
                    }
                }
            }
        }
    }

    let opts = &tcx.sess.opts;
    o(vec![
        ("crate", s(krate)),
        ("kind", s(kind)),
        ("debug_assertions", J::B(opts.debug_assertions)),
        ("overflow_checks", J::B(tcx.sess.overflow_checks())),
        ("features", J::A(
            tcx.sess.config.iter().filter(|(k, _)| k.as_str() == "feature").map(|(_, v)| s(v.map(|x| x.to_string()).unwrap_or_default())).collect(),
        )),
        ("test_harness", J::B(opts.test)),
        ("adts", J::A(adts)),
        ("consts", J::A(consts)),
        ("statics", J::A(statics)),
        ("static_refs", J::A(foreign_statics)),
        ("impls", J::A(impls)),
        ("fns", J::A(fns)),
    ])
}

fn main() {
    let mut args: Vec<String> = std::env::args().collect();
    // RUSTC_WORKSPACE_WRAPPER: argv[1] is the real rustc path; drop it.
    if args.len() > 1 && (args[1].ends_with("rustc") || args[1].contains("/rustc")) {
        args.remove(1);
    }
    let wanted = std::env::var("NLFACTS_CRATES").unwrap_or_else(|_| "nederlang".to_string());
    let out_dir = std::env::var("NLFACTS_OUT").unwrap_or_else(|_| "/tmp/nlfacts-out".to_string());
    let mut crate_name = None;
    let mut i = 0;
    while i < args.len() {
        if args[i] == "--crate-name" && i + 1 < args.len() {
            crate_name = Some(args[i + 1].clone());
        }
        i += 1;
    }
    let is_build_script = crate_name.as_deref().map(|c| c.starts_with("build_script")).unwrap_or(false);
    let print_only = args.iter().any(|a| a.starts_with("--print") || a == "-vV" || a == "-V");
    let ours = crate_name.as_deref().map(|c| wanted.split(',').any(|w| w == c)).unwrap_or(false)
        && !is_build_script
        && !print_only;
    if ours {
        let mut cb = Cb { out_dir };
        rustc_driver::run_compiler(&args, &mut cb);
    } else {
        struct Plain;
        impl Callbacks for Plain {}
        rustc_driver::run_compiler(&args, &mut Plain);
    }
}
