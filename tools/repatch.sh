#!/bin/sh
# repatch.sh <variant dir> [fixup-script]: apply patch.diff to a copy of /repo/src ignoring whitespace (fuzz 3), optionally run a fix-up
# script on the copy (cwd = copy root), and store the result as the new patch.diff (old one kept as patch.diff.base-7db276c)
set -e
D="$1"; FIX="$2"
rm -rf /tmp/rp; mkdir -p /tmp/rp/a /tmp/rp/b; cp -r /repo/src /tmp/rp/a/; cp -r /repo/src /tmp/rp/b/
patch -p1 -l -F 3 -d /tmp/rp/b -i "$D/patch.diff" >/tmp/rp/patch.log 2>&1 || true
if [ -n "$FIX" ]; then (cd /tmp/rp/b && sh -c "$FIX"); fi
find /tmp/rp/b -name '*.rej' -o -name '*.orig' | xargs rm -f
[ -f "$D/patch.diff.base-7db276c" ] || cp "$D/patch.diff" "$D/patch.diff.base-7db276c"
(cd /tmp/rp && diff -ruN a/src b/src > "$D/patch.diff" || true)
grep -c '^@@' "$D/patch.diff"
