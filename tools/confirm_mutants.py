#!/usr/bin/env python3
"""confirm agent mutants: tests still pass with the change; demo differs between unchanged and changed tree"""
import re, json, os, shutil, subprocess, sys, glob
WT='/tmp/confirm_wt'
TARGET='/tmp/confirm_target'
env=dict(os.environ, CARGO_TARGET_DIR=TARGET, CARGO_NET_OFFLINE='true')
def sh(cmd, cwd, timeout=900):
    r=subprocess.run(cmd, shell=True, cwd=cwd, env=env, stdout=subprocess.PIPE, stderr=subprocess.STDOUT, text=True, timeout=timeout)
    return r.returncode, r.stdout
if not os.path.isdir(WT):
    print(sh('git -C /repo worktree add -q %s HEAD' % WT, '/')[1])
sh('git checkout -q -- . ; git clean -fdq ; git checkout -q --detach $(git -C /repo rev-parse HEAD)', WT)
results=json.load(open('/tmp/confirm_results.json')) if os.path.exists('/tmp/confirm_results.json') and os.environ.get('CONFIRM_MERGE') else {}
only=sys.argv[1:]
for d in sorted(glob.glob('/tmp/wt/C??')):
    pid=os.path.basename(d)
    if only and pid not in only: continue
    for k in (1,2,3):
        diff=os.path.join(d,'MUTANT_%d.diff'%k)
        if not os.path.exists(diff): continue
        key='%s-%d'%(pid,k)
        meta=json.load(open(os.path.join(d,'meta_%d.json'%k))) if os.path.exists(os.path.join(d,'meta_%d.json'%k)) else {}
        demo=[f for f in glob.glob(os.path.join(d,'demo_%d.*'%k))]
        res={'meta':meta.get('summary','')[:100]}
        sh('git checkout -q -- . && git clean -fdq', WT)
        # unchanged demo
        def run_demo():
            out={}
            for f in demo:
                if f.endswith('.nl'):
                    shutil.copy(f, os.path.join(WT, os.path.basename(f)))
                    rc,o=sh('cargo run --offline -q -- %s 2>&1 | grep -v "^warning\\|^ *|\\|^ *=\\|^$\\|-->\\|^help\\|^ *[0-9]* [|+-]\\|^\\s*$" | head -40' % os.path.basename(f), WT, 300)
                    out[os.path.basename(f)]=o
                    os.remove(os.path.join(WT, os.path.basename(f)))
                elif f.endswith('.rs'):
                    shutil.copy(f, os.path.join(WT,'tests',os.path.basename(f)))
                    rc,o=sh('cargo test --offline --test %s 2>&1 | grep -E "^test result|panicked|FAILED" | head -5' % os.path.basename(f)[:-3], WT, 600)
                    out[os.path.basename(f)]=o
                    os.remove(os.path.join(WT,'tests',os.path.basename(f)))
            return out
        base=run_demo()
        rc,o=sh('git apply %s' % diff, WT)
        if rc!=0:
            res['error']='diff does not apply: '+o[-200:]; results[key]=res; continue
        rc,o=sh('cargo test --offline 2>&1 | grep -E "^test result|FAILED|^error" | head -8', WT, 900)
        res['tests']=o.strip().replace('\n',' | ')
        m_ = re.search(r'(\d+) passed', o)
        # a change may bring unit tests of its own (47 passed): the 46 + 53 existing ones are all still there and pass
        res['tests_pass']= ('FAILED' not in o and 'error' not in o and m_ is not None and int(m_.group(1)) >= 46 and '53 passed' in o)
        mut=run_demo()
        res['demo_differs']= base!=mut
        res['base']={k_:v[-300:] for k_,v in base.items()}
        res['mut']={k_:v[-300:] for k_,v in mut.items()}
        sh('git checkout -q -- . && git clean -fdq', WT)
        results[key]=res
        print(key, 'tests_pass=%s demo_differs=%s' % (res['tests_pass'], res['demo_differs']), flush=True)
        json.dump(results, open('/tmp/confirm_results.json','w'), indent=1)
