#!/bin/sh
# scratch.sh <patch.diff> <dir>: copy /repo sources to <dir> and apply the patch (for debugging rules on a variant)
set -e
rm -rf "$2"; mkdir -p "$2"
for x in src Cargo.toml Cargo.lock README.md benches tests examples; do [ -e /repo/$x ] && cp -r /repo/$x "$2"/; done
patch -p1 -s -d "$2" -i "$1"
echo "$2"
