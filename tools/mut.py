#!/usr/bin/env python3
"""mut.py <props comma-separated> <file> <old> <new> [<file> <old> <new>...]
Developer helper: copies /repo (sources only) to a scratch dir outside /repo and /verif, applies
exact-once textual replacements, runs the given checks against the copy (statically) and removes it."""
import os, shutil, subprocess, sys, tempfile
HERE = os.path.dirname(os.path.dirname(os.path.abspath(__file__)))
props = sys.argv[1].split(',')
trip = sys.argv[2:]
d = tempfile.mkdtemp(prefix='nlmut.', dir='/tmp')
try:
    for x in ('src', 'Cargo.toml', 'Cargo.lock', 'README.md', 'benches', 'tests', 'examples'):
        s = os.path.join('/repo', x)
        if os.path.isdir(s):
            shutil.copytree(s, os.path.join(d, x))
        else:
            shutil.copy(s, os.path.join(d, x))
    for i in range(0, len(trip), 3):
        f, old, new = trip[i:i + 3]
        p = os.path.join(d, f)
        t = open(p).read()
        if t.count(old) != 1:
            print('mut: %r occurs %d times in %s' % (old, t.count(old), f)); sys.exit(3)
        open(p, 'w').write(t.replace(old, new))
    env = dict(os.environ, NL_REPO=d)
    r = subprocess.run([sys.executable, os.path.join(HERE, 'check.py')] + props, env=env, stdout=subprocess.PIPE, stderr=subprocess.STDOUT, text=True, timeout=int(os.environ.get('MUT_TIMEOUT', '400')))
    show_all = os.environ.get('MUT_VERBOSE')
    for line in r.stdout.split('\n'):
        if show_all or line.startswith(('VIOLATION', 'CHECKER-ERROR', '== ', '--- violation', '    at ', 'Traceback', 'KNOWN')) or 'Error' in line:
            print(line)
    print('exit', r.returncode)
finally:
    shutil.rmtree(d, ignore_errors=True)
