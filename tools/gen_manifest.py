#!/usr/bin/env python3
"""gen_manifest.py — refresh MANIFEST.json's level_claimed.text / level_note of every claimed check from the META of its rule module"""
import importlib, json, os, sys
HERE = os.path.dirname(os.path.dirname(os.path.abspath(__file__)))
sys.path.insert(0, HERE)
mp = os.path.join(HERE, 'MANIFEST.json')
m = json.load(open(mp))
PRE = 'static rule checking of the structural necessary conditions of the property, over all arms/sites/paths of the current tree: '
TRUST = ' Trusted: rustc MIR construction and trait resolution (nightly), syn parser, the small specification tables in the rule files.'
for c in m['checks']:
    mod = importlib.import_module('rules.' + c['property_id'].lower())
    c['level_claimed']['text'] = PRE + mod.META['explanation']
    c['level_note'] = 'decides only the structural clauses listed (necessary conditions), not the behaviour as a whole; not decided: ' + '; '.join(mod.META.get('not_decided', [])) + '.' + TRUST
json.dump(m, open(mp, 'w'), indent=1, ensure_ascii=False)
print('refreshed %d checks' % len(m['checks']))
