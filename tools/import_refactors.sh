#!/bin/sh
# import_refactors.sh <round> Cnn...: copy REFACTOR_k.diff / rmeta_k.json from /tmp/wt/Cnn into seeded/refactors/Cnn-r<round>-k
R="$1"; shift
for p in "$@"; do for k in 1 2 3; do f=/tmp/wt/$p/REFACTOR_$k.diff; [ -f $f ] || continue; d=/verif/seeded/refactors/$p-r$R-$k; mkdir -p $d; cp $f $d/patch.diff; [ -f /tmp/wt/$p/rmeta_$k.json ] && cp /tmp/wt/$p/rmeta_$k.json $d/meta.json; echo $d; done; done
