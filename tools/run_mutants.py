#!/usr/bin/env python3
"""run_mutants.py [filter...] — analyse every seeded property-breaking variant (seeded/Cnn-rK-k); each must be reported,
preferably by the check of the property it breaks"""
import os, subprocess, sys, glob, json, re
from concurrent.futures import ThreadPoolExecutor
HERE = os.path.dirname(os.path.dirname(os.path.abspath(__file__)))
flt = sys.argv[1:]
names = sorted(os.path.basename(os.path.dirname(p)) for p in glob.glob(os.path.join(HERE, 'seeded/C*/patch.diff')))
names = [n for n in names if not flt or any(f in n for f in flt)]

def one(n):
    try:
        r = subprocess.run([sys.executable, os.path.join(HERE, 'tools/run_seeded.py'), os.path.join(HERE, 'seeded', n, 'patch.diff')],
                           stdout=subprocess.PIPE, stderr=subprocess.STDOUT, text=True, timeout=1500)
        out = r.stdout
    except subprocess.TimeoutExpired:
        out = '  TIMEOUT'
    return n, out

missed = other = 0
res = {}
with ThreadPoolExecutor(max_workers=6) as ex:
    for n, out in ex.map(one, names):
        own = n.split('-')[0]
        props = re.findall(r'^  (C\d\d|ERROR): (\d+)', out, re.M)
        caught = [p for p, _ in props if p != 'ERROR']
        res[n] = caught
        if own in caught:
            print('own   %s  %s' % (n, ' '.join(caught)))
        elif caught:
            other += 1
            print('OTHER %s  %s' % (n, ' '.join(caught)))
        else:
            missed += 1
            print('MISS  %s\n%s' % (n, out.rstrip()))
print('%d mutants, %d caught only by another property, %d missed' % (len(names), other, missed))
json.dump(res, open(os.path.join(HERE, '.work', 'mutant_results.json'), 'w'), indent=1)
