#!/usr/bin/env python3
"""verify_variants.py <dir>... — each variant (patch.diff against /repo HEAD) must apply, compile and keep the 99 tests passing.
Uses its own worktree /tmp/verify_wt and target dir."""
import os, subprocess, sys
WT = '/tmp/verify_wt'
env = dict(os.environ, CARGO_TARGET_DIR='/tmp/verify_target', CARGO_NET_OFFLINE='true')
def sh(cmd, cwd, timeout=1200):
    r = subprocess.run(cmd, shell=True, cwd=cwd, env=env, stdout=subprocess.PIPE, stderr=subprocess.STDOUT, text=True, timeout=timeout)
    return r.returncode, r.stdout
sh('git -C /repo worktree remove --force %s' % WT, '/')
print(sh('git -C /repo worktree add -q --detach %s HEAD' % WT, '/')[1])
bad = 0
for d in sys.argv[1:]:
    sh('git checkout -q -- . && git clean -fdq', WT)
    rc, o = sh('patch -p1 -s -i %s/patch.diff' % os.path.abspath(d), WT)
    if rc != 0:
        print('APPLY-FAIL', d, o[-200:]); bad += 1; continue
    rc, o = sh('cargo test --offline 2>&1 | grep -E "^test result|FAILED|^error" | head -8', WT)
    ok = 'FAILED' not in o and 'error' not in o and '46 passed' in o and '53 passed' in o
    print('ok  ' if ok else 'BAD ', d, '' if ok else o.strip().replace('\n', ' | ')[:300], flush=True)
    bad += 0 if ok else 1
sh('git checkout -q -- . && git clean -fdq', WT)
print('%d bad' % bad)
