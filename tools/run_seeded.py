#!/usr/bin/env python3
"""run_seeded.py <patch.diff> [props...]  — analyse a scratch copy of /repo with the patch applied; print which checks fire"""
import os, shutil, subprocess, sys, tempfile
HERE = os.path.dirname(os.path.dirname(os.path.abspath(__file__)))
verbose = '-v' in sys.argv
sys.argv = [a for a in sys.argv if a != '-v']
patch = os.path.abspath(sys.argv[1])
props = sys.argv[2:] or ['all']
d = tempfile.mkdtemp(prefix='nlseed.', dir='/tmp')
try:
    for x in ('src', 'Cargo.toml', 'Cargo.lock', 'README.md', 'benches', 'tests', 'examples'):
        s = os.path.join('/repo', x)
        if os.path.isdir(s):
            shutil.copytree(s, os.path.join(d, x))
        else:
            shutil.copy(s, os.path.join(d, x))
    r = subprocess.run(['patch', '-p1', '-s', '-d', d, '-i', patch], stdout=subprocess.PIPE, stderr=subprocess.STDOUT, text=True)
    if r.returncode != 0:
        print('PATCH FAILED', r.stdout[-300:]); sys.exit(3)
    env = dict(os.environ, NL_REPO=d, NL_EVIDENCE_DIR=os.path.join(d, '_ev'), NL_REPLAY_DIR=os.path.join(d, '_rp'))
    r = subprocess.run([sys.executable, os.path.join(HERE, 'check.py')] + props, env=env, stdout=subprocess.PIPE, stderr=subprocess.STDOUT, text=True, timeout=1200)
    lines = r.stdout.split('\n')
    if verbose:
        print(r.stdout)
    hits = {}
    for i, l in enumerate(lines):
        if l.startswith('VIOLATION property='):
            pid = l.split('=')[1].split(' ')[0]
            ctx = [x for x in lines[max(0, i - 4):i] if x.startswith('    at ')]
            hits.setdefault(pid, []).append(ctx[-1].strip()[:170] if ctx else '?')
        if l.startswith('CHECKER-ERROR'):
            hits.setdefault('ERROR', []).append(l[:200])
    if not hits:
        print('  MISSED (no check fires)')
    for k, v in sorted(hits.items()):
        print('  %s: %d' % (k, len(v)))
        for x in v[:3]:
            print('      ' + x)
finally:
    shutil.rmtree(d, ignore_errors=True)
