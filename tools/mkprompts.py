#!/usr/bin/env python3
"""mkprompts.py <template> <outdir> [Cnn...] — fill @ID@ / @PROP@ (the property's JSON record, nothing else) per property"""
import json, os, sys
HERE = os.path.dirname(os.path.dirname(os.path.abspath(__file__)))
tpl = open(sys.argv[1]).read()
out = sys.argv[2]
os.makedirs(out, exist_ok=True)
only = sys.argv[3:]
for line in open(os.path.join(HERE, 'properties.jsonl')):
    p = json.loads(line)
    if only and p['id'] not in only:
        continue
    open(os.path.join(out, p['id'] + '.txt'), 'w').write(tpl.replace('@ID@', p['id']).replace('@PROP@', json.dumps(p, indent=1, ensure_ascii=False)))
    print(os.path.join(out, p['id'] + '.txt'))
