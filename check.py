#!/usr/bin/env python3
"""check.py <Cnn|all> --tier quick|thorough     decide the static clauses of one property
   check.py --replay <replay.json>            re-evaluate the rule instance named in a replay file

Exit 0: every rule instance holds (or is a listed known finding); exit 1: a VIOLATION line was
printed - also when a rule could not be evaluated on this tree (CHECKER-ERROR + VIOLATION: fail closed); exit 2: the tree
could not be analysed at all (it does not compile, the extractor is missing), never a pass.
Everything is decided from facts extracted from /repo's current working tree; no code of the
crate is executed."""
import importlib
import json
import os
import sys
import traceback

HERE = os.path.dirname(os.path.abspath(__file__))
sys.path.insert(0, HERE)
from framework import Context, Report, finish, prune_cache  # noqa: E402
from mirlib import CheckerError  # noqa: E402


def undecided(pid, tier, msg):
    """A rule that cannot follow the code of the current tree (an anchor is gone, a construct is outside the subset the shape
    analysis interprets, an instance count fell below its floor) has NOT established the property: the check fails closed.  The
    verdict is a VIOLATION whose text says that it is the absence of a proof, not a counterexample; only a tree that cannot be
    analysed at all (it does not compile, the extractor is missing) stays a plain checker error (exit 2)."""
    import hashlib
    import re
    from framework import REPL
    if any(x in msg for x in ('cargo check failed', 'driver not built', 'extraction', 'no lib facts', 'no bin facts', 'nlsyn')):
        return 2
    key = 'UNDECIDED|' + re.sub(r'(line |:)\d+', r'\1N', msg)[:300]
    os.makedirs(REPL, exist_ok=True)
    rp = os.path.join(REPL, '%s-%s.json' % (pid, hashlib.sha256(key.encode()).hexdigest()[:12]))
    json.dump({'property': pid, 'key': key, 'rule': 'UNDECIDED', 'rule_text': 'every rule of the property can be evaluated on the current tree',
               'fn': None, 'construct': 'the rules of %s' % pid, 'loc': None, 'detail': None, 'tier': tier,
               'text': 'not established: ' + msg + ' - the code is of a shape the rules do not cover, so nothing shows that the property still holds'},
              open(rp, 'w'), indent=1)
    print('--- violation: the property is not established on this tree (fail closed)')
    print('    %s' % msg)
    print('VIOLATION property=%s replay=%s' % (pid, rp))
    return 1


def run_one(pid, tier, ctx, replay_key=None):
    mod = importlib.import_module('rules.' + pid.lower())
    rep = Report(pid, tier)
    try:
        mod.run(ctx, rep)
        from rules import implied
        implied.fold(ctx, rep, pid)
        if tier == 'thorough' and not os.environ.get('NL_REPO'):
            from rules import thorough
            thorough.extra(ctx, rep, pid)
        code = finish(rep, ctx, mod.META)
    except CheckerError as e:
        print('CHECKER-ERROR property=%s %s' % (pid, e))
        return undecided(pid, tier, str(e))
    if replay_key is not None:
        hit = [o for o in rep.obs if o['key'] == replay_key]
        print('--- replay of %s' % replay_key)
        if not hit:
            print('    the rule instance no longer exists on the current tree')
        for o in hit:
            print('    %s: %s at %s — %s' % ('holds' if o['ok'] else 'VIOLATED', o['construct'], o['loc'], o['text']))
            if o['detail']:
                print('    ' + str(o['detail']).replace('\n', '\n    '))
    return code


def main():
    args = sys.argv[1:]
    tier = os.environ.get('VERIF_TIER', 'quick')
    if '--tier' in args:
        i = args.index('--tier')
        tier = args[i + 1]
        del args[i:i + 2]
    if '--replay' in args:
        i = args.index('--replay')
        r = json.load(open(args[i + 1]))
        ctx = Context()
        sys.exit(run_one(r['property'], r.get('tier', tier), ctx, r['key']))
    if not args:
        print(__doc__)
        sys.exit(2)
    try:
        ctx = Context()
    except Exception as e:
        print('CHECKER-ERROR %s' % e)
        sys.exit(2)
    pids = args
    if args == ['all']:
        pids = sorted(f[:-3].upper() for f in os.listdir(os.path.join(HERE, 'rules')) if len(f) == 6 and f.startswith('c') and f[1:3].isdigit() and f.endswith('.py'))
    worst = 0
    for pid in pids:
        try:
            code = run_one(pid, tier, ctx)
        except Exception as e:
            traceback.print_exc()
            print('CHECKER-ERROR property=%s internal error' % pid)
            code = undecided(pid, tier, 'internal error of a rule (%s: %s)' % (type(e).__name__, str(e)[:120]))
        worst = max(worst, code)
    prune_cache()
    sys.exit(worst)


if __name__ == '__main__':
    main()
