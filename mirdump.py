#!/usr/bin/env python3
"""debug helper: print the MIR facts of one function in readable form"""
import sys, json
from mirlib import *

def opstr(f, op):
    if op is None: return '?'
    if op['k'] == 'const':
        if 'variant' in op: return 'const %s::%s' % (op['ty'].split('::')[-1], op['variant'])
        if 'str' in op: return 'const %r' % op['str']
        if 'fn' in op: return 'fn %s' % op['fn']
        if 'int' in op: return 'const %s_%s' % (op['int'], op['ty'])
        return 'const ' + op['text']
    if op['k'] in ('copy','move'): return op['k'] + ' ' + place_str(f, op['place'])
    return op.get('text','?')

def rvstr(f, rv):
    k = rv['k']
    if k == 'use': return opstr(f, rv['op'])
    if k == 'ref': return '&%s%s' % ('mut ' if rv['mut'] else '', place_str(f, rv['place']))
    if k == 'rawptr': return '&raw %s%s' % ('mut ' if rv['mut'] else 'const ', place_str(f, rv['place']))
    if k == 'cast': return '%s as %s (%s from %s)' % (opstr(f, rv['op']), rv['to'], rv['ck'], rv['from'])
    if k == 'binop': return '%s(%s, %s) [%s]' % (rv['op'], opstr(f, rv['l']), opstr(f, rv['r']), rv['lty'])
    if k == 'unop': return '%s(%s) [%s]' % (rv['op'], opstr(f, rv['x']), rv['xty'])
    if k == 'discr': return 'discriminant(%s) of %s' % (place_str(f, rv['place']), rv['enum'])
    if k == 'aggregate':
        if 'adt' in rv: return '%s::%s{%s}' % (rv['adt'], rv['variant'], ', '.join(opstr(f,o) for o in rv['ops']))
        if 'closure' in rv: return 'closure %s(%s)' % (rv['closure'], ', '.join(opstr(f,o) for o in rv['ops']))
        return '%s(%s)' % (rv.get('agg'), ', '.join(opstr(f,o) for o in rv['ops']))
    return rv.get('text', k)

def dump(f):
    print('fn', f.path, f.loc(), 'args=%d' % f.arg_count)
    for l in f.locals:
        print('   let _%d: %s%s' % (l['i'], l['ty'], ('  // '+l['name']) if l.get('name') else ''))
    for bl in f.blocks:
        print(' bb%d%s:' % (bl['i'], ' (cleanup)' if bl['cleanup'] else ''))
        for st in bl['stmts']:
            if st['k'] == 'assign':
                print('    %s = %s   // L%d%s' % (place_str(f, st['place']), rvstr(f, st['rv']), st['span']['line'], ' exp:'+','.join(st['span'].get('macros',[])) if st['span']['exp'] else ''))
            elif st['k'] in ('live','dead'):
                pass
            else:
                print('    ', st)
        t = bl['term']
        k = t['k']
        if k == 'call':
            c = t['callee']
            print('    %s = CALL %s(%s) -> bb%s unwind %s  // L%d %s' % (place_str(f, t['dest']), callee_name(t), ', '.join(opstr(f,a) for a in t['args']), t['target'], t['unwind'], t['span']['line'], ','.join(t['span'].get('macros',[]))))
        elif k == 'switch':
            print('    SWITCH %s [%s] %s otherwise bb%d' % (opstr(f, t['op']), t['ty'], ' '.join('%d->bb%d' % (a,b) for a,b in t['targets']), t['otherwise']))
        elif k == 'assert':
            print('    ASSERT %s == %s (%s) -> bb%d  // L%d' % (opstr(f, t['cond']), t['expected'], t['msg'], t['target'], t['span']['line']))
        elif k == 'drop':
            print('    DROP %s -> bb%d' % (place_str(f, t['place']), t['target']))
        elif k == 'goto':
            print('    goto bb%d' % t['target'])
        else:
            print('    ' + k.upper())

if __name__ == '__main__':
    d = sys.argv[1]
    F = Facts(d + '/nederlang-lib.json', d + '/nederlang-bin.json')
    if len(sys.argv) == 2:
        for k in sorted(F.fns): print(k, len(F.fns[k].blocks))
    else:
        for k in sys.argv[2:]:
            dump(F.fns[k])
