"""framework — context (fact extraction + caching), reports, known findings, evidence."""
import fcntl
import hashlib
import json
import os
import subprocess
import sys
import time

from mirlib import Facts, CheckerError

HERE = os.path.dirname(os.path.abspath(__file__))
REPO = os.environ.get('NL_REPO', '/repo')
WORK = os.path.join(HERE, '.work')
EVID = os.environ.get('NL_EVIDENCE_DIR') or os.path.join(HERE, 'evidence')
REPL = os.environ.get('NL_REPLAY_DIR') or os.path.join(HERE, 'replays')


def repo_hash(repo=REPO):
    h = hashlib.sha256()
    files = []
    for root, dirs, fs in os.walk(os.path.join(repo, 'src')):
        dirs.sort()
        for f in sorted(fs):
            files.append(os.path.join(root, f))
    for f in ('Cargo.toml', 'Cargo.lock', 'README.md'):
        files.append(os.path.join(repo, f))
    for f in files:
        h.update(f.encode())
        try:
            h.update(open(f, 'rb').read())
        except OSError:
            h.update(b'<missing>')
    # the extractor itself is part of the key
    for f in ('tools/nlfacts/src/main.rs', 'tools/nlsyn/src/main.rs', 'extract.sh'):
        h.update(open(os.path.join(HERE, f), 'rb').read())
    return h.hexdigest()[:20]


class Context:
    """Facts about /repo's *current working tree*.  Extraction is cached under
    .work/cache/<hash of the sources>/ so that the checks of one pass share it; an edited tree
    has a different hash and is always re-extracted."""

    def __init__(self, repo=REPO):
        self.repo = repo
        self.hash = repo_hash(repo)
        self.dir = os.path.join(WORK, 'cache', self.hash)
        self._facts = {}
        self._syn = None
        self.extracted = []

    def _locked(self, name, produce, check):
        os.makedirs(self.dir, exist_ok=True)
        try:
            os.utime(self.dir, None)          # in use now: prune_cache leaves recently used directories alone
        except OSError:
            pass
        lockf = open(os.path.join(self.dir, name + '.lock'), 'w')
        fcntl.flock(lockf, fcntl.LOCK_EX)
        try:
            if not check():
                produce()
                if not check():
                    raise CheckerError('extraction %s produced no output' % name)
        finally:
            fcntl.flock(lockf, fcntl.LOCK_UN)
            lockf.close()

    def facts(self, config='default'):
        if config in self._facts:
            return self._facts[config]
        out = os.path.join(self.dir, config)
        lib = os.path.join(out, 'nederlang-lib.json')
        binp = os.path.join(out, 'nederlang-bin.json')
        done = os.path.join(out, 'DONE')

        def produce():
            tmp = out + '.tmp%d' % os.getpid()
            r = subprocess.run([os.path.join(HERE, 'extract.sh'), self.repo, tmp, config],
                               stdout=subprocess.PIPE, stderr=subprocess.STDOUT, text=True)
            if r.returncode != 0:
                import shutil
                shutil.rmtree(tmp, ignore_errors=True)
                raise CheckerError('fact extraction failed (config %s):\n%s' % (config, r.stdout[-3000:]))
            if os.path.isdir(out):
                import shutil
                shutil.rmtree(out)
            os.rename(tmp, out)
            open(done, 'w').write(self.hash)

        self._locked('facts-' + config, produce, lambda: os.path.exists(done) and os.path.exists(lib))
        f = Facts(lib, binp)
        f.config = config
        self._facts[config] = f
        self.extracted.append('nederlang lib+bin [%s]' % config)
        return f

    def syn(self):
        if self._syn is not None:
            return self._syn
        out = os.path.join(self.dir, 'syn.json')

        def produce():
            tool = os.path.join(HERE, 'tools/nlsyn/target/debug/nlsyn')
            if not os.path.exists(tool):
                raise CheckerError('nlsyn not built (run setup)')
            files = []
            for root, dirs, fs in os.walk(os.path.join(self.repo, 'src')):
                dirs.sort()
                for f in sorted(fs):
                    if f.endswith('.rs'):
                        files.append(os.path.join(root, f))
            r = subprocess.run([tool] + files, stdout=subprocess.PIPE, stderr=subprocess.PIPE, text=True)
            if r.returncode != 0:
                raise CheckerError('nlsyn failed: ' + r.stderr[-2000:])
            tmp = out + '.tmp%d' % os.getpid()
            open(tmp, 'w').write(r.stdout)
            os.rename(tmp, out)

        self._locked('syn', produce, lambda: os.path.exists(out) and os.path.getsize(out) > 0)
        from synlib import Syn
        sj = json.load(open(out))
        # functions that were only renamed keep their pinned name in the syntax trees too (see mirlib.detect_renames)
        ren = {}
        F = self.facts()
        pinned_simple = set()
        from mirlib import load_pinned
        pj = load_pinned() or {}
        for crate in pj:
            pinned_simple.update(p_.split('::')[-1] for p_ in pj[crate])
        for (crate, newp), oldp in getattr(F, 'renames', {}).items():
            ns, os_ = newp.split('::')[-1], oldp.split('::')[-1]
            if ns not in pinned_simple:
                ren[ns] = os_
        if ren:
            def walk(x):
                if isinstance(x, list):
                    for y in x:
                        walk(y)
                elif isinstance(x, dict):
                    if x.get('k') == 'fn' and x.get('name') in ren:
                        x['name'] = ren[x['name']]
                    elif x.get('k') == 'mcall' and x.get('method') in ren:
                        x['method'] = ren[x['method']]
                    elif x.get('k') == 'path' and isinstance(x.get('path'), list) and x['path'] and x['path'][-1] in ren:
                        if 'text' in x and isinstance(x['text'], str):
                            x['text'] = x['text'].replace(x['path'][-1], ren[x['path'][-1]])
                        x['path'][-1] = ren[x['path'][-1]]
                    for y in x.values():
                        walk(y)
            walk(sj)
        self._syn = Syn(sj, self.repo)
        self.syn_renames = ren
        return self._syn

    def readme(self):
        return open(os.path.join(self.repo, 'README.md'), encoding='utf-8').read()


def prune_cache(keep=8):
    """keep the cache small (disk is limited)"""
    base = os.path.join(WORK, 'cache')
    if not os.path.isdir(base):
        return
    ds = sorted((os.path.getmtime(os.path.join(base, d)), d) for d in os.listdir(base))
    import shutil
    now = time.time()
    for mt, d in ds[:-keep]:
        # never under another check that is running at the same time (checks may be started in parallel): a directory that was
        # written or used in the last ten minutes may be in use
        if now - mt < 600:
            continue
        shutil.rmtree(os.path.join(base, d), ignore_errors=True)


# ----------------------------------------------------------------------------------------
class Report:
    def __init__(self, pid, tier):
        self.pid = pid
        self.tier = tier
        self.obs = []          # obligations
        self.counts = {}
        self.samples = []
        self.notes = []
        self.rules = {}
        self.tables = {}
        self.t0 = time.time()
        self.fn_seen = set()
        self.call_sites = 0
        self.paths = 0

    def rule(self, rid, text):
        self.rules[rid] = text

    def ob(self, ok, rule, fn, construct, text, loc=None, detail=None, nontrivial=True, key=None):
        # `key` (optional): the part of the construct that identifies the finding when the full construct text (printed for
        # diagnosis) contains details a behaviour-preserving edit may change
        key = '%s|%s|%s' % (rule, fn, key if key is not None else construct)
        self.obs.append({'ok': bool(ok), 'rule': rule, 'key': key, 'fn': fn, 'construct': construct,
                         'text': text, 'loc': loc, 'detail': detail, 'nontrivial': nontrivial})
        if fn:
            self.fn_seen.add(fn)
        return bool(ok)

    def good(self, rule, fn, construct, text, loc=None, nontrivial=True):
        return self.ob(True, rule, fn, construct, text, loc, None, nontrivial)

    def bad(self, rule, fn, construct, text, loc=None, detail=None, key=None):
        return self.ob(False, rule, fn, construct, text, loc, detail, key=key)

    def count(self, name, n):
        self.counts[name] = self.counts.get(name, 0) + n

    def sample(self, x):
        if len(self.samples) < 12:
            self.samples.append(x)

    def table(self, name, t):
        self.tables[name] = t

    def note(self, t):
        self.notes.append(t)

    def violations(self):
        seen = {}
        for o in self.obs:
            if not o['ok'] and o['key'] not in seen:
                seen[o['key']] = o
        return list(seen.values())


def load_known():
    p = os.path.join(HERE, 'known_findings.json')
    if not os.path.exists(p):
        return {'findings': [], 'fixed': []}
    return json.load(open(p))


def load_floors():
    p = os.path.join(HERE, 'floors.json')
    if not os.path.exists(p):
        return {}
    return json.load(open(p))


def finish(rep, ctx, meta, replay_key=None):
    """prints the report, writes evidence + replays, returns exit code"""
    pid = rep.pid
    floors = load_floors().get(pid, {})
    known = load_known()
    kmap = {f['key']: f for f in known.get('findings', []) if f['property'] == pid}
    viols = rep.violations()
    new = [v for v in viols if v['key'] not in kmap]
    for name, floor in floors.items():
        n = rep.counts.get(name)
        if n is None or n < floor:
            msg = ('instance count %s=%s fell below the floor %s counted on the pinned tree '
                   '(a rule that matches nothing passes vacuously)' % (name, n, floor))
            if not new:
                raise CheckerError(msg)
            # the rule whose instances vanished reports that itself below: a violation, not a checker failure
            rep.note(msg)
    old = [v for v in viols if v['key'] in kmap]
    stale = [k for k in kmap if k not in {v['key'] for v in viols}]

    print('== %s [%s] — %s' % (pid, rep.tier, meta.get('title', '')))
    print('analysed: %s; hash %s' % ('; '.join(ctx.extracted + (['syntax trees of src/*.rs'] if ctx._syn else [])), ctx.hash))
    for rid, text in rep.rules.items():
        n = sum(1 for o in rep.obs if o['rule'] == rid)
        nb = sum(1 for o in rep.obs if o['rule'] == rid and not o['ok'])
        print('  rule %-8s %4d instances, %d failing — %s' % (rid, n, nb, text))
    print('  counts: ' + ', '.join('%s=%s' % kv for kv in sorted(rep.counts.items())))
    for n in rep.notes:
        print('  note: ' + n)
    os.makedirs(REPL, exist_ok=True)
    for old_ in os.listdir(REPL):
        if old_.startswith(pid + '-'):
            try:
                os.remove(os.path.join(REPL, old_))
            except OSError:
                pass
    for v in old:
        print('KNOWN-FINDING: property=%s %s [%s]' % (pid, kmap[v['key']]['what_fails'], v['key']))
    for k in stale:
        print('  note: stale known finding (no longer fires): %s' % k)
    code = 0
    for v in new:
        hid = hashlib.sha256(v['key'].encode()).hexdigest()[:12]
        rp = os.path.join(REPL, '%s-%s.json' % (pid, hid))
        json.dump({'property': pid, 'key': v['key'], 'rule': v['rule'], 'rule_text': rep.rules.get(v['rule']),
                   'fn': v['fn'], 'construct': v['construct'], 'text': v['text'], 'loc': v['loc'],
                   'detail': v['detail'], 'tier': rep.tier}, open(rp, 'w'), indent=1)
        print('--- violation: rule %s (%s)' % (v['rule'], rep.rules.get(v['rule'], '')))
        print('    at %s in %s: %s' % (v['loc'], v['fn'], v['construct']))
        print('    %s' % v['text'])
        if v['detail']:
            for line in str(v['detail']).split('\n')[:30]:
                print('      | ' + line)
        print('VIOLATION property=%s replay=%s' % (pid, rp))
        code = 1

    nontriv = len({o['key'] for o in rep.obs if o['nontrivial']})
    ev = {
        'property_id': pid,
        'tier': rep.tier,
        'seed': int(os.environ.get('VERIF_SEED', '0') or 0),
        'level': 'other',
        'coverage': {
            'explanation': meta.get('explanation', ''),
            'rules': [{'id': k, 'text': t,
                       'instances': sum(1 for o in rep.obs if o['rule'] == k),
                       'failing': sum(1 for o in rep.obs if o['rule'] == k and not o['ok'])}
                      for k, t in rep.rules.items()],
            'obligations': len(rep.obs),
            'discharged': sum(1 for o in rep.obs if o['ok']) + len(old),
            'evaluations': len(rep.obs),
            'distinct_nontrivial': nontriv,
            'rule': 'one evaluation = one rule instance (an arm, call site, CFG path class, table cell or field) '
                    'examined in the facts extracted from the current tree; distinct = distinct key '
                    '(rule|function|construct); non-trivial = involves at least one emit/call/branch/table cell',
            'samples': rep.samples or [{'key': o['key'], 'text': o['text']} for o in rep.obs[:6]],
            'instance_counts': rep.counts,
            'functions_analysed': len(rep.fn_seen),
            'configs': ctx.extracted,
            'tables': rep.tables,
            'exhaustive': bool(meta.get('exhaustive', False)),
            'checker_cmd': 'python3 check.py %s --tier %s' % (pid, rep.tier),
            'trusted_base': meta.get('trusted_base', [
                "rustc's MIR construction and trait resolution (nightly 1.97)", "syn 2's parser",
                'the specification tables in the rule files (operators, keywords, builtins)']),
            'known_findings_matched': [v['key'] for v in old],
            'new_violations': [v['key'] for v in new],
        },
        'assumptions': meta.get('not_decided', []),
        'wall_s': round(time.time() - rep.t0, 3),
        'violations': len(new),
    }
    os.makedirs(EVID, exist_ok=True)
    tmp = os.path.join(EVID, '%s.json.tmp%d' % (pid, os.getpid()))
    json.dump(ev, open(tmp, 'w'), indent=1, sort_keys=True)
    os.rename(tmp, os.path.join(EVID, '%s.json' % pid))
    print('== %s: %d obligations, %d hold, %d known findings, %d new violations (%.1fs)' % (
        pid, len(rep.obs), sum(1 for o in rep.obs if o['ok']), len(old), len(new), time.time() - rep.t0))
    return code
