#!/bin/bash
# usage: extract.sh <repo dir> <out dir> <config: default|release|debugfeat>
# Runs the nlfacts driver over lib+bin of the nederlang crate at <repo dir>, writes <out dir>/*.json
set -euo pipefail
REPO="$1"; OUT="$2"; CFG="${3:-default}"
HERE="$(cd "$(dirname "$0")" && pwd)"
DRV="$HERE/tools/nlfacts/target/debug/nlfacts"
[ -x "$DRV" ] || { echo "CHECKER-ERROR nlfacts driver not built (run setup)"; exit 2; }
SYSROOT="$(rustc +nightly --print sysroot)"
TD="$(mktemp -d "$HERE/.work/td.XXXXXX")"
trap 'rm -rf "$TD"' EXIT
rm -rf "$OUT"; mkdir -p "$OUT"
FLAGS="-Zmir-opt-level=0 -Awarnings"
FEAT=""
case "$CFG" in
  default) ;;
  release) FLAGS="$FLAGS -C debug-assertions=off -C overflow-checks=off" ;;
  debugfeat) FEAT="--features debug" ;;
esac
CARGO_NET_OFFLINE=true LD_LIBRARY_PATH="$SYSROOT/lib" RUSTFLAGS="$FLAGS" \
  RUSTC_WORKSPACE_WRAPPER="$DRV" NLFACTS_OUT="$OUT" NLFACTS_CRATES=nederlang \
  CARGO_TARGET_DIR="$TD" \
  cargo +nightly check --offline --quiet --lib --bins $FEAT --manifest-path "$REPO/Cargo.toml" >"$OUT/cargo.log" 2>&1 || { cat "$OUT/cargo.log"; echo "CHECKER-ERROR cargo check failed"; exit 2; }
[ -s "$OUT/nederlang-lib.json" ] || { echo "CHECKER-ERROR no lib facts written"; exit 2; }
[ -s "$OUT/nederlang-bin.json" ] || { echo "CHECKER-ERROR no bin facts written"; exit 2; }
