"""mirlib — loading the nlfacts JSON and generic CFG / dataflow helpers used by the rules.

Everything here works on the *facts* (MIR of /repo's current tree as dumped by the nlfacts
driver); nothing executes code of the crate.
"""
import copy
import json
import os
import re
from collections import defaultdict, deque


class CheckerError(Exception):
    """The checker itself cannot give a verdict (missing anchor, unknown construct)."""


# ----------------------------------------------------------------------------------------
# operands / places
# ----------------------------------------------------------------------------------------
def op_place(op):
    return op.get('place') if op and op.get('k') in ('copy', 'move') else None


def op_local(op):
    """local index when the operand is a bare local (no projection)"""
    p = op_place(op)
    if p is not None and not p['proj']:
        return p['local']
    return None


def op_base_local(op):
    p = op_place(op)
    return p['local'] if p is not None else None


def op_const(op):
    return op if op and op.get('k') == 'const' else None


def place_fields(p):
    """names of field projections of a place, in order"""
    return [e['name'] for e in p['proj'] if isinstance(e, dict) and 'field' in e]


def place_str(fn, p):
    """readable rendering of a place with debug names"""
    base = fn.local_name(p['local'])
    out = base
    for e in p['proj']:
        if e == 'deref':
            out = '(*%s)' % out
        elif isinstance(e, dict) and 'field' in e:
            out = '%s.%s' % (out, e['name'])
        elif isinstance(e, dict) and 'index' in e:
            out = '%s[%s]' % (out, fn.local_name(e['index']))
        elif isinstance(e, dict) and 'downcast' in e:
            out = '(%s as %s)' % (out, e['downcast'])
        else:
            out = '%s.<%s>' % (out, e)
    return out


# ----------------------------------------------------------------------------------------
class Fn:
    def __init__(self, j, crate):
        self.j = j
        self.crate = crate
        self.path = j['path']
        self.blocks = j['blocks']
        self.locals = j['locals']
        self.arg_count = j['arg_count']
        self.span = j['span']
        self.kind = j['def_kind']
        self._succ = None
        self._pred = None
        self._dom = None
        self._pdom = None
        self._defs = None

    # -- naming ---------------------------------------------------------------------
    def local_name(self, i):
        n = self.locals[i].get('name')
        return n if n else '_%d' % i

    def local_ty(self, i):
        return self.locals[i]['ty']

    def loc(self):
        return '%s:%d' % (short_file(self.span['file']), self.span['line'])

    # -- CFG --------------------------------------------------------------------------
    def term(self, b):
        return self.blocks[b]['term']

    def succs_of_term(self, t, unwind=False):
        k = t['k']
        out = []
        if k == 'goto':
            out = [t['target']]
        elif k == 'switch':
            out = [x[1] for x in t['targets']] + [t['otherwise']]
        elif k in ('call', 'drop', 'assert'):
            if t.get('target') is not None:
                out = [t['target']]
            if unwind and t.get('unwind') is not None:
                out.append(t['unwind'])
        return out

    def succ(self, b, unwind=False):
        if unwind:
            return self.succs_of_term(self.term(b), True)
        if self._succ is None:
            self._succ = [self.succs_of_term(bl['term']) for bl in self.blocks]
        return self._succ[b]

    def pred(self, b):
        if self._pred is None:
            self._pred = [[] for _ in self.blocks]
            for i in range(len(self.blocks)):
                for s in self.succ(i):
                    self._pred[s].append(i)
        return self._pred[b]

    def reachable(self, start=0, stop=(), unwind=False):
        """blocks reachable from start without entering blocks in `stop`"""
        seen = set()
        st = [start]
        while st:
            b = st.pop()
            if b in seen or b in stop:
                continue
            seen.add(b)
            st.extend(self.succ(b, unwind) if unwind else self.succ(b))
        return seen

    def normal_blocks(self):
        return self.reachable(0)

    def dominators(self):
        """dict block -> set of dominators (normal edges only, from block 0)"""
        if self._dom is not None:
            return self._dom
        nodes = sorted(self.normal_blocks())
        allset = set(nodes)
        dom = {n: set(allset) for n in nodes}
        dom[0] = {0}
        changed = True
        order = self.rpo()
        while changed:
            changed = False
            for n in order:
                if n == 0:
                    continue
                ps = [p for p in self.pred(n) if p in dom]
                if not ps:
                    continue
                new = set.intersection(*[dom[p] for p in ps]) | {n}
                if new != dom[n]:
                    dom[n] = new
                    changed = True
        self._dom = dom
        return dom

    def rpo(self):
        seen = set()
        out = []

        def dfs(b):
            stack = [(b, iter(self.succ(b)))]
            seen.add(b)
            while stack:
                node, it = stack[-1]
                adv = False
                for s in it:
                    if s not in seen:
                        seen.add(s)
                        stack.append((s, iter(self.succ(s))))
                        adv = True
                        break
                if not adv:
                    out.append(node)
                    stack.pop()
        dfs(0)
        out.reverse()
        return out

    def dominates(self, a, b):
        d = self.dominators()
        return b in d and a in d[b]

    def back_edges(self):
        d = self.dominators()
        res = []
        for b in d:
            for s in self.succ(b):
                if s in d[b]:
                    res.append((b, s))
        return res

    def natural_loops(self):
        """list of (header, set(body blocks)) merged per header"""
        loops = {}
        for (tail, head) in self.back_edges():
            body = {head, tail}
            st = [tail]
            while st:
                n = st.pop()
                if n == head:
                    continue
                for p in self.pred(n):
                    if p not in body:
                        body.add(p)
                        st.append(p)
            loops.setdefault(head, set()).update(body)
        return sorted(loops.items())

    # -- iteration ----------------------------------------------------------------------
    def calls(self, blocks=None):
        for i, bl in enumerate(self.blocks):
            if blocks is not None and i not in blocks:
                continue
            t = bl['term']
            if t['k'] == 'call':
                yield i, t

    def own_calls(self):
        """call terminators written in this function's own source (not spliced in from a new helper)"""
        return [(b, t) for b, t in self.calls() if not self.blocks[b].get('inl')]

    def stmts(self, blocks=None):
        for i, bl in enumerate(self.blocks):
            if blocks is not None and i not in blocks:
                continue
            for si, st in enumerate(bl['stmts']):
                yield i, si, st

    # -- simple def map -----------------------------------------------------------------
    def defs(self):
        """local -> list of ('assign', block, stmt_idx, rv) | ('call', block, term)"""
        if self._defs is not None:
            return self._defs
        d = defaultdict(list)
        for b, si, st in self.stmts():
            if st['k'] == 'assign' and not st['place']['proj']:
                d[st['place']['local']].append(('assign', b, si, st['rv']))
        for b, t in self.calls():
            if not t['dest']['proj']:
                d[t['dest']['local']].append(('call', b, t))
        self._defs = d
        return d

    def alias_root(self, l, depth=0):
        """the parameter a local is a plain copy / reborrow of (`_9 = &mut (*_1)`, `_17 = move _9`), else None.  The
        parameters of a helper that was spliced in are such aliases of the caller's values."""
        if 1 <= l <= self.arg_count:
            return l
        if depth > 12:
            return None
        ds = self.defs().get(l, [])
        if len(ds) != 1 or ds[0][0] != 'assign':
            return None
        rv = ds[0][3]
        pl = None
        if rv['k'] == 'use' and rv['op'].get('k') in ('copy', 'move'):
            pl = rv['op']['place']
        elif rv['k'] in ('ref', 'rawptr'):
            pl = rv['place']
        elif rv['k'] == 'cast' and rv['op'].get('k') in ('copy', 'move'):
            pl = rv['op']['place']
        if pl is None or any(e != 'deref' for e in pl['proj']):
            return None
        return self.alias_root(pl['local'], depth + 1)

    def single_def(self, local):
        ds = self.defs().get(local, [])
        return ds[0] if len(ds) == 1 else None

    def resolve_copy(self, op, depth=12):
        """follow `_a = move _b` / `_a = copy _b` chains of single-definition temporaries;
        returns the final operand (const or place operand)"""
        cur = op
        for _ in range(depth):
            l = op_local(cur)
            if l is None:
                return cur
            if l <= self.arg_count and l != 0:
                return cur
            d = self.single_def(l)
            if d is None or d[0] != 'assign':
                return cur
            rv = d[3]
            if rv['k'] == 'use':
                cur = rv['op']
                continue
            return cur
        return cur

    def def_rvalue(self, op, depth=12):
        """the rvalue (or call terminator) that defines the operand's local, through copies"""
        cur = self.resolve_copy(op, depth)
        l = op_local(cur)
        if l is None:
            return None
        d = self.single_def(l)
        return d


def callee_name(t):
    """best name of the function a call terminator will run"""
    c = t['callee']
    return c.get('resolved') or c.get('path')


def callee_paths(t):
    c = t['callee']
    return {c.get('path'), c.get('resolved')} - {None}


def short_file(f):
    if f.startswith('/'):
        for marker in ('/src/',):
            k = f.find(marker)
            if k >= 0 and '/rustlib/' not in f and '/.cargo/' not in f:
                return f[k + 1:]
    return f


def span_loc(sp):
    return '%s:%d' % (short_file(sp['file']), sp['line'])


# ----------------------------------------------------------------------------------------
# MIR inlining of *new helper functions*.
#
# The rules anchor on the functions of the pinned tree (pinned_fns.json).  A later change may move part of an
# anchored body into a fresh private helper (`resolve_index`, `call_base`, `pop_args` ...).  Such a helper is not
# a role any rule knows, so it is made transparent: its body is spliced into every caller (locals, blocks and
# promoted constants renumbered), which preserves the semantics of the MIR exactly and lets every per-function
# analysis (dominators, def chains, AbsInt, the panic census) see the code where it is used, with the caller's
# facts about the arguments.  On the pinned tree no function is new, so this is the identity there.
# ----------------------------------------------------------------------------------------
_LOCAL_IN_TEXT = re.compile(r'(?<![A-Za-z0-9_])_(\d+)\b')


def _remap(x, loff, boff, poff):
    if isinstance(x, list):
        return [_remap(y, loff, boff, poff) for y in x]
    if not isinstance(x, dict):
        return x
    out = {}
    for k, v in x.items():
        if k in ('local', 'index') and isinstance(v, int) and not isinstance(v, bool):
            out[k] = v + loff
        elif k in ('target', 'unwind', 'otherwise') and isinstance(v, int) and not isinstance(v, bool):
            out[k] = v + boff
        elif k == 'targets':
            out[k] = [[a, b + boff] for a, b in v]
        elif k == 'promoted' and isinstance(v, int) and not isinstance(v, bool):
            out[k] = v + poff
        elif k in ('text', 'msg_full') and isinstance(v, str):
            out[k] = _LOCAL_IN_TEXT.sub(lambda m: '_%d' % (int(m.group(1)) + loff), v)
        else:
            out[k] = _remap(v, loff, boff, poff)
    return out


_GENERIC_PARAM = re.compile(r'\b([A-Za-z_][A-Za-z_0-9]*)/#(\d+)\b')


def _split_generic_args(s):
    s = (s or '').strip()
    if s.startswith('[') and s.endswith(']'):
        s = s[1:-1]
    out, depth, cur = [], 0, ''
    for ch in s:
        if ch in '<([':
            depth += 1
        elif ch in '>)]':
            depth -= 1
        if ch == ',' and depth == 0:
            out.append(cur.strip())
            cur = ''
        else:
            cur += ch
    if cur.strip():
        out.append(cur.strip())
    return out


def _subst_generics(x, args):
    """instantiate the type parameters (`T/#0`) of a spliced-in generic helper with the call site's arguments"""
    if isinstance(x, list):
        return [_subst_generics(y, args) for y in x]
    if isinstance(x, dict):
        return {k: _subst_generics(v, args) for k, v in x.items()}
    if isinstance(x, str) and '/#' in x:
        return _GENERIC_PARAM.sub(lambda m: args[int(m.group(2))] if int(m.group(2)) < len(args) else m.group(0), x)
    return x


def inline_new_helpers(fns_by_path, pinned, max_inlines=60, max_callee_blocks=400):
    """fns_by_path: {path: fn json} of one crate.  Splices every call to a function that is not in `pinned`
    (and is a plain fn / method with a body in the same crate) into its caller.  Returns {caller: [helpers]}."""
    new = {p for p, j in fns_by_path.items() if p not in pinned and j.get('def_kind') in ('Fn', 'AssocFn')
           and len(j['blocks']) <= max_callee_blocks}
    done = {}
    if not new:
        return done
    originals = {p: copy.deepcopy(fns_by_path[p]) for p in new}
    for path, j in fns_by_path.items():
        n = 0
        bi = 0
        while bi < len(j['blocks']) and n < max_inlines:
            bl = j['blocks'][bi]
            t = bl['term']
            bi += 1
            if t['k'] != 'call':
                continue
            c = t['callee']
            cp = c.get('resolved') if c.get('resolved_local') else (c.get('path') if c.get('local') else None)
            if cp not in new or cp == path or cp in bl.get('inl', ()):
                continue
            cj = originals[cp]
            if len(t['args']) != cj['arg_count']:
                continue
            loff, boff, poff = len(j['locals']), len(j['blocks']), len(j.get('promoted') or [])
            stack = tuple(bl.get('inl', ())) + (cp,)
            for l in cj['locals']:
                l2 = dict(l)
                l2['i'] = l['i'] + loff
                if '/#' in l2.get('ty', ''):
                    l2['ty'] = _subst_generics(l2['ty'], _split_generic_args(c.get('generic_args')))
                l2['inl'] = cp
                j['locals'].append(l2)
            for pr in cj.get('promoted') or []:
                pr2 = copy.deepcopy(pr)
                pr2['i'] = pr['i'] + poff
                j.setdefault('promoted', []).append(pr2)
            gargs = _split_generic_args(c.get('generic_args'))
            for cb in cj['blocks']:
                nb = _remap(cb, loff, boff, poff)
                if gargs:
                    nb = _subst_generics(nb, gargs)
                nb['i'] = cb['i'] + boff
                nb['inl'] = stack
                # where a panic that leaves the spliced body goes on unwinding: the call's own landing pad, or - for a call made from
                # code that was itself spliced in and had nothing of its own to clean up - the landing pad of the enclosing call
                unw = t.get('unwind') if isinstance(t.get('unwind'), int) else bl.get('unw')
                if isinstance(unw, int):
                    nb['unw'] = unw
                tt = nb['term']
                if tt['k'] == 'return':
                    nb['stmts'].append({'k': 'assign', 'place': t['dest'],
                                        'rv': {'k': 'use', 'op': {'k': 'move', 'place': {'local': loff, 'proj': [], 'ty': cj['locals'][0]['ty'], 'text': '_%d' % loff}}},
                                        'span': t['span'], 'inl_ret': cp})
                    if t.get('target') is not None:
                        nb['term'] = {'k': 'goto', 'target': t['target']}
                    else:
                        nb['term'] = {'k': 'unreachable'}
                elif tt['k'] == 'resume' and isinstance(unw, int):
                    nb['term'] = {'k': 'goto', 'target': unw}
                j['blocks'].append(nb)
            for i, a in enumerate(t['args']):
                lt = cj['locals'][i + 1]['ty']
                bl['stmts'].append({'k': 'assign', 'place': {'local': loff + i + 1, 'proj': [], 'ty': lt, 'text': '_%d' % (loff + i + 1)},
                                    'rv': {'k': 'use', 'op': a}, 'span': t['span'], 'inl_arg': cp})
            bl['term'] = {'k': 'goto', 'target': boff, 'inl_call': cp, 'span': t['span']}
            n += 1
            done.setdefault(path, []).append(cp)
    return done


# ----------------------------------------------------------------------------------------
# Closures with side effects handed to a standard combinator are written out.  `opt.unwrap_or_else(|| { v.push(x); v.len() - 1 })`
# and `res.map_err(|e| { self.reset(); e })` are control flow in disguise: the closure's body runs on one side of a test of the
# Option / Result.  The MIR of such a call is rewritten into that test, with the closure's body spliced into its side, so that
# dominators, path enumeration, the panic census and the field-write rules see the pushes and resets where they happen.  Closures
# without side effects (a comparison, the construction of an error value) are left alone: they are values to the rules.
# ----------------------------------------------------------------------------------------
_COMB = {
    # callee suffix: (enum, variant on which the closure runs, how its result becomes the result of the call)
    'option::Option::<T>::unwrap_or_else': ('core::option::Option', 'None', 'value'),
    'option::Option::<T>::or_else': ('core::option::Option', 'None', 'same'),
    'option::Option::<T>::ok_or_else': ('core::option::Option', 'None', 'Err'),
    'option::Option::<T>::map': ('core::option::Option', 'Some', 'Some'),
    'option::Option::<T>::and_then': ('core::option::Option', 'Some', 'same'),
    'option::Option::<T>::filter': ('core::option::Option', 'Some', 'filter'),
    'result::Result::<T, E>::map_err': ('core::result::Result', 'Err', 'Err'),
    'result::Result::<T, E>::map': ('core::result::Result', 'Ok', 'Ok'),
    'result::Result::<T, E>::and_then': ('core::result::Result', 'Ok', 'same'),
    'result::Result::<T, E>::or_else': ('core::result::Result', 'Err', 'same'),
    'result::Result::<T, E>::unwrap_or_else': ('core::result::Result', 'Err', 'value'),
}
_VARIANTS = {'core::option::Option': ['None', 'Some'], 'core::result::Result': ['Ok', 'Err']}


def _closure_has_effects(cj):
    # ... or it calls a constructor / encoder of the crate's value type, whose argument the range and provenance rules follow
    for bl in cj['blocks']:
        t = bl['term']
        if t['k'] == 'call':
            nm = t['callee'].get('resolved') or t['callee'].get('path') or ''
            if nm in ('object::Object::int', 'object::Object::try_int', 'object::Object::bool', 'object::Object::function', 'object::Object::with_type'):
                return True
    for bl in cj['blocks']:
        for st in bl['stmts']:
            if st['k'] == 'assign' and any(e == 'deref' for e in st['place']['proj']):
                return True
        t = bl['term']
        if t['k'] == 'call':
            for a in t['args']:
                pl = a.get('place') if a.get('k') in ('copy', 'move') else None
                if pl is not None:
                    ty = cj['locals'][pl['local']]['ty'] if pl['local'] < len(cj['locals']) else ''
                    if ty.startswith('&') and ' mut ' in ty[:24] and not pl['proj']:
                        return True
    return False


def _single_def_rv(j, l):
    """the rvalue of the only assignment to local l in the raw body j (None when it is assigned twice or is a call result)"""
    found = None
    for bl in j['blocks']:
        for st in bl['stmts']:
            if st['k'] == 'assign' and st['place']['local'] == l and not st['place']['proj']:
                if found is not None:
                    return None
                found = st['rv']
        t = bl['term']
        if t['k'] == 'call' and t['dest']['local'] == l and not t['dest']['proj']:
            return None
    return found


def _partially_written(j, l):
    """is a field of local l assigned on its own somewhere in the raw body, or is l mutably borrowed"""
    for bl in j['blocks']:
        for st in bl['stmts']:
            if st['k'] == 'assign' and st['place']['local'] == l and st['place']['proj']:
                return True
            if st['k'] == 'assign' and st['rv']['k'] == 'ref' and st['rv'].get('mut') and st['rv']['place']['local'] == l:
                return True
        t = bl['term']
        if t['k'] == 'call' and t['dest']['local'] == l and t['dest']['proj']:
            return True
    return False


def _trace_operand(j, op, want, depth=0):
    """follow an operand back through plain moves / copies / borrows of whole locals to the local whose single definition
    satisfies want(rv); returns (local, rv) or None"""
    for _ in range(12):
        if op.get('k') not in ('copy', 'move'):
            return None
        if op['place']['proj']:
            # a field of a value the body built itself (`Comparison::Order(f)` matched a few lines on): the operand stored there
            pr = op['place']['proj']
            variant = None
            if len(pr) == 2 and 'downcast' in pr[0] and 'field' in pr[1]:
                variant, fi = pr[0]['downcast'], pr[1]['field']
            elif len(pr) == 1 and 'field' in pr[0]:
                fi = pr[0]['field']
            else:
                return None
            if depth > 4 or _partially_written(j, op['place']['local']):
                return None
            agg = _trace_operand(j, {'k': 'copy', 'place': {'local': op['place']['local'], 'proj': []}},
                                 lambda rv: rv['k'] == 'aggregate' and not rv.get('closure'), depth + 1)
            if agg is None or _partially_written(j, agg[0]) or (variant is not None and agg[1].get('variant') != variant) or (variant is None and agg[1].get('variant') not in (None, '')):
                return None
            if not isinstance(fi, int) or fi >= len(agg[1].get('ops') or []):
                return None
            op = agg[1]['ops'][fi]
            continue
        l = op['place']['local']
        rv = _single_def_rv(j, l)
        if rv is None:
            return None
        if want(rv):
            return l, rv
        if rv['k'] == 'use' and rv['op'].get('k') in ('copy', 'move'):
            op = rv['op']
            continue
        if rv['k'] == 'ref' and not rv['place']['proj']:
            op = {'k': 'copy', 'place': rv['place']}
            continue
        return None
    return None


def inline_direct_closure_calls(fns_by_path, max_rewrites=40):
    """`f(a, b)` where f is a closure VALUE the same body built (a closure handed to a generic helper that was spliced in, or
    bound with `let` and called): the call is `FnOnce::call_once(f, (a, b))` on an opaque type.  It is replaced by the closure's
    body (parameters bound to the tuple's fields), which is what the compiled code runs.  Returns {caller: [closure paths]}."""
    done = {}
    originals = {}
    for path, j in list(fns_by_path.items()):
        n = 0
        bi = 0
        while bi < len(j['blocks']) and n < max_rewrites:
            bl = j['blocks'][bi]
            t = bl['term']
            bi += 1
            if t['k'] != 'call':
                continue
            name = t['callee'].get('path') or ''
            if name == '<fn pointer>' and t['callee'].get('indirect'):
                # a non-capturing closure coerced to a function pointer (`let f: fn(..) = |a, b| ..;` handed to a helper that was
                # spliced in): the call runs the closure's body on the arguments
                cast = _trace_operand(j, t['callee']['indirect'], lambda rv: rv['k'] == 'cast' and 'ClosureFnPointer' in str(rv.get('ck')))
                clo = _trace_operand(j, cast[1]['op'], lambda rv: rv['k'] == 'aggregate' and rv.get('closure')) if cast is not None else None
                if clo is None:
                    continue
                ops = t['args']
            else:
                if len(t['args']) != 2 or name not in ('core::ops::function::FnOnce::call_once', 'core::ops::function::FnMut::call_mut', 'core::ops::function::Fn::call'):
                    continue
                clo = _trace_operand(j, t['args'][0], lambda rv: rv['k'] == 'aggregate' and rv.get('closure'))
                tup = _trace_operand(j, t['args'][1], lambda rv: rv['k'] == 'aggregate' and rv.get('agg') == 'Tuple')
                if clo is None or tup is None:
                    continue
                ops = tup[1]['ops']
            cp = clo[1]['closure']
            if cp not in fns_by_path or cp == path or cp in bl.get('inl', ()):
                continue
            cj = originals.setdefault(cp, copy.deepcopy(fns_by_path[cp]))
            if cj['arg_count'] != len(ops) + 1 or len(cj['blocks']) > 200:
                continue
            loff, boff, poff = len(j['locals']), len(j['blocks']), len(j.get('promoted') or [])
            stack = tuple(bl.get('inl', ())) + (cp,)
            for l in cj['locals']:
                l2 = dict(l)
                l2['i'] = l['i'] + loff
                l2['inl'] = cp
                j['locals'].append(l2)
            for pr in cj.get('promoted') or []:
                pr2 = copy.deepcopy(pr)
                pr2['i'] = pr['i'] + poff
                j.setdefault('promoted', []).append(pr2)
            for cb in cj['blocks']:
                nb = _remap(cb, loff, boff, poff)
                nb['i'] = cb['i'] + boff
                nb['inl'] = stack + tuple(cb.get('inl', ()))
                tt = nb['term']
                if tt['k'] == 'return':
                    nb['stmts'].append({'k': 'assign', 'place': t['dest'],
                                        'rv': {'k': 'use', 'op': {'k': 'move', 'place': {'local': loff, 'proj': [], 'ty': cj['locals'][0]['ty'], 'text': '_%d' % loff}}},
                                        'span': t['span'], 'inl_ret': cp})
                    if t.get('target') is not None:
                        nb['term'] = {'k': 'goto', 'target': t['target']}
                    else:
                        nb['term'] = {'k': 'unreachable'}
                elif tt['k'] == 'resume' and isinstance(t.get('unwind'), int):
                    nb['term'] = {'k': 'goto', 'target': t['unwind']}
                j['blocks'].append(nb)
            # the closure's own parameter: the closure value, or a borrow of it when the body takes `&self`
            cty = cj['locals'][1]['ty']
            cplace = {'local': clo[0], 'proj': [], 'ty': j['locals'][clo[0]]['ty'], 'text': '_%d' % clo[0]}
            if cty.startswith('&'):
                rv0 = {'k': 'ref', 'place': cplace, 'mut': ' mut ' in cty[:24]}
            else:
                rv0 = {'k': 'use', 'op': {'k': 'move', 'place': cplace}}
            bl['stmts'].append({'k': 'assign', 'place': {'local': loff + 1, 'proj': [], 'ty': cty, 'text': '_%d' % (loff + 1)}, 'rv': rv0, 'span': t['span'], 'inl_arg': cp})
            for i, a in enumerate(ops):
                lt = cj['locals'][i + 2]['ty']
                bl['stmts'].append({'k': 'assign', 'place': {'local': loff + i + 2, 'proj': [], 'ty': lt, 'text': '_%d' % (loff + i + 2)},
                                    'rv': {'k': 'use', 'op': a}, 'span': t['span'], 'inl_arg': cp})
            bl['term'] = {'k': 'goto', 'target': boff, 'inl_call': cp, 'span': t['span']}
            n += 1
            done.setdefault(path, []).append(cp)
    return done


def devirtualize_fn_pointers(fns_by_path):
    """a call through a function pointer whose value the same body fixed (`binary_op(Object::add, ..)` spliced in: the pointer is
    a copy of `Object::add as fn(..)`) is a call of that function: the callee is rewritten to it.  Returns the number rewritten."""
    n = 0
    for path, j in fns_by_path.items():
        for bl in j['blocks']:
            t = bl['term']
            if t['k'] != 'call':
                continue
            c = t['callee']
            ind = c.get('indirect')
            if not ind or c.get('path') != '<fn pointer>':
                continue
            r = _trace_operand(j, ind, lambda rv: rv['k'] == 'cast' and 'ReifyFnPointer' in str(rv.get('ck')) and rv['op'].get('k') == 'const' and rv['op'].get('fn'))
            if r is None:
                continue
            target = r[1]['op']['fn']
            tj = fns_by_path.get(target)
            t['callee'] = {'path': target, 'generic_args': r[1]['op'].get('fn_args') or '[]', 'local': tj is not None, 'krate': 'nederlang' if tj is not None else None,
                           'unsafe': bool(tj.get('unsafe')) if tj is not None else False, 'resolved': target, 'resolved_local': tj is not None, 'resolved_kind': 'Item',
                           'devirtualized': True}
            n += 1
    return n


def _uses_local(cj, l):
    """does any statement or terminator of the raw body read local l"""
    def mentions(x):
        if isinstance(x, dict):
            if x.get('local') == l and 'proj' in x:
                return True
            return any(mentions(v) for v in x.values())
        if isinstance(x, list):
            return any(mentions(v) for v in x)
        return False
    for bl in cj['blocks']:
        for st in bl['stmts']:
            if st['k'] == 'assign' and (mentions(st['rv']) or (st['place']['local'] == l and st['place']['proj'])):
                return True
        t = bl['term']
        if mentions({k: v for k, v in t.items() if k not in ('dest',)}):
            return True
    return False


def _fn_item_as_closure(fns_by_path, target, span):
    """a body that does what the closure `|x| target(x)` does, under the path `<target>::{fn item}`"""
    cp = target + '::{fn item}'
    if cp in fns_by_path:
        return cp
    tj = fns_by_path[target]
    if tj.get('arg_count') != 1:
        return None
    fns_by_path[cp] = {
        'path': cp, 'def_kind': 'Closure', 'arg_count': 2, 'span': tj.get('span'), 'body_span': tj.get('body_span'), 'parent': tj.get('path'), 'synthetic': True,
        'locals': [{'i': 0, 'ty': tj['locals'][0]['ty'], 'name': None}, {'i': 1, 'ty': '()', 'name': None}, {'i': 2, 'ty': tj['locals'][1]['ty'], 'name': None}],
        'debug': [], 'promoted': [],
        'blocks': [{'i': 0, 'cleanup': False, 'stmts': [],
                    'term': {'k': 'call', 'callee': {'path': target, 'generic_args': '[]', 'local': True, 'krate': 'nederlang', 'unsafe': False, 'resolved': target,
                                                     'resolved_local': True, 'resolved_kind': 'Item'},
                             'args': [{'k': 'move', 'place': {'local': 2, 'proj': [], 'ty': tj['locals'][1]['ty'], 'text': '_2'}}],
                             'dest': {'local': 0, 'proj': [], 'ty': tj['locals'][0]['ty'], 'text': '_0'}, 'target': 1, 'unwind': None, 'span': span}},
                   {'i': 1, 'cleanup': False, 'stmts': [], 'term': {'k': 'return', 'span': span}}]}
    return cp


def desugar_effect_closures(fns_by_path, max_rewrites=40, fn_items=()):
    """returns {caller: [closure paths spliced]}"""
    done = {}
    originals = {}
    for path, j in list(fns_by_path.items()):
        n = 0
        bi = 0
        while bi < len(j['blocks']) and n < max_rewrites:
            bl = j['blocks'][bi]
            t = bl['term']
            bi += 1
            if t['k'] != 'call' or len(t['args']) != 2 or t.get('target') is None:
                continue
            name = t['callee'].get('resolved') or t['callee'].get('path') or ''
            spec = next((v for k, v in _COMB.items() if name.endswith(k)), None)
            is_then = name.endswith('bool>::then') or name == 'core::bool::<impl bool>::then'
            if is_then:
                # `cond.then(|| e)`: Some(e) when the condition holds, None otherwise - the closure runs under the condition
                spec = ('core::option::Option', 'Some', 'then')
            if spec is None:
                continue
            enum, on_variant, wrap = spec
            ca = t['args'][1]
            if ca.get('k') == 'const' and ca.get('fn') in fn_items and ca['fn'] in fns_by_path and wrap not in ('filter', 'then'):
                # a new helper of the crate handed over as a plain function: `res.and_then(execute)` runs execute on the Ok side
                fcp = _fn_item_as_closure(fns_by_path, ca['fn'], t['span'])
                if fcp is not None:
                    j['locals'].append({'i': len(j['locals']), 'ty': 'Closure(%s)' % fcp, 'name': None, 'inl': fcp})
                    nl_ = len(j['locals']) - 1
                    bl['stmts'].append({'k': 'assign', 'place': {'local': nl_, 'proj': [], 'ty': 'Closure(%s)' % fcp, 'text': '_%d' % nl_},
                                        'rv': {'k': 'aggregate', 'agg': 'Closure', 'closure': fcp, 'fields': [], 'ops': []}, 'span': t['span']})
                    ca = {'k': 'move', 'place': {'local': nl_, 'proj': [], 'ty': 'Closure(%s)' % fcp, 'text': '_%d' % nl_}}
                    t['args'][1] = ca
            cl = ca.get('place', {}).get('local') if ca.get('k') in ('copy', 'move') and not ca['place']['proj'] else None
            if cl is None:
                continue
            # the closure value: the single aggregate that defines the local (through plain moves)
            cp = None
            cur = cl
            for _ in range(6):
                defs = [st for b2 in j['blocks'] for st in b2['stmts'] if st['k'] == 'assign' and st['place']['local'] == cur and not st['place']['proj']]
                if len(defs) != 1:
                    break
                rv = defs[0]['rv']
                if rv['k'] == 'aggregate' and rv.get('closure'):
                    cp = rv['closure']
                    break
                if rv['k'] == 'use' and rv['op'].get('k') in ('copy', 'move') and not rv['op']['place']['proj']:
                    cur = rv['op']['place']['local']
                    continue
                break
            if cp is None or cp not in fns_by_path or cp in bl.get('inl', ()):
                continue
            cj = originals.setdefault(cp, copy.deepcopy(fns_by_path[cp]))
            if (wrap not in ('filter', 'then') and not cj.get('synthetic') and not _closure_has_effects(cj)) or len(cj['blocks']) > 200:
                continue
            if wrap == 'filter' and not _closure_has_effects(cj) and _uses_local(cj, 2):
                # a predicate ABOUT the payload (`.filter(|p| *p < len)`) is a bound on a value: the rules read it from the closure
                # (c05.closure_comparison).  Only a predicate that ignores the payload - a condition of the surrounding code that
                # decides whether the option survives - is control flow worth writing out
                continue
            o = t['args'][0]
            if o.get('k') not in ('copy', 'move') or o['place']['proj']:
                continue
            ol = o['place']['local']
            oty = o['place'].get('ty') or j['locals'][ol]['ty']
            vidx = _VARIANTS[enum].index(on_variant)
            other = _VARIANTS[enum][1 - vidx]
            span = t['span']
            loff, boff, poff = len(j['locals']), len(j['blocks']) + (5 if wrap == 'filter' else 3), len(j.get('promoted') or [])
            stack = tuple(bl.get('inl', ())) + (cp,)

            def newlocal(ty):
                j['locals'].append({'i': len(j['locals']), 'ty': ty, 'name': None, 'inl': cp})
                return len(j['locals']) - 1

            def pl(l, proj=(), ty=None):
                return {'local': l, 'proj': list(proj), 'ty': ty or j['locals'][l]['ty'], 'text': '_%d' % l}
            # the closure's own locals first (so that loff is where they start)
            for l in cj['locals']:
                l2 = dict(l)
                l2['i'] = l['i'] + loff
                l2['inl'] = cp
                j['locals'].append(l2)
            disc = newlocal('isize')
            ret_ty = cj['locals'][0]['ty']
            b_pass, b_call, b_fin = len(j['blocks']), len(j['blocks']) + 1, len(j['blocks']) + 2

            def payload(variant, ty=None):
                vi = _VARIANTS[enum].index(variant)
                return {'k': 'move', 'place': pl(ol, [{'downcast': variant, 'vidx': vi}, {'field': 0, 'name': '0', 'of': enum, 'ty': ty or '?'}], ty or '?')}

            def agg(variant, ops):
                return {'k': 'aggregate', 'adt': enum, 'variant': variant, 'fields': [], 'ops': ops}
            dest = t['dest']
            # the side on which the closure does not run
            if wrap == 'value':
                pass_rv = {'k': 'use', 'op': payload(other, dest.get('ty'))}
            elif wrap == 'same' and enum.endswith('Option') and on_variant == 'None':
                pass_rv = {'k': 'use', 'op': {'k': 'move', 'place': pl(ol)}}
            elif wrap == 'same' and on_variant in ('Some',):
                pass_rv = agg('None', [])
            elif wrap == 'same':          # Result::and_then on Err / or_else on Ok: the other variant is rebuilt unchanged
                pass_rv = agg(other, [payload(other)])
            elif wrap == 'Err' and enum.endswith('Option'):      # ok_or_else: Some(x) -> Ok(x)
                pass_rv = {'k': 'aggregate', 'adt': 'core::result::Result', 'variant': 'Ok', 'fields': [], 'ops': [payload('Some')]}
            elif wrap in ('Some', 'filter', 'then'):
                pass_rv = agg('None', [])
            else:                          # map_err on Ok / map on Err
                pass_rv = agg(other, [payload(other)])
            j['blocks'].append({'i': b_pass, 'stmts': [{'k': 'assign', 'place': dest, 'rv': pass_rv, 'span': span}], 'term': {'k': 'goto', 'target': t['target']}, 'inl': stack, 'cleanup': False})
            # the side on which it runs: bind the closure and its argument, enter the spliced body
            call_stmts = []
            c1ty = cj['locals'][1]['ty']
            if c1ty.startswith('&'):
                call_stmts.append({'k': 'assign', 'place': pl(loff + 1, ty=c1ty), 'rv': {'k': 'ref', 'mut': ' mut ' in c1ty[:24], 'place': pl(cl)}, 'span': span, 'inl_arg': cp})
            else:
                call_stmts.append({'k': 'assign', 'place': pl(loff + 1, ty=c1ty), 'rv': {'k': 'use', 'op': {'k': 'move', 'place': pl(cl)}}, 'span': span, 'inl_arg': cp})
            if wrap == 'then':
                pass
            elif cj['arg_count'] >= 2 and wrap == 'filter':
                # the predicate looks at the payload through a shared reference
                call_stmts.append({'k': 'assign', 'place': pl(loff + 2, ty=cj['locals'][2]['ty']), 'rv': {'k': 'ref', 'mut': False, 'place': payload(on_variant)['place']}, 'span': span, 'inl_arg': cp})
            elif cj['arg_count'] >= 2:
                call_stmts.append({'k': 'assign', 'place': pl(loff + 2, ty=cj['locals'][2]['ty']), 'rv': {'k': 'use', 'op': payload(on_variant, cj['locals'][2]['ty'])}, 'span': span, 'inl_arg': cp})
            j['blocks'].append({'i': b_call, 'stmts': call_stmts, 'term': {'k': 'goto', 'target': boff, 'inl_call': cp, 'span': span}, 'inl': stack, 'cleanup': False})
            # what the closure returned becomes the result
            r_op = {'k': 'move', 'place': pl(loff, ty=ret_ty)}
            if wrap == 'then':
                fin_rv = agg('Some', [r_op])
            elif wrap in ('value', 'same'):
                fin_rv = {'k': 'use', 'op': r_op}
            elif wrap == 'Err' and enum.endswith('Option'):
                fin_rv = {'k': 'aggregate', 'adt': 'core::result::Result', 'variant': 'Err', 'fields': [], 'ops': [r_op]}
            else:
                fin_rv = agg(wrap, [r_op])
            if wrap == 'filter':
                # Some(x) stays when the predicate answered true, otherwise the result is None
                keepl = newlocal('bool')
                j['blocks'].append({'i': b_fin, 'stmts': [{'k': 'assign', 'place': pl(keepl), 'rv': {'k': 'use', 'op': r_op}, 'span': span, 'inl_ret': cp}],
                                    'term': {'k': 'switch', 'op': {'k': 'move', 'place': pl(keepl)}, 'ty': 'bool', 'targets': [[0, b_fin + 2]], 'otherwise': b_fin + 1, 'span': span}, 'inl': stack, 'cleanup': False})
                j['blocks'].append({'i': b_fin + 1, 'stmts': [{'k': 'assign', 'place': dest, 'rv': {'k': 'use', 'op': {'k': 'move', 'place': pl(ol)}}, 'span': span}], 'term': {'k': 'goto', 'target': t['target']}, 'inl': stack, 'cleanup': False})
                j['blocks'].append({'i': b_fin + 2, 'stmts': [{'k': 'assign', 'place': dest, 'rv': agg('None', []), 'span': span}], 'term': {'k': 'goto', 'target': t['target']}, 'inl': stack, 'cleanup': False})
            else:
                j['blocks'].append({'i': b_fin, 'stmts': [{'k': 'assign', 'place': dest, 'rv': fin_rv, 'span': span, 'inl_ret': cp}], 'term': {'k': 'goto', 'target': t['target']}, 'inl': stack, 'cleanup': False})
            for pr in cj.get('promoted') or []:
                pr2 = copy.deepcopy(pr)
                pr2['i'] = pr['i'] + poff
                j.setdefault('promoted', []).append(pr2)
            for cb in cj['blocks']:
                nb = _remap(cb, loff, boff, poff)
                nb['i'] = cb['i'] + boff
                nb['inl'] = stack + tuple(cb.get('inl', ()))      # code a helper brought into the closure keeps its origin
                tt = nb['term']
                if tt['k'] == 'return':
                    nb['term'] = {'k': 'goto', 'target': b_fin}
                elif tt['k'] == 'resume':
                    nb['term'] = {'k': 'goto', 'target': t['unwind']} if isinstance(t.get('unwind'), int) else {'k': 'unreachable'}
                j['blocks'].append(nb)
            # the call becomes the test
            if wrap == 'then':
                bl['term'] = {'k': 'switch', 'op': {'k': 'move', 'place': pl(ol)}, 'ty': 'bool', 'targets': [[0, b_pass]], 'otherwise': b_call, 'span': span, 'desugared': name}
            else:
                bl['stmts'].append({'k': 'assign', 'place': pl(disc), 'rv': {'k': 'discr', 'place': pl(ol), 'enum': enum}, 'span': span})
                tg = [[vidx, b_call], [1 - vidx, b_pass]]
                bl['term'] = {'k': 'switch', 'op': {'k': 'move', 'place': pl(disc)}, 'ty': 'isize', 'targets': sorted(tg), 'otherwise': b_pass, 'span': span, 'desugared': name}
            n += 1
            done.setdefault(path, []).append(cp)
    return done


_LIFETIME = re.compile(r"'[^ ,>)]+ ?")


def sig_key(fj):
    """signature of a function modulo lifetimes: kind, parameter types, return type"""
    tys = [_LIFETIME.sub('', l['ty']) for l in fj['locals'][1:fj['arg_count'] + 1]]
    ret = fj['locals'][0]['ty'] if fj.get('locals') else (fj.get('ret') or '')
    return json.dumps([fj.get('def_kind'), tys, _LIFETIME.sub('', ret)])


def detect_renames(fns, pinned):
    """{new path: pinned path} for functions that disappeared from the pinned list while exactly one new function with the same
    parent (module / impl) and the same signature appeared: a rename.  The facts are rewritten to the pinned name so that every
    anchored rule keeps its anchor."""
    cur = {fj['path']: fj for fj in fns}
    missing = [p for p in pinned if p not in cur and '{closure' not in p]
    new = [p for p in cur if p not in pinned and '{closure' not in p]
    cand = {}
    for m in missing:
        par = m.rsplit('::', 1)[0]
        c = [n for n in new if n.rsplit('::', 1)[0] == par and sig_key(cur[n]) == pinned[m]]
        if len(c) == 1:
            cand[m] = c[0]
    out = {}
    for m, n in cand.items():
        if list(cand.values()).count(n) == 1:
            out[n] = m
    return out


def _rename_strings(x, ren):
    if isinstance(x, list):
        for i, y in enumerate(x):
            if isinstance(y, str):
                x[i] = _rename_one(y, ren)
            else:
                _rename_strings(y, ren)
    elif isinstance(x, dict):
        for k, y in x.items():
            if isinstance(y, str):
                if k in ('path', 'resolved', 'fn', 'closure'):
                    x[k] = _rename_one(y, ren)
            else:
                _rename_strings(y, ren)


def _rename_one(s, ren):
    for n, m in ren.items():
        if s == n:
            return m
        if s.startswith(n + '::{'):
            return m + s[len(n):]
    return s


def load_pinned():
    p = os.path.join(os.path.dirname(os.path.abspath(__file__)), 'pinned_fns.json')
    if not os.path.exists(p):
        return None
    return json.load(open(p))


CURRENT_FACTS = None
_INT_FROM_RE = re.compile(r'From<(u8|u16|u32|u64|usize|i8|i16|i32|i64|isize|bool)>(>| for (u8|u16|u32|u64|u128|usize|i16|i32|i64|i128|isize))')


class Facts:
    def __init__(self, lib_path, bin_path=None):
        self.lib = json.load(open(lib_path))
        self.bin = json.load(open(bin_path)) if bin_path else None
        self.fns = {}
        self.all_fns = []
        self.inlined = {}
        self.transparent_fns = {}
        self.renames = {}
        pinned = load_pinned()
        for crate, d in (('lib', self.lib), ('bin', self.bin)):
            if not d:
                continue
            if pinned is not None and isinstance(pinned[crate], dict):
                ren = detect_renames(d['fns'], pinned[crate])
                if ren:
                    _rename_strings(d['fns'], ren)
                    self.renames.update({(crate, k_): v_ for k_, v_ in ren.items()})
            if pinned is not None:
                byp = {}
                for fj in d['fns']:
                    byp.setdefault(fj['path'], fj)
                done = inline_new_helpers(byp, set(pinned[crate]))
                done3 = inline_direct_closure_calls(byp)
                devirtualize_fn_pointers(byp)
                new_helpers = {p_ for p_, j_ in byp.items() if p_ not in set(pinned[crate]) and j_.get('def_kind') in ('Fn', 'AssocFn')}
                done2 = desugar_effect_closures(byp, fn_items=new_helpers)
                if any('::{fn item}' in x_ for v_ in done2.values() for x_ in v_):
                    # a new helper handed to a combinator as a plain function (`compile(p).and_then(execute)`) is now called directly
                    for k_, v_ in inline_new_helpers(byp, set(pinned[crate]) | {p_ for p_ in byp if p_.endswith('::{fn item}')}).items():
                        done.setdefault(k_, []).extend(v_)
                for k_, v_ in done3.items():
                    done.setdefault(k_, []).extend(v_)
                for k_, v_ in done2.items():
                    done.setdefault(k_, []).extend(v_)
                for k_, v_ in done.items():
                    self.inlined[(crate, k_)] = v_
                gone = {h for v_ in done.values() for h in v_}
                self.transparent = getattr(self, 'transparent', set()) | {(crate, h) for h in gone}
            for fj in d['fns']:
                f = Fn(fj, crate)
                key = f.path if crate == 'lib' else 'bin::' + f.path
                # closures have unique paths ({closure#n}); keep first on collision
                self.fns.setdefault(key, f)
                self.all_fns.append(f)
        # a new helper whose every call site was spliced away is no longer a function of the analysed program
        if getattr(self, 'transparent', None):
            still = set()
            for f in self.all_fns:
                for b, t in f.calls():
                    for p_ in callee_paths(t):
                        still.add((f.crate, p_))
                    for a in t['args']:
                        if a.get('k') == 'const' and 'fn' in a:
                            still.add((f.crate, a['fn']))
            drop = {x for x in self.transparent if x not in still}
            self.transparent_fns = {(f.path if f.crate == 'lib' else 'bin::' + f.path): f for f in self.all_fns if (f.crate, f.path) in drop}
            self.all_fns = [f for f in self.all_fns if (f.crate, f.path) not in drop]
            for crate, p_ in drop:
                self.fns.pop(p_ if crate == 'lib' else 'bin::' + p_, None)
            self.dropped = sorted(drop)
        self.adts = {a['path']: a for a in self.lib['adts']}
        self.consts = {c['path']: c for c in self.lib['consts']}
        global CURRENT_FACTS
        if CURRENT_FACTS is None:
            CURRENT_FACTS = self
        self.impls = self.lib['impls']
        self.statics = self.lib['statics'] + (self.bin['statics'] if self.bin else [])

    def fn(self, path):
        f = self.fns.get(path)
        if f is None:
            raise CheckerError('anchor function %s not found in the facts' % path)
        return f

    def find_fns(self, pred):
        return [f for f in self.all_fns if pred(f)]

    def adt(self, path):
        a = self.adts.get(path)
        if a is None:
            raise CheckerError('anchor type %s not found' % path)
        return a

    def enum_variants(self, path):
        return [(v['name'], v['discr']) for v in self.adt(path)['variants']]

    def callers_of(self, path_pred):
        """[(fn, block, term)] of call sites whose resolved callee satisfies pred"""
        out = []
        for f in self.all_fns:
            for b, t in f.calls():
                if any(path_pred(p) for p in callee_paths(t)):
                    out.append((f, b, t))
        return out

    def call_graph(self):
        g = defaultdict(set)
        for f in self.all_fns:
            key = f.path if f.crate == 'lib' else 'bin::' + f.path
            for b, t in f.calls():
                for p in callee_paths(t):
                    g[key].add(p)
            # closures constructed in this body are attached to their parent
            for b, si, st in f.stmts():
                if st['k'] == 'assign' and st['rv']['k'] == 'aggregate' and 'closure' in st['rv']:
                    g[key].add(st['rv']['closure'])
            # function items mentioned as values (passed as fn pointers / generic args)
            for b, t in f.calls():
                for a in t['args']:
                    if a.get('k') == 'const' and 'fn' in a:
                        g[key].add(a['fn'])
                # formatting a value of a local type calls that type's Display / Debug impl (through core::fmt's type-erased
                # argument, which the MIR call graph does not show)
                cn = t['callee'].get('path') or ''
                # `x.fmt(f)` / `write!(f, "{}", x)` on a reference to a local type goes through std's blanket impl for &T
                if cn in ('core::fmt::Display::fmt', 'core::fmt::Debug::fmt') and (t['callee'].get('self_ty') or '').startswith('&'):
                    ty = _LIFETIME.sub('', t['callee']['self_ty']).lstrip('&').replace('mut ', '').strip()
                    cand = '<%s as %s>::fmt' % (ty, cn.rsplit('::', 1)[0])
                    if cand in self.fns:
                        g[key].add(cand)
                if cn.startswith('core::fmt::rt::Argument') and cn.endswith(('::new_display', '::new_debug')):
                    ga = _split_generic_args(t['callee'].get('generic_args'))
                    if ga:
                        ty = _LIFETIME.sub('', ga[0]).lstrip('&').strip()
                        trait = 'core::fmt::Display' if cn.endswith('new_display') else 'core::fmt::Debug'
                        cand = '<%s as %s>::fmt' % (ty, trait)
                        if cand in self.fns:
                            g[key].add(cand)
        return g

    def reachable_fns(self, roots):
        g = self.call_graph()
        seen = set()
        st = list(roots)
        while st:
            n = st.pop()
            if n in seen:
                continue
            seen.add(n)
            st.extend(g.get(n, ()))
        return seen


# ----------------------------------------------------------------------------------------
# AbsInt — a small path-enumerating abstract interpreter over MIR facts.
#
# It never runs code: it walks the CFG of one body, keeps an environment of *symbolic* values
# for places, decides a SwitchInt when its operand is a known constant and forks otherwise
# (recording the choice as a path constraint).  Loops are cut after `loop_bound` visits of
# the same block on one path.  Used for enum-map extraction (EMX), per-opcode effects (VMX),
# totality tables and protocol rules.
# ----------------------------------------------------------------------------------------
def place_key(p):
    k = '_%d' % p['local']
    for e in p['proj']:
        if e == 'deref':
            k += '.*'
        elif isinstance(e, dict) and 'field' in e:
            k += '.f%d' % e['field']
        elif isinstance(e, dict) and 'index' in e:
            k += '.[_%d]' % e['index']
        elif isinstance(e, dict) and 'const_index' in e:
            k += '.[%d%s]' % (e['const_index'], 'e' if e.get('from_end') else '')
        elif isinstance(e, dict) and 'downcast' in e:
            k += '@%s' % e['downcast']
        else:
            k += '.?%s' % (e,)
    return k


def idx_token(iv):
    if isinstance(iv, tuple) and iv and iv[0] == 'int':
        return '.[#%d]' % iv[1]
    return '.[%s]' % abs(hash(repr(iv)))


class Path:
    __slots__ = ('blocks', 'env', 'constraints', 'calls', 'exit', 'exit_block', 'asserts', 'writes', 'cpos', 'callpos', 'snaps')

    def __init__(self):
        self.blocks = []
        self.env = {}
        self.constraints = []   # (what, value)
        self.calls = []         # (block, name, argvals, dest_key, term)
        self.asserts = []       # (block, msg kind)
        self.writes = []        # (block, place key (resolved), value)
        self.exit = None
        self.exit_block = None
        self.cpos = []          # position in .blocks of every constraint
        self.callpos = []       # position in .blocks of every call
        self.snaps = []         # (position, block, env copy) for watched blocks, taken before the terminator

    def clone(self):
        p = Path()
        p.blocks = list(self.blocks)
        p.env = dict(self.env)
        p.constraints = list(self.constraints)
        p.calls = list(self.calls)
        p.asserts = list(self.asserts)
        p.writes = list(self.writes)
        p.cpos = list(self.cpos)
        p.callpos = list(self.callpos)
        p.snaps = list(self.snaps)
        return p

    def call_names(self):
        return [c[1] for c in self.calls]


STD_ENUMS = {
    'core::option::Option': ['None', 'Some'],
    'core::result::Result': ['Ok', 'Err'],
    'core::ops::control_flow::ControlFlow': ['Continue', 'Break'],
    'core::cmp::Ordering': {255: 'Less', -1: 'Less', 0: 'Equal', 1: 'Greater'},      # repr(i8): the switch sees the bit pattern of -1
}


class AbsInt:
    def __init__(self, facts, fn, init_env=None, stop_blocks=(), loop_bound=2, max_paths=20000,
                 decide_call=None, watch=()):
        self.watch = set(watch)
        self.facts = facts
        self.fn = fn
        self.init_env = init_env or {}
        self.stop_blocks = set(stop_blocks)
        self.loop_bound = loop_bound
        self.max_paths = max_paths
        self.decide_call = decide_call   # callback(name, argvals) -> absval or None
        self.paths = []
        self.truncated = False

    # -- values -------------------------------------------------------------------------
    def discr_value(self, enum_path, variant):
        a = self.facts.adts.get(enum_path)
        if not a:
            vs = STD_ENUMS.get(enum_path)
            if vs and variant in vs:
                return vs.index(variant)
            return None
        for i, v in enumerate(a['variants']):
            if v['name'] == variant:
                return v['discr'] if v['discr'] is not None else i
        return None

    def variant_of_discr(self, enum_path, d):
        a = self.facts.adts.get(enum_path)
        if not a:
            vs = STD_ENUMS.get(enum_path)
            if isinstance(vs, dict):
                return vs.get(d)
            if vs and 0 <= d < len(vs):
                return vs[d]
            return None
        for i, v in enumerate(a['variants']):
            dv = v['discr'] if v['discr'] is not None else i
            if dv == d:
                return v['name']
        return None

    def read_place(self, env, p):
        key = '_%d' % p['local']
        val = env.get(key, ('local', p['local']))
        for e in p['proj']:
            if e == 'deref':
                while val[0] == 'cast' and val[1][0] in ('ref', 'cast'):
                    val = val[1]
                if val[0] == 'ref':
                    key = val[1]
                    dflt = ('mem', key)
                    if key.startswith('_') and key[1:].isdigit():
                        dflt = ('local', int(key[1:]))
                    elif key not in env:
                        # a borrow of a part of a known aggregate (`&(_7 as Some).0` of a decided Option): read the part
                        nav = self._navigate(env, key)
                        if nav is not None:
                            dflt = nav
                        else:
                            # a borrow of a part of an opaque value (`&(_35 as Ok).0` of a call's result, bound by reference in a
                            # match guard): the same projection a direct read of that part gives
                            toks = re.findall(r'(^_\d+|@\w+|\.f\d+)', key)
                            if toks and ''.join(toks) == key and len(toks) >= 2 and toks[0] in env and all(k_ not in env for k_ in
                                    (''.join(toks[:i_]) for i_ in range(2, len(toks) + 1))):
                                pv = env[toks[0]]
                                if isinstance(pv, tuple) and pv and pv[0] != 'agg':
                                    for tk in toks[1:]:
                                        pv = ('downcast', pv, tk[1:]) if tk.startswith('@') else ('field', pv, tk[2:])
                                    dflt = pv
                    val = env.get(key, dflt)
                    continue
                key = key + '.*'
                val = env.get(key, ('deref', val))
            elif isinstance(e, dict) and 'field' in e:
                key = key + '.f%d' % e['field']
                if key in env:
                    val = env[key]
                elif val[0] == 'agg' and e['field'] < len(val[3]):
                    val = val[3][e['field']]
                elif val[0] == 'closure' and len(val) > 2 and isinstance(val[2], tuple) and e['field'] < len(val[2]):
                    val = val[2][e['field']]          # a captured variable of a closure value built on this path
                else:
                    val = ('field', val, e['name'])
            elif isinstance(e, dict) and 'downcast' in e:
                key = key + '@%s' % e['downcast']
                if key in env:
                    val = env[key]
                elif val[0] == 'agg' and val[2] == e['downcast']:
                    pass
                else:
                    val = ('downcast', val, e['downcast'])
            elif isinstance(e, dict) and 'index' in e:
                iv = env.get('_%d' % e['index'], ('local', e['index']))
                key = key + idx_token(iv)
                if key not in env and val[0] == 'agg' and str(val[1]).startswith('Array') and iv[0] == 'int' and 0 <= iv[1] < len(val[3]):
                    val = val[3][iv[1]]             # element k of an array literal built on this path
                else:
                    val = env.get(key, ('index', val, iv))
            elif isinstance(e, dict) and 'const_index' in e and not e.get('from_end'):
                # a[k] with a constant k (slice / array patterns): same place as indexing with the constant
                iv = ('int', e['const_index'], 'usize')
                key = key + idx_token(iv)
                if key not in env and val[0] == 'agg' and str(val[1]).startswith('Array') and 0 <= iv[1] < len(val[3]):
                    val = val[3][iv[1]]
                else:
                    val = env.get(key, ('index', val, iv))
            else:
                key = key + '.?'
                val = ('proj', val, repr(e))
        return val

    def _navigate(self, env, key):
        """value of a composite place key (`_7@Some.f0`) when the longest stored prefix is a known aggregate"""
        toks = re.findall(r'(^_\d+|^\$[\w:]+(?:\.\d+)?(?:\._\d+)?|@\w+|\.f\d+)', key)
        if not toks or ''.join(toks) != key or len(toks) < 2:
            return None
        for cut in range(len(toks) - 1, 0, -1):
            pre = ''.join(toks[:cut])
            if pre in env:
                val = env[pre]
                for tk in toks[cut:]:
                    if not isinstance(val, tuple) or not val:
                        return None
                    if tk.startswith('@'):
                        if val[0] == 'agg' and val[2] == tk[1:]:
                            continue
                        return None
                    i = int(tk[2:])
                    if val[0] == 'agg' and i < len(val[3]):
                        val = val[3][i]
                    else:
                        return None
                return val
        return None

    def resolve_key(self, env, p):
        """key under which a write to place p is stored (through known references)"""
        key = '_%d' % p['local']
        for e in p['proj']:
            if e == 'deref':
                v = env.get(key)
                while v is not None and v[0] == 'cast':
                    v = v[1]
                if v is not None and v[0] == 'ref':
                    key = v[1]
                else:
                    key = key + '.*'
            elif isinstance(e, dict) and 'field' in e:
                key = key + '.f%d' % e['field']
            elif isinstance(e, dict) and 'downcast' in e:
                key = key + '@%s' % e['downcast']
            elif isinstance(e, dict) and 'index' in e:
                iv = env.get('_%d' % e['index'], ('local', e['index']))
                key = key + idx_token(iv)
            elif isinstance(e, dict) and 'const_index' in e and not e.get('from_end'):
                key = key + idx_token(('int', e['const_index'], 'usize'))
            else:
                key = key + '.?'
        return key

    def write_key(self, env, key, val):
        pref = key + '.'
        pref2 = key + '@'
        for k in [k for k in env if k.startswith(pref) or k.startswith(pref2)]:
            del env[k]
        env[key] = val

    def eval_op(self, env, op):
        k = op['k']
        if k == 'const':
            if 'promoted' in op:
                return self.eval_promoted(env, op['promoted'])
            if 'variant' in op:
                return ('enum', op['ty'], op['variant'])
            if 'fn' in op:
                return ('fn', op['fn'])
            if 'str' in op:
                return ('str', op['str'])
            if 'int' in op:
                return ('int', op['int'], op['ty'])
            if 'const_item' in op:
                # a named constant that is no scalar (a table, a record of function pointers): its initialiser
                v = self.eval_const_item(env, op['const_item'])
                if v is not None:
                    return v
            return ('const', op['text'], op['ty'])
        if k in ('copy', 'move'):
            return self.read_place(env, op['place'])
        return ('unknown', op.get('text'))

    # -- constant tables searched with iterator adaptors ---------------------------------------
    def _deref_val(self, env, v, n=6):
        for _ in range(n):
            if isinstance(v, tuple) and v and v[0] == 'cast':
                v = v[1]
                continue
            if isinstance(v, tuple) and v and v[0] == 'ref' and v[1] in env:
                v = env[v[1]]
                continue
            if isinstance(v, tuple) and v and v[0] == 'ref' and isinstance(v[1], str) and v[1].endswith('.*') and v[1][:-2] in env:
                v = env[v[1][:-2]]          # `&*r`: a reborrow of what r designates
                continue
            break
        return v

    def apply_closure_value(self, env, clo, args):
        """the one value a closure VALUE returns for these arguments, when every path of its body that returns agrees on it
        (the body is evaluated with the parameters bound; what it captured by reference is looked up in `env`); else None"""
        clo = self._deref_val(env, clo)
        if not (isinstance(clo, tuple) and clo and clo[0] == 'closure') or getattr(self, '_clo_depth', 0) >= 3:
            return None
        fn = self.facts.fns.get(clo[1])
        if fn is None or fn.arg_count != len(args) + 1 or len(fn.blocks) > 80:
            return None
        init = {k: v for k, v in env.items() if isinstance(k, str) and k.startswith('$')}
        AbsInt._capn = getattr(AbsInt, '_capn', 0) + 1
        caps = []
        for i, x in enumerate(clo[2] if len(clo) > 2 else ()):
            if isinstance(x, tuple) and x and x[0] == 'ref' and not x[1].startswith('$'):
                ck = '$cap%d_%d' % (AbsInt._capn, i)
                init[ck] = env.get(x[1], ('outer', x[1]))
                caps.append(('ref', ck))
            else:
                caps.append(x)
        init['$clo%d' % AbsInt._capn] = ('closure', clo[1], tuple(caps))
        init['_1'] = ('ref', '$clo%d' % AbsInt._capn) if fn.j['locals'][1]['ty'].startswith('&') else init['$clo%d' % AbsInt._capn]
        for i, a in enumerate(args):
            init['_%d' % (i + 2)] = a
        sub = AbsInt(self.facts, fn, init_env=init, max_paths=200)
        sub._clo_depth = getattr(self, '_clo_depth', 0) + 1
        vals = []
        for pth in sub.run():
            if pth.exit in ('diverge', 'panic', 'unreachable'):
                continue
            if pth.exit != 'return':
                return None
            v = simp(pth.env.get('_0'))
            v = self._closed(pth.env, v)
            if v is None:
                return None
            if v not in vals:
                vals.append(v)
        if sub.truncated or len(vals) != 1:
            return None
        return vals[0]

    def _closed(self, env, v, depth=0):
        """v with the borrows of the callee's own locals replaced by what they designate (None when that is not a plain value)"""
        if depth > 6 or not isinstance(v, tuple) or not v:
            return v
        if v[0] == 'ref':
            if isinstance(v[1], str) and v[1].startswith('$'):
                return v
            return None
        if v[0] in ('local', 'mem', 'unknown'):
            return None
        if v[0] == 'agg':
            parts = tuple(self._closed(env, x, depth + 1) for x in v[3])
            if any(x is None for x in parts):
                return None
            if not parts and v[2] and v[1] in self.facts.adts:
                return ('enum', v[1], v[2])
            return (v[0], v[1], v[2], parts)
        if v[0] in ('int', 'enum', 'str', 'fn', 'const'):
            return v
        return None

    def fold_table_call(self, env, name, argvals):
        """`TABLE.iter().find(|(k, _)| k == key).map(|(_, v)| *v)` over a table whose elements are known: the search is carried
        out element by element (the predicate's body is evaluated on each); None when anything stays undecided"""
        last = name.split('::')[-1]
        if last in ('iter', 'into_iter') and len(argvals) == 1 and ('slice' in name or 'IntoIterator' in name or 'array' in name):
            arr = self._deref_val(env, argvals[0])
            if isinstance(arr, tuple) and arr and arr[0] == 'agg' and str(arr[1]).startswith('Array') and len(arr[3]) <= 128:
                AbsInt._tbln = getattr(AbsInt, '_tbln', 0) + 1
                keys = []
                for i, e in enumerate(arr[3]):
                    k = '$tbl%d.%d' % (AbsInt._tbln, i)
                    env[k] = e
                    keys.append(k)
                return ('sliceiter', tuple(keys))
            return None
        if last in ('find', 'find_map', 'position', 'any') and len(argvals) == 2 and 'Iterator' in name:
            it = self._deref_val(env, argvals[0])
            if not (isinstance(it, tuple) and it and it[0] == 'sliceiter'):
                return None
            for i, k in enumerate(it[1]):
                arg = ('ref', k)
                if last == 'find':
                    env[k + '.r'] = arg
                    arg = ('ref', k + '.r')
                r = self.apply_closure_value(env, argvals[1], [arg])
                if r is None:
                    return None
                if last == 'find_map':
                    if r[0] == 'agg' and r[1] == 'core::option::Option' and r[2] == 'Some':
                        return r
                    if r[0] == 'agg' and r[1] == 'core::option::Option' and r[2] == 'None' or (r[0] == 'enum' and r[2] == 'None'):
                        continue
                    return None
                if r[0] != 'int':
                    return None
                if r[1]:
                    if last == 'find':
                        return ('agg', 'core::option::Option', 'Some', (('ref', k),))
                    if last == 'position':
                        return ('agg', 'core::option::Option', 'Some', (('int', i, 'usize'),))
                    return ('int', 1, 'bool')
            return ('int', 0, 'bool') if last == 'any' else ('agg', 'core::option::Option', 'None', ())
        if name.endswith(('Option::<T>::map', 'Option::<T>::and_then', 'Option::<T>::is_some_and')) and len(argvals) == 2:
            a0 = self._deref_val(env, argvals[0], 2) if argvals[0][0] != 'agg' else argvals[0]
            clo = self._deref_val(env, argvals[1])
            if isinstance(a0, tuple) and a0 and a0[0] == 'agg' and a0[1] == 'core::option::Option' and isinstance(clo, tuple) and clo and clo[0] == 'closure':
                if a0[2] == 'None':
                    return ('int', 0, 'bool') if last == 'is_some_and' else a0
                if a0[2] == 'Some' and a0[3]:
                    r = self.apply_closure_value(env, clo, [a0[3][0]])
                    if r is None:
                        return None
                    return r if last != 'map' else ('agg', 'core::option::Option', 'Some', (r,))
            return None
        if name.endswith('Option::<T>::map_or') and len(argvals) == 3:
            a0 = argvals[0]
            clo = self._deref_val(env, argvals[2])
            if a0[0] == 'agg' and a0[1] == 'core::option::Option':
                if a0[2] == 'None':
                    return argvals[1]
                if a0[2] == 'Some' and a0[3] and isinstance(clo, tuple) and clo and clo[0] == 'closure':
                    return self.apply_closure_value(env, clo, [a0[3][0]])
            return None
        if name.endswith(('Option::<T>::copied', 'Option::<T>::cloned', 'Option::<&T>::copied', 'Option::<&T>::cloned')) and len(argvals) == 1:
            a0 = argvals[0]
            if a0[0] == 'agg' and a0[1] == 'core::option::Option':
                if a0[2] == 'None':
                    return a0
                if a0[2] == 'Some' and a0[3] and a0[3][0][0] == 'ref' and a0[3][0][1] in env:
                    return ('agg', 'core::option::Option', 'Some', (env[a0[3][0][1]],))
            return None
        return None

    def eval_const_item(self, env, path):
        """value of a named constant of the crate (`const TABLE: [(A, B); n] = [..]`): its initialiser, evaluated once like a
        promoted constant (None when the facts carry no body for it)"""
        c = (getattr(self.facts, 'consts', None) or {}).get(path)
        if not c or not c.get('body'):
            return None
        key = '$const:' + path
        if key + '._0' in env:
            return env[key + '._0']
        saved = (getattr(self, '_proms', None), getattr(self, '_prom_prefix', '$'))
        self._proms, self._prom_prefix = c['body'].get('promoted') or [], key + ':'
        try:
            return self._eval_straight(env, c['body'], key, ('const', path, c.get('ty')))
        finally:
            self._proms, self._prom_prefix = saved

    def eval_promoted(self, env, idx):
        """value of a promoted constant: evaluate its (straight-line) body once"""
        key = getattr(self, '_prom_prefix', '$') + 'promoted%d' % idx
        if key + '._0' in env:
            return env[key + '._0']
        proms = getattr(self, '_proms', None)
        if proms is None:
            proms = self.fn.j.get('promoted') or []
        pj = next((p for p in proms if p['i'] == idx), None)
        if pj is None:
            return ('const', 'promoted[%d]' % idx, '?')
        return self._eval_straight(env, pj, key, ('const', 'promoted[%d]' % idx, '?'), idx)

    def _eval_straight(self, env, pj, key, dflt, idx=-1):
        penv = {}
        b = 0
        for _ in range(64):
            bl = pj['blocks'][b]
            for st in bl['stmts']:
                if st['k'] == 'assign':
                    val = self.eval_rv(penv, st['rv'], ('promoted', idx))
                    penv[self.resolve_key(penv, st['place'])] = val
            t = bl['term']
            if t['k'] == 'goto':
                b = t['target']
                continue
            if t['k'] == 'call' and t['target'] is not None:
                argvals = tuple(self.eval_op(penv, a) for a in t['args'])
                penv[self.resolve_key(penv, t['dest'])] = ('call', callee_name(t), argvals, -1)
                b = t['target']
                continue
            break
        res = penv.get('_0', dflt)
        # re-home the promoted's locals into the caller's environment under a private prefix
        for k, v in penv.items():
            if k.startswith('$'):
                env[k] = v          # a constant evaluated inside this one keeps its own name
            else:
                env[key + '.' + k] = self._rehome(v, key)
        return self._rehome(res, key)

    def _rehome(self, v, prefix):
        if isinstance(v, tuple) and v and v[0] == 'ref' and isinstance(v[1], str) and v[1].startswith('_'):
            return ('ref', prefix + '.' + v[1])
        return v

    def eval_rv(self, env, rv, where):
        k = rv['k']
        if k == 'use':
            return self.eval_op(env, rv['op'])
        if k in ('ref', 'rawptr'):
            key = self.resolve_key(env, rv['place'])
            return ('ref', key)
        if k == 'cast':
            v = self.eval_op(env, rv['op'])
            if v[0] == 'int':
                return ('int', v[1], rv['to'])
            if v[0] == 'discr' and v[1][0] == 'enum':
                d = self.discr_value(v[1][1], v[1][2])
                if d is not None:
                    return ('int', d, rv['to'])
            return ('cast', v, rv['to'], rv['ck'])
        if k == 'binop':
            l = self.eval_op(env, rv['l'])
            r = self.eval_op(env, rv['r'])
            if l[0] == 'int' and r[0] == 'int':
                a, b = l[1], r[1]
                opn = rv['op']
                try:
                    res = {'Eq': a == b, 'Ne': a != b, 'Lt': a < b, 'Le': a <= b, 'Gt': a > b,
                           'Ge': a >= b}.get(opn)
                    if res is not None:
                        return ('int', int(res), 'bool')
                    if opn in ('AddWithOverflow', 'SubWithOverflow', 'MulWithOverflow'):
                        r2 = {'A': a + b, 'S': a - b, 'M': a * b}[opn[0]]
                        return ('agg', 'tuple', None, (('int', r2, rv['lty']), ('int', 0, 'bool')))
                    res = {'Add': a + b, 'Sub': a - b, 'Mul': a * b, 'BitAnd': a & b,
                           'BitOr': a | b, 'Shl': a << b if 0 <= b < 128 else None,
                           'Shr': a >> b if 0 <= b < 128 else None}.get(opn)
                    if res is not None:
                        return ('int', res, rv['lty'])
                except Exception:
                    pass
            return ('binop', rv['op'], l, r, rv['lty'])
        if k == 'unop':
            x = self.eval_op(env, rv['x'])
            if rv['op'] == 'Not' and x[0] == 'int' and rv['xty'] == 'bool':
                return ('int', 1 - x[1], 'bool')
            return ('unop', rv['op'], x, rv['xty'])
        if k == 'discr':
            v = self.read_place(env, rv['place'])
            if v[0] == 'enum':
                d = self.discr_value(rv['enum'], v[2])
                if d is not None:
                    return ('int', d, 'discr')
            if v[0] == 'agg' and v[1] == rv['enum']:
                d = self.discr_value(rv['enum'], v[2])
                if d is not None:
                    return ('int', d, 'discr')
            if v[0] == 'call' and v[1].endswith('::from_residual') and v[1].startswith(('<core::result::Result<', '<core::option::Option<')) \
                    and rv['enum'] in ('core::result::Result', 'core::option::Option'):
                # what `?` built from a residual is the failure variant (Err / None)
                d = self.discr_value(rv['enum'], 'Err' if rv['enum'].endswith('Result') else 'None')
                if d is not None:
                    return ('int', d, 'discr')
            return ('discr_of', self.resolve_key(env, rv['place']), rv['enum'], v)
        if k == 'aggregate':
            vals = tuple(self.eval_op(env, o) for o in rv['ops'])
            if 'adt' in rv:
                a = self.facts.adts.get(rv['adt'])
                if a and a['kind'] == 'Enum' and not vals:
                    return ('enum', rv['adt'], rv['variant'])
                return ('agg', rv['adt'], rv['variant'], vals)
            if 'closure' in rv:
                return ('closure', rv['closure'], vals)
            return ('agg', rv.get('agg'), None, vals)
        return ('unknown', where)

    # -- driver -------------------------------------------------------------------------
    def run(self, start=0):
        p0 = Path()
        p0.env = dict(self.init_env)
        work = [(start, p0)]
        while work:
            if len(self.paths) + len(work) > self.max_paths:
                self.truncated = True
                break
            b, path = work.pop()
            self.step(b, path, work)
        return self.paths

    def finish(self, path, kind, b):
        path.exit = kind
        path.exit_block = b
        self.paths.append(path)

    def step(self, b, path, work):
        fn = self.fn
        while True:
            if b in self.stop_blocks and path.blocks:
                self.finish(path, 'stop', b)
                return
            if path.blocks.count(b) >= self.loop_bound:
                self.finish(path, 'loopcut', b)
                return
            path.blocks.append(b)
            bl = fn.blocks[b]
            env = path.env
            for si, st in enumerate(bl['stmts']):
                if st['k'] == 'assign':
                    val = self.eval_rv(env, st['rv'], (b, si))
                    key = self.resolve_key(env, st['place'])
                    self.write_key(env, key, val)
                    if st['place']['proj']:
                        path.writes.append((b, key, val, st))
                elif st['k'] == 'setdiscr':
                    pass
            t = bl['term']
            k = t['k']
            if b in self.watch:
                path.snaps.append((len(path.blocks) - 1, b, dict(env)))
            if k == 'goto':
                b = t['target']
                continue
            if k == 'return':
                self.finish(path, 'return', b)
                return
            if k in ('unreachable', 'resume', 'terminate'):
                self.finish(path, k, b)
                return
            if k == 'drop':
                path.calls.append((b, 'drop', (self.read_place(env, t['place']),), None, t))
                path.callpos.append(len(path.blocks) - 1)
                b = t['target']
                continue
            if k == 'assert':
                path.asserts.append((b, t['msg']))
                b = t['target']
                continue
            if k == 'call':
                name = callee_name(t)
                if name == '<fn pointer>' and t['callee'].get('indirect'):
                    # the pointer's value is known on this path (`binary_operator(op)` spliced in, `op` decided by the arm):
                    # the call is a call of that function
                    fv = self.eval_op(env, t['callee']['indirect'])
                    for _ in range(4):
                        if isinstance(fv, tuple) and fv and fv[0] == 'cast':
                            fv = fv[1]
                    if isinstance(fv, tuple) and fv and fv[0] == 'fn':
                        name = fv[1]
                        tj = self.facts.fns.get(name)
                        t = dict(t, callee={'path': name, 'resolved': name, 'local': tj is not None, 'resolved_local': tj is not None,
                                            'krate': 'nederlang' if tj is not None else None, 'resolved_kind': 'Item', 'devirtualized': 'path',
                                            'unsafe': bool(tj.j.get('unsafe')) if tj is not None else False, 'generic_args': '[]'})
                argvals = tuple(self.eval_op(env, a) for a in t['args'])
                dkey = self.resolve_key(env, t['dest'])
                path.calls.append((b, name, argvals, dkey, t))
                path.callpos.append(len(path.blocks) - 1)
                res = None
                if self.decide_call:
                    # callbacks that fold std predicates need the values behind `&self` arguments
                    def _dr(a_):
                        if isinstance(a_, tuple) and a_ and a_[0] == 'ref':
                            if a_[1] in env:
                                return env[a_[1]]
                            if a_[1].endswith('.*') and a_[1][:-2] in env:
                                return ('deref', env[a_[1][:-2]])      # a reborrow of what an (opaque) pointer value designates
                        return a_
                    ad = tuple(_dr(a_) for a_ in argvals)
                    if ad != argvals:
                        t = dict(t)
                        t['argvals_deref'] = ad
                    res = self.decide_call(name, argvals, t)
                    t = bl['term']
                if res is None and name.endswith(('Option::<T>::ok_or_else', 'Option::<T>::ok_or')) and argvals and argvals[0][0] == 'agg' \
                        and argvals[0][1] == 'core::option::Option':
                    # Some(v) -> Ok(v); None -> Err(<whatever the closure / argument gives>)
                    if argvals[0][2] == 'Some':
                        res = ('agg', 'core::result::Result', 'Ok', argvals[0][3])
                    else:
                        res = ('agg', 'core::result::Result', 'Err', (('call', name, argvals, b),))
                if res is None and len(argvals) == 2 and name.endswith(('PartialEq>::eq', 'PartialEq::eq', 'PartialEq>::ne', 'PartialEq::ne', 'PartialEq<&B> for &A>::eq', 'PartialEq<&B> for &A>::ne', 'PartialEq for str>::eq', 'PartialEq for str>::ne')):
                    # comparison of two known field-less enum values (derived PartialEq compares the discriminants)
                    ab = []
                    for a_ in argvals:
                        for _ in range(4):
                            if a_[0] == 'ref' and a_[1] in env:
                                a_ = env[a_[1]]
                            elif a_[0] == 'ref':
                                # a borrow of a field of a known aggregate (`&symbol.scope`)
                                m_ = re.match(r'^(.*)\.f(\d+)$', a_[1])
                                base_ = env.get(m_.group(1)) if m_ else None
                                if base_ is not None and base_[0] == 'agg' and int(m_.group(2)) < len(base_[3]):
                                    a_ = base_[3][int(m_.group(2))]
                        if a_[0] == 'agg' and a_[2] and not a_[3] and a_[1] in self.facts.adts:
                            a_ = ('enum', a_[1], a_[2])          # a field-less variant written out (`Operator::Add` in a constant table)
                        ab.append(a_)
                    if ab[0][0] == 'str' and ab[1][0] == 'str':
                        res = ('int', int((ab[0][1] == ab[1][1]) != name.endswith('ne')), 'bool')        # two string literals
                    elif ab[0][0] == 'enum' and ab[1][0] == 'enum' and ab[0][1] == ab[1][1]:
                        eq_ = ab[0][2] == ab[1][2]
                        res = ('int', int(eq_ != name.endswith('ne')), 'bool')
                    elif name.startswith(('<core::option::Option<', 'core::cmp::')) or 'core::option::Option' in name:
                        # Option<constant> values: equal iff same variant and same constant payload
                        eq_ = const_eq(ab[0], ab[1])
                        if eq_ is not None:
                            res = ('int', int(eq_ != name.endswith('ne')), 'bool')
                if res is None and argvals and name.endswith(('Option::<T>::is_none', 'Option::<T>::is_some', 'Result::<T, E>::is_ok', 'Result::<T, E>::is_err')):
                    # a test of which variant a known Option / Result is
                    a0 = argvals[0]
                    for _ in range(3):
                        if a0[0] == 'ref' and a0[1] in env:
                            a0 = env[a0[1]]
                    if a0[0] == 'agg' and a0[1] in ('core::result::Result', 'core::option::Option') and a0[2] in ('Ok', 'Err', 'Some', 'None'):
                        want = {'is_none': 'None', 'is_some': 'Some', 'is_ok': 'Ok', 'is_err': 'Err'}[name.split('::')[-1]]
                        res = ('int', int(a0[2] == want), 'bool')
                if res is None and len(argvals) == 1 and argvals[0][0] == 'int' and name.endswith('::from') and _INT_FROM_RE.search(name):
                    res = ('int', argvals[0][1], 'usize')          # usize::from(true) is 1: a lossless integer conversion of a constant
                if res is None and name.endswith(('Option::<T>::unwrap_or', 'Option::<T>::unwrap_or_default', 'Option::<T>::unwrap', 'Option::<T>::expect')) and argvals:
                    a0 = argvals[0]
                    for _ in range(3):
                        if a0[0] == 'ref' and a0[1] in env:
                            a0 = env[a0[1]]
                    if a0[0] == 'agg' and a0[1] == 'core::option::Option' and a0[2] == 'Some' and a0[3]:
                        res = a0[3][0]          # Some(x).unwrap_or(d) is x
                    elif a0[0] == 'agg' and a0[1] == 'core::option::Option' and a0[2] == 'None' and name.endswith('::unwrap_or') and len(argvals) > 1:
                        res = argvals[1]        # None.unwrap_or(d) is d
                if res is None and name.endswith(('Result::<T, E>::map', 'Option::<T>::map')) and len(argvals) == 2 and argvals[1][0] == 'fn':
                    # `known.map(Object::bool)`: a plain function applied to the payload of a value whose variant is known
                    a0 = argvals[0]
                    if a0[0] == 'agg' and a0[1] in ('core::result::Result', 'core::option::Option'):
                        if a0[2] in ('Ok', 'Some') and a0[3]:
                            inner = ('call', argvals[1][1], (a0[3][0],), b)
                            path.calls.append((b, argvals[1][1], (a0[3][0],), dkey, dict(t, callee={'path': argvals[1][1], 'resolved': argvals[1][1], 'via': name}, args=[t['args'][0]])))
                            path.callpos.append(len(path.blocks) - 1)
                            res = ('agg', a0[1], a0[2], (inner,))
                        elif a0[2] in ('Err', 'None'):
                            res = a0
                if res is None and len(argvals) == 1 and name in ('core::str::<impl str>::len', 'core::str::<impl str>::is_empty'):
                    a0 = self._deref_val(env, argvals[0])
                    if isinstance(a0, tuple) and a0 and a0[0] == 'str':
                        n_ = len(a0[1].encode('utf-8'))         # the length of a string literal, in bytes
                        res = ('int', n_, 'usize') if name.endswith('len') else ('int', int(n_ == 0), 'bool')
                if res is None:
                    res = self.fold_table_call(env, name, argvals)
                if res is None and name.endswith(('Option::<T>::unwrap_or_else', 'Option::<T>::map_or_else')) and len(argvals) >= 2 and argvals[0][0] == 'agg' \
                        and argvals[0][1] == 'core::option::Option' and name.endswith('unwrap_or_else'):
                    # Some(x).unwrap_or_else(f) is x; None.unwrap_or_else(Object::null) is Object::null()
                    if argvals[0][2] == 'Some' and argvals[0][3]:
                        res = argvals[0][3][0]
                    elif argvals[0][2] == 'None' and argvals[1][0] == 'fn':
                        res = ('call', argvals[1][1], (), b)
                        path.calls.append((b, argvals[1][1], (), dkey, dict(t, callee={'path': argvals[1][1], 'resolved': argvals[1][1], 'via': name}, args=[])))
                        path.callpos.append(len(path.blocks) - 1)
                if res is None and name.endswith('Try>::branch') and argvals and argvals[0][0] == 'agg' and \
                        argvals[0][1] in ('core::result::Result', 'core::option::Option') and argvals[0][2] in ('Ok', 'Err', 'Some', 'None'):
                    a0 = argvals[0]
                    if a0[2] in ('Ok', 'Some'):
                        res = ('agg', 'core::ops::control_flow::ControlFlow', 'Continue', a0[3])
                    else:
                        res = ('agg', 'core::ops::control_flow::ControlFlow', 'Break', (('agg', a0[1], a0[2], a0[3]),))
                if res is None and name.endswith('Try>::branch') and argvals and argvals[0][0] == 'call' and \
                        argvals[0][1].endswith('::from_residual') and argvals[0][1].startswith(('<core::result::Result<', '<core::option::Option<')):
                    # a value built by `?` from a residual is an Err: its own `?` propagates it
                    res = ('agg', 'core::ops::control_flow::ControlFlow', 'Break', (argvals[0],))
                if res is None:
                    res = ('call', name, argvals, b)
                self.write_key(env, dkey, res)
                if t['target'] is None:
                    self.finish(path, 'diverge', b)
                    return
                b = t['target']
                continue
            if k == 'switch':
                v = self.eval_op(env, t['op'])
                targets = t['targets']
                if v[0] == 'int':
                    nb = t['otherwise']
                    for val, tb in targets:
                        if val == v[1]:
                            nb = tb
                            break
                    b = nb
                    continue
                # fork
                opts = [(val, tb) for val, tb in targets] + [(None, t['otherwise'])]
                # group by target? keep per value for constraints
                first = True
                forks = []
                for val, tb in opts:
                    np = path.clone()
                    if v[0] == 'discr_of':
                        if val is not None:
                            var = self.variant_of_discr(v[2], val)
                        else:
                            taken = {x for x, _ in targets}
                            a = self.facts.adts.get(v[2])
                            rest = []
                            if not a and isinstance(STD_ENUMS.get(v[2]), dict):
                                named = {STD_ENUMS[v[2]].get(x) for x in taken}
                                rest = [n for n in dict.fromkeys(STD_ENUMS[v[2]].values()) if n not in named]
                            elif not a and STD_ENUMS.get(v[2]):
                                rest = [n for i, n in enumerate(STD_ENUMS[v[2]]) if i not in taken]
                            if a:
                                for i, vv in enumerate(a['variants']):
                                    dv = vv['discr'] if vv['discr'] is not None else i
                                    if dv not in taken:
                                        rest.append(vv['name'])
                            if not rest:
                                continue   # otherwise-branch is unreachable: all variants listed
                            var = 'otherwise:' + '|'.join(rest)
                            if len(rest) == 1:
                                var = rest[0]
                        np.constraints.append((('variant', v[1], v[2], v[3]), var, b))
                        np.cpos.append(len(path.blocks) - 1)
                        if var and not var.startswith('otherwise:'):
                            # remember the variant of that place for later discriminant reads
                            old = np.env.get(v[1])
                            if old is None or old[0] not in ('agg',):
                                np.env[v[1] + '#variant'] = var
                    else:
                        np.constraints.append((('switch', v), val, b))
                        np.cpos.append(len(path.blocks) - 1)
                    forks.append((tb, np))
                for tb, np in reversed(forks):
                    work.append((tb, np))
                return
            # other terminators
            self.finish(path, 'other:' + k, b)
            return


# ----------------------------------------------------------------------------------------
# symbolic-value tree helpers
# ----------------------------------------------------------------------------------------
def const_eq(a, b):
    """True/False when both values are fully constant (ints, field-less enum values, Option aggregates of those), else None"""
    def norm(v):
        if not isinstance(v, tuple) or not v:
            return None
        if v[0] == 'int':
            return ('int', v[1])
        if v[0] == 'enum':
            return ('enum', v[1], v[2], ())
        if v[0] == 'agg':
            xs = tuple(norm(x) for x in v[3])
            if any(x is None for x in xs):
                return None
            return ('enum', v[1], v[2], xs)
        return None
    # two values of one enum built with different variants are different whatever they carry (`Some(x) == None`)
    if isinstance(a, tuple) and isinstance(b, tuple) and a and b and a[0] in ('agg', 'enum') and b[0] in ('agg', 'enum') and a[1] == b[1] and a[2] != b[2] \
            and a[2] is not None and b[2] is not None:
        return False
    na, nb = norm(a), norm(b)
    if na is None or nb is None:
        return None
    return na == nb


def uncast(v):
    while isinstance(v, tuple) and v and v[0] == 'cast':
        v = v[1]
    return v


def cast_types(v):
    out = []
    while isinstance(v, tuple) and v and v[0] == 'cast':
        out.append((v[2], v[3]))
        v = v[1]
    return out


def subtrees(v):
    if isinstance(v, tuple) and v:
        yield v
        for x in v:
            if isinstance(x, tuple):
                for y in subtrees(x):
                    yield y


def is_binop(v, op=None):
    return isinstance(v, tuple) and v and v[0] == 'binop' and (op is None or v[1] == op)


def int_of(v):
    v = uncast(v)
    if isinstance(v, tuple) and v and v[0] == 'int':
        return v[1]
    return None


def show(v, depth=0):
    """compact rendering of a symbolic value"""
    if not isinstance(v, tuple) or not v:
        return str(v)
    k = v[0]
    if k == 'int':
        return '%s_%s' % (v[1], v[2])
    if k == 'local':
        return '_%d' % v[1]
    if k == 'enum':
        return '%s::%s' % (v[1].split('::')[-1], v[2])
    if k == 'cast':
        return '(%s as %s)' % (show(v[1]), v[2])
    if k == 'binop':
        return '%s(%s, %s)' % (v[1], show(v[2]), show(v[3]))
    if k == 'unop':
        return '%s(%s)' % (v[1], show(v[2]))
    if k == 'field':
        return '%s.%s' % (show(v[1]), v[2])
    if k == 'call':
        return '%s(%s)@bb%s' % (v[1].split('::')[-1], ', '.join(show(a) for a in v[2]), v[3])
    if k == 'ref':
        return '&%s' % v[1]
    if k == 'agg':
        return '%s::%s{%s}' % (v[1], v[2], ', '.join(show(a) for a in v[3]))
    if k == 'discr_of':
        return 'discr(%s)' % v[1]
    if k == 'str':
        return repr(v[1])
    return '%s(%s)' % (k, ', '.join(show(a) if isinstance(a, tuple) else str(a) for a in v[1:]))


def ret_exprs(facts, fn, init_env=None, **kw):
    """[(path, value of the return place)] for every path that returns"""
    ai = AbsInt(facts, fn, init_env or {}, **kw)
    out = []
    for p in ai.run():
        if p.exit == 'return':
            out.append((p, p.env.get('_0')))
    if ai.truncated:
        raise CheckerError('path enumeration truncated in %s' % fn.path)
    return out


def simp(v):
    """rewrite the `?` desugaring: downcast(branch(X), Continue).0 -> ('okval', X);
    from_residual(downcast(branch(X), Break).0) -> ('errof', X)"""
    if not isinstance(v, tuple):
        return v
    if v and v[0] == 'field' and isinstance(v[1], tuple) and v[1][0] == 'downcast' and v[2] == '0':
        inner = v[1][1]
        if isinstance(inner, tuple) and inner[0] == 'call' and inner[1].endswith('Try>::branch'):
            x = simp(inner[2][0])
            return ('okval', x) if v[1][2] == 'Continue' else ('errval', x)
        # the same payloads taken by a `match` on the Result / Option itself (a written-out combinator): (X as Ok).0 / (X as Err).0
        if isinstance(inner, tuple) and inner and inner[0] == 'call' and v[1][2] in ('Ok', 'Some'):
            return ('okval', simp(inner))
        if isinstance(inner, tuple) and inner and inner[0] == 'call' and v[1][2] == 'Err':
            return ('errval', simp(inner))
    if v and v[0] == 'call' and 'from_residual' in v[1]:
        a = simp(v[2][0])
        if a[0] == 'errval':
            return ('errof', a[1])
        return ('errof', a)
    if v and v[0] == 'agg' and v[1] == 'core::result::Result' and v[2] == 'Err' and len(v[3]) == 1:
        a = simp(v[3][0])
        if isinstance(a, tuple) and a and a[0] == 'errval':
            return ('errof', a[1])      # Err(e) rebuilt from the Err(e) of X: X's error handed on
    return tuple(simp(x) if isinstance(x, tuple) else x for x in v)


# ----------------------------------------------------------------------------------------
# liveness of selected locals (backward dataflow over normal edges)
# ----------------------------------------------------------------------------------------
def _ops_locals(x, acc):
    if isinstance(x, dict):
        if 'local' in x and 'proj' in x:
            acc.add(x['local'])
            for e in x['proj']:
                if isinstance(e, dict) and 'index' in e:
                    acc.add(e['index'])
        for v in x.values():
            _ops_locals(v, acc)
    elif isinstance(x, list):
        for v in x:
            _ops_locals(v, acc)


def block_use_def(fn, b, interesting):
    """(use-before-def set, def set) of a block for the interesting locals; a write through a projection is a use"""
    use, dfn = set(), set()
    bl = fn.blocks[b]

    def use_of(x):
        acc = set()
        _ops_locals(x, acc)
        for l in acc:
            if l in interesting and l not in dfn:
                use.add(l)
    for st in bl['stmts']:
        if st['k'] == 'assign':
            use_of(st['rv'])
            pl = st['place']
            if pl['proj']:
                use_of(pl)
            elif pl['local'] in interesting:
                dfn.add(pl['local'])
        elif st['k'] == 'dead':
            if st['local'] in interesting:
                dfn.add(st['local'])
    t = bl['term']
    if t['k'] == 'call':
        use_of(t['args'])
        use_of(t['callee'].get('indirect'))
        if not t['dest']['proj'] and t['dest']['local'] in interesting:
            pass
    elif t['k'] == 'switch':
        use_of(t['op'])
    elif t['k'] == 'assert':
        use_of(t['cond'])
    elif t['k'] == 'drop':
        use_of(t['place'])
    elif t['k'] == 'return':
        if 0 in interesting and 0 not in dfn:
            use.add(0)
    return use, dfn


def live_after_call(fn, call_block, interesting):
    """interesting locals live at the start of the call's normal successor (i.e. possibly used after the call)"""
    blocks = sorted(fn.normal_blocks())
    ud = {b: block_use_def(fn, b, interesting) for b in blocks}
    # the destination of a call is defined at the edge to its target: treat as def at the start of the successor
    live_in = {b: set() for b in blocks}
    changed = True
    while changed:
        changed = False
        for b in reversed(blocks):
            out = set()
            for s in fn.succ(b):
                if s in live_in:
                    li = set(live_in[s])
                    out |= li
            t = fn.term(b)
            if t['k'] == 'call' and not t['dest']['proj']:
                out.discard(t['dest']['local'])
            use, dfn = ud[b]
            new = use | (out - dfn)
            if new != live_in[b]:
                live_in[b] = new
                changed = True
    t = fn.term(call_block)
    tgt = t.get('target')
    res = set(live_in.get(tgt, set())) if tgt is not None else set()
    if not t['dest']['proj']:
        res.discard(t['dest']['local'])
    return res
