"""mirlib — loading the nlfacts JSON and generic CFG / dataflow helpers used by the rules.

Everything here works on the *facts* (MIR of /repo's current tree as dumped by the nlfacts
driver); nothing executes code of the crate.
"""
import json
from collections import defaultdict, deque


class CheckerError(Exception):
    """The checker itself cannot give a verdict (missing anchor, unknown construct)."""


# ----------------------------------------------------------------------------------------
# operands / places
# ----------------------------------------------------------------------------------------
def op_place(op):
    return op.get('place') if op and op.get('k') in ('copy', 'move') else None


def op_local(op):
    """local index when the operand is a bare local (no projection)"""
    p = op_place(op)
    if p is not None and not p['proj']:
        return p['local']
    return None


def op_base_local(op):
    p = op_place(op)
    return p['local'] if p is not None else None


def op_const(op):
    return op if op and op.get('k') == 'const' else None


def place_fields(p):
    """names of field projections of a place, in order"""
    return [e['name'] for e in p['proj'] if isinstance(e, dict) and 'field' in e]


def place_str(fn, p):
    """readable rendering of a place with debug names"""
    base = fn.local_name(p['local'])
    out = base
    for e in p['proj']:
        if e == 'deref':
            out = '(*%s)' % out
        elif isinstance(e, dict) and 'field' in e:
            out = '%s.%s' % (out, e['name'])
        elif isinstance(e, dict) and 'index' in e:
            out = '%s[%s]' % (out, fn.local_name(e['index']))
        elif isinstance(e, dict) and 'downcast' in e:
            out = '(%s as %s)' % (out, e['downcast'])
        else:
            out = '%s.<%s>' % (out, e)
    return out


# ----------------------------------------------------------------------------------------
class Fn:
    def __init__(self, j, crate):
        self.j = j
        self.crate = crate
        self.path = j['path']
        self.blocks = j['blocks']
        self.locals = j['locals']
        self.arg_count = j['arg_count']
        self.span = j['span']
        self.kind = j['def_kind']
        self._succ = None
        self._pred = None
        self._dom = None
        self._pdom = None
        self._defs = None

    # -- naming ---------------------------------------------------------------------
    def local_name(self, i):
        n = self.locals[i].get('name')
        return n if n else '_%d' % i

    def local_ty(self, i):
        return self.locals[i]['ty']

    def loc(self):
        return '%s:%d' % (short_file(self.span['file']), self.span['line'])

    # -- CFG --------------------------------------------------------------------------
    def term(self, b):
        return self.blocks[b]['term']

    def succs_of_term(self, t, unwind=False):
        k = t['k']
        out = []
        if k == 'goto':
            out = [t['target']]
        elif k == 'switch':
            out = [x[1] for x in t['targets']] + [t['otherwise']]
        elif k in ('call', 'drop', 'assert'):
            if t.get('target') is not None:
                out = [t['target']]
            if unwind and t.get('unwind') is not None:
                out.append(t['unwind'])
        return out

    def succ(self, b, unwind=False):
        if unwind:
            return self.succs_of_term(self.term(b), True)
        if self._succ is None:
            self._succ = [self.succs_of_term(bl['term']) for bl in self.blocks]
        return self._succ[b]

    def pred(self, b):
        if self._pred is None:
            self._pred = [[] for _ in self.blocks]
            for i in range(len(self.blocks)):
                for s in self.succ(i):
                    self._pred[s].append(i)
        return self._pred[b]

    def reachable(self, start=0, stop=(), unwind=False):
        """blocks reachable from start without entering blocks in `stop`"""
        seen = set()
        st = [start]
        while st:
            b = st.pop()
            if b in seen or b in stop:
                continue
            seen.add(b)
            st.extend(self.succ(b, unwind) if unwind else self.succ(b))
        return seen

    def normal_blocks(self):
        return self.reachable(0)

    def dominators(self):
        """dict block -> set of dominators (normal edges only, from block 0)"""
        if self._dom is not None:
            return self._dom
        nodes = sorted(self.normal_blocks())
        allset = set(nodes)
        dom = {n: set(allset) for n in nodes}
        dom[0] = {0}
        changed = True
        order = self.rpo()
        while changed:
            changed = False
            for n in order:
                if n == 0:
                    continue
                ps = [p for p in self.pred(n) if p in dom]
                if not ps:
                    continue
                new = set.intersection(*[dom[p] for p in ps]) | {n}
                if new != dom[n]:
                    dom[n] = new
                    changed = True
        self._dom = dom
        return dom

    def rpo(self):
        seen = set()
        out = []

        def dfs(b):
            stack = [(b, iter(self.succ(b)))]
            seen.add(b)
            while stack:
                node, it = stack[-1]
                adv = False
                for s in it:
                    if s not in seen:
                        seen.add(s)
                        stack.append((s, iter(self.succ(s))))
                        adv = True
                        break
                if not adv:
                    out.append(node)
                    stack.pop()
        dfs(0)
        out.reverse()
        return out

    def dominates(self, a, b):
        d = self.dominators()
        return b in d and a in d[b]

    def back_edges(self):
        d = self.dominators()
        res = []
        for b in d:
            for s in self.succ(b):
                if s in d[b]:
                    res.append((b, s))
        return res

    def natural_loops(self):
        """list of (header, set(body blocks)) merged per header"""
        loops = {}
        for (tail, head) in self.back_edges():
            body = {head, tail}
            st = [tail]
            while st:
                n = st.pop()
                if n == head:
                    continue
                for p in self.pred(n):
                    if p not in body:
                        body.add(p)
                        st.append(p)
            loops.setdefault(head, set()).update(body)
        return sorted(loops.items())

    # -- iteration ----------------------------------------------------------------------
    def calls(self, blocks=None):
        for i, bl in enumerate(self.blocks):
            if blocks is not None and i not in blocks:
                continue
            t = bl['term']
            if t['k'] == 'call':
                yield i, t

    def stmts(self, blocks=None):
        for i, bl in enumerate(self.blocks):
            if blocks is not None and i not in blocks:
                continue
            for si, st in enumerate(bl['stmts']):
                yield i, si, st

    # -- simple def map -----------------------------------------------------------------
    def defs(self):
        """local -> list of ('assign', block, stmt_idx, rv) | ('call', block, term)"""
        if self._defs is not None:
            return self._defs
        d = defaultdict(list)
        for b, si, st in self.stmts():
            if st['k'] == 'assign' and not st['place']['proj']:
                d[st['place']['local']].append(('assign', b, si, st['rv']))
        for b, t in self.calls():
            if not t['dest']['proj']:
                d[t['dest']['local']].append(('call', b, t))
        self._defs = d
        return d

    def single_def(self, local):
        ds = self.defs().get(local, [])
        return ds[0] if len(ds) == 1 else None

    def resolve_copy(self, op, depth=12):
        """follow `_a = move _b` / `_a = copy _b` chains of single-definition temporaries;
        returns the final operand (const or place operand)"""
        cur = op
        for _ in range(depth):
            l = op_local(cur)
            if l is None:
                return cur
            if l <= self.arg_count and l != 0:
                return cur
            d = self.single_def(l)
            if d is None or d[0] != 'assign':
                return cur
            rv = d[3]
            if rv['k'] == 'use':
                cur = rv['op']
                continue
            return cur
        return cur

    def def_rvalue(self, op, depth=12):
        """the rvalue (or call terminator) that defines the operand's local, through copies"""
        cur = self.resolve_copy(op, depth)
        l = op_local(cur)
        if l is None:
            return None
        d = self.single_def(l)
        return d


def callee_name(t):
    """best name of the function a call terminator will run"""
    c = t['callee']
    return c.get('resolved') or c.get('path')


def callee_paths(t):
    c = t['callee']
    return {c.get('path'), c.get('resolved')} - {None}


def short_file(f):
    if f.startswith('/'):
        for marker in ('/src/',):
            k = f.find(marker)
            if k >= 0 and '/rustlib/' not in f and '/.cargo/' not in f:
                return f[k + 1:]
    return f


def span_loc(sp):
    return '%s:%d' % (short_file(sp['file']), sp['line'])


class Facts:
    def __init__(self, lib_path, bin_path=None):
        self.lib = json.load(open(lib_path))
        self.bin = json.load(open(bin_path)) if bin_path else None
        self.fns = {}
        self.all_fns = []
        for crate, d in (('lib', self.lib), ('bin', self.bin)):
            if not d:
                continue
            for fj in d['fns']:
                f = Fn(fj, crate)
                key = f.path if crate == 'lib' else 'bin::' + f.path
                # closures have unique paths ({closure#n}); keep first on collision
                self.fns.setdefault(key, f)
                self.all_fns.append(f)
        self.adts = {a['path']: a for a in self.lib['adts']}
        self.consts = {c['path']: c for c in self.lib['consts']}
        self.impls = self.lib['impls']
        self.statics = self.lib['statics'] + (self.bin['statics'] if self.bin else [])

    def fn(self, path):
        f = self.fns.get(path)
        if f is None:
            raise CheckerError('anchor function %s not found in the facts' % path)
        return f

    def find_fns(self, pred):
        return [f for f in self.all_fns if pred(f)]

    def adt(self, path):
        a = self.adts.get(path)
        if a is None:
            raise CheckerError('anchor type %s not found' % path)
        return a

    def enum_variants(self, path):
        return [(v['name'], v['discr']) for v in self.adt(path)['variants']]

    def callers_of(self, path_pred):
        """[(fn, block, term)] of call sites whose resolved callee satisfies pred"""
        out = []
        for f in self.all_fns:
            for b, t in f.calls():
                if any(path_pred(p) for p in callee_paths(t)):
                    out.append((f, b, t))
        return out

    def call_graph(self):
        g = defaultdict(set)
        for f in self.all_fns:
            key = f.path if f.crate == 'lib' else 'bin::' + f.path
            for b, t in f.calls():
                for p in callee_paths(t):
                    g[key].add(p)
            # closures constructed in this body are attached to their parent
            for b, si, st in f.stmts():
                if st['k'] == 'assign' and st['rv']['k'] == 'aggregate' and 'closure' in st['rv']:
                    g[key].add(st['rv']['closure'])
            # function items mentioned as values (passed as fn pointers / generic args)
            for b, t in f.calls():
                for a in t['args']:
                    if a.get('k') == 'const' and 'fn' in a:
                        g[key].add(a['fn'])
        return g

    def reachable_fns(self, roots):
        g = self.call_graph()
        seen = set()
        st = list(roots)
        while st:
            n = st.pop()
            if n in seen:
                continue
            seen.add(n)
            st.extend(g.get(n, ()))
        return seen
