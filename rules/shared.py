"""rules shared between properties (each is reported under the rule id the caller passes)."""
import re
from mirlib import *

TYPE = 'object::Type'
W = 64


def tag_decider(name, argv, t):
    return None


def truth(c):
    """truth value of a bool switch constraint (value 0 = false, otherwise/1 = true)"""
    return not (c[1] == 0)


def _nav(env, key):
    """value of a composite place key (`_3.f0`, `_7@Some.f0`) when the longest stored prefix is a known aggregate"""
    toks = re.findall(r'(^_\d+|@\w+|\.f\d+)', key)
    if not toks or ''.join(toks) != key or len(toks) < 2:
        return None
    for cut in range(len(toks) - 1, 0, -1):
        pre = ''.join(toks[:cut])
        if pre in env:
            val = env[pre]
            for tk in toks[cut:]:
                if not isinstance(val, tuple) or not val:
                    return None
                if tk.startswith('@'):
                    if val[0] == 'agg' and val[2] == tk[1:]:
                        continue
                    return None
                i = int(tk[2:])
                if val[0] == 'agg' and i < len(val[3]):
                    val = val[3][i]
                else:
                    return None
            return val
    return None


def deref(env, v, depth=6):
    while depth and isinstance(v, tuple) and v and v[0] == 'ref':
        key = v[1]
        if key in env:
            v = env[key]
        elif _nav(env, key) is not None:
            v = _nav(env, key)
        elif key.startswith('_') and key[1:].isdigit():
            return ('local', int(key[1:]))
        elif key.endswith('.*') and key[:-2].startswith('_') and key[1:-2].isdigit():
            return ('deref', ('local', int(key[1:-2])))
        else:
            return ('mem', key)
        depth -= 1
    return v


def variant_constraints(path, enum=TYPE):
    return [(c[0][1], c[1]) for c in path.constraints if c[0][0] == 'variant' and c[0][2] == enum]


def is_param_word(v, i):
    """v is `(*param_i).0` or `param_i.0` (also when read through a reborrow made for a spliced-in helper)"""
    v = uncast(v)
    return v in (('field', ('deref', ('local', i)), '0'), ('field', ('local', i), '0'), ('field', ('mem', '_%d.*' % i), '0'),
                 ('mem', '_%d.*.f0' % i))


def is_param(v, i):
    v = uncast(v)
    return v in (('deref', ('local', i)), ('local', i), ('ref', '_%d.*' % i), ('ref', '_%d' % i), ('mem', '_%d.*' % i))


# ----------------------------------------------------------------------------------------
def check_object_eq(F, rep, rule, heap_types):
    """`==` and, when the type spells it out itself, `!=` of Object (see _check_eq_fn)"""
    _check_eq_fn(F, rep, rule, heap_types, '<object::Object as core::cmp::PartialEq>::eq', False)
    ne = '<object::Object as core::cmp::PartialEq>::ne'
    if ne in F.fns or ne in F.transparent_fns:
        _check_eq_fn(F, rep, rule, heap_types, ne, True)


def _check_eq_fn(F, rep, rule, heap_types, name, negate):
    """Object equality, read per path: what the path knows about the two tags when it answers, and what it answers.
    An answer is right when
      - `false` is given only where the two tags are known to differ,
      - the two words are compared only where the value is an immediate (the tag is part of the word and the encoding is
        injective, so equal words <=> equal values; arrays: identity, unspecified) - never for a float (NaN != NaN although
        the words are equal) or a string (equal contents in different allocations),
      - payloads are compared (by content) only where both tags are known to be that payload's type.
    The spelling of the tests (`!=` early return, `==` with else, `&&`, `match`), their order, and helpers the arms were moved
    into do not matter."""
    from rules.c05 import _tag_atoms
    from rules.unsafe_inv import same
    FALSE, TRUE = (('int', 1, 'bool'), ('int', 0, 'bool')) if negate else (('int', 0, 'bool'), ('int', 1, 'bool'))
    CMP = 'Ne' if negate else 'Eq'
    EQN = '<object::Object as core::cmp::PartialEq>::eq'
    fn = F.transparent_fns.get(name) or F.fn(name)
    ai = AbsInt(F, fn)
    paths = ai.run()
    PAYLOAD = ('object::Object::as_f64', 'object::Object::as_str', 'object::Object::as_vec', 'object::Object::get', 'object::Float::read', 'object::Array::read')
    tyvars = [n for n, _ in F.enum_variants(TYPE)]
    ALL = frozenset(tyvars)
    S, O = ('obj', 'param*', 1), ('obj', 'param*', 2)
    unsupported = []       # answers the tags do not support
    differ_paths = 0
    differ_ok = True
    seen = {}
    for p in paths:
        rel = None      # True: tags known equal, False: known different
        for c in p.constraints:
            if c[0][0] != 'switch':
                continue
            v = c[0][1]
            if v[0] == 'call' and v[1].endswith(('PartialEq::ne', 'PartialEq>::ne', 'PartialEq::eq', 'PartialEq>::eq')) and len(v[2]) == 2:
                a0, a1 = [deref(p.env, a) for a in v[2]]
                if a0[0] == 'call' and a0[1] == 'object::Object::tag' and a1[0] == 'call' and a1[1] == 'object::Object::tag':
                    rel = truth(c) != v[1].endswith('ne')
                    break
        poss = {1: set(ALL), 2: set(ALL)}
        for o_, ty, tv in _tag_atoms(p, p.env):
            for i, who in ((1, S), (2, O)):
                if same(o_, who) or o_ == ('obj', 'param', i):
                    if isinstance(ty, tuple):
                        poss[i] &= set(ty[1])
                    elif tv:
                        poss[i] &= {ty}
                    else:
                        poss[i] -= {ty}
        if not poss[1] or not poss[2]:
            continue            # the tests this path took on one value contradict each other: no execution takes it
        if rel is True:
            poss[1] = poss[2] = poss[1] & poss[2]
        differ = rel is False or not (poss[1] & poss[2])
        if p.exit != 'return':
            for var in (sorted(poss[1]) if len(poss[1]) == 1 else []):
                seen.setdefault(var, []).append((p, 'diverges', True, ''))
            continue
        r = p.env.get('_0')
        def word_cmp(r_):
            a_ = b_ = None
            if is_binop(r_, CMP) and r_[4] != 'f64':
                a_, b_ = r_[2], r_[3]
            elif r_ and r_[0] == 'call' and r_[1].endswith('ptr::eq') and len(r_[2]) == 2:
                a_, b_ = r_[2]
            return a_ is not None and ((is_param_word(a_, 1) and is_param_word(b_, 2)) or (is_param_word(a_, 2) and is_param_word(b_, 1)))
        if differ:
            differ_paths += 1
            # tags that differ make the words differ (the tag is part of the word): `false`, or the comparison of the two words
            if not (r == FALSE or word_cmp(r)) or any(c[1].startswith(PAYLOAD) for c in p.calls):
                differ_ok = False
            continue
        pairs = {(x, y) for x in poss[1] for y in poss[2] if rel is not True or x == y}
        # did the path find the two words identical (same box / same immediate)?
        identical = False
        for c in p.constraints:
            if c[0][0] == 'switch' and truth(c) and word_cmp(c[0][1] if not negate else None):
                identical = True
        # what is answered, and whether the tags established on the path allow that answer
        kind, ok, why = 'other', False, show(r)[:80]
        a = b = None
        delegated = False
        if negate and r and r[0] == 'unop' and r[1] == 'Not':
            inner = r[2]
            if inner[0] == 'call' and inner[1] == EQN and len(inner[2]) == 2 and {1, 2} == {i for i in (1, 2) for z in inner[2] if is_param(deref(p.env, z), i)}:
                delegated = True
        if is_binop(r, CMP) and r[4] != 'f64':
            a, b = r[2], r[3]
        elif r and r[0] == 'call' and r[1].endswith('ptr::eq') and len(r[2]) == 2:
            a, b = r[2]          # the word is a pointer-sized value: address comparison is word comparison
        if delegated:
            kind, ok, why = 'delegates', True, 'the negation of eq'
        elif r == FALSE and any(c[0][0] == 'switch' and truth(c) is False and word_cmp(c[0][1] if not negate else None) for c in p.constraints):
            # the path found the two words different (the identity test failed): for every type whose values are their word (the
            # immediates, and arrays, which are equal only to themselves) that IS the answer
            kind = 'word'
            imm = (ALL - set(heap_types)) | {'Array'}
            badp = sorted({x for x, y in pairs if x == y and x not in imm})
            ok = not badp
            why = 'answers `different` for different words where both values may be %s' % badp
        elif r == FALSE:
            kind, ok, why = 'false', False, 'answers `different` although the tags are not known to differ'
        elif r == TRUE and identical:
            # the same word: the same immediate, or the same box - equal for every type but a float (NaN != NaN)
            kind = 'identity'
            ok = not any(x == y == 'Float' for x, y in pairs)
            why = 'answers `equal` for identical words where both may be floats (a NaN is not equal to itself)'
        elif r == TRUE:
            kind, ok, why = 'true', False, 'answers `equal` without comparing anything'
        elif a is not None and ((is_param_word(a, 1) and is_param_word(b, 2)) or (is_param_word(a, 2) and is_param_word(b, 1))):
            kind = 'word'
            imm = (ALL - set(heap_types)) | {'Array'}
            # right for every pair of tags the path allows: different tags (different words), or the same immediate type
            badp = sorted({x for x, y in pairs if x == y and x not in imm})
            ok = not badp
            why = 'words compared where both values may be %s' % badp
        elif is_binop(r, CMP) and r[4] == 'f64':
            kind = 'Float'
            x, y = r[2], r[3]
            ok = x[0] == 'call' and y[0] == 'call' and x[1].startswith(('object::Object::as_f64', 'object::Float::read')) and y[1].startswith(('object::Object::as_f64', 'object::Float::read')) \
                and {1, 2} == {i for i in (1, 2) for z in (x, y) if is_param(deref(p.env, z[2][0]), i)} and poss[1] == poss[2] == {'Float'}
            why = 'float payloads compared where the tags may be %s / %s' % (sorted(poss[1]), sorted(poss[2]))
        elif r and ((r[0] == 'call' and 'PartialEq' in r[1] and r[1].endswith('ne') == negate) or (negate and r[0] == 'unop' and r[1] == 'Not' and r[2][0] == 'call' and 'PartialEq' in r[2][1] and r[2][1].endswith('eq'))):
            kind = 'String'
            r_ = r if r[0] == 'call' else r[2]
            args = [deref(p.env, deref(p.env, z)) for z in r_[2]]
            ok = all(z[0] == 'call' and z[1].startswith('object::Object::as_str') for z in args) and len(args) == 2 \
                and {1, 2} == {i for i in (1, 2) for z in args if is_param(deref(p.env, z[2][0]), i)} and poss[1] == poss[2] == {'String'}
            why = 'string payloads compared where the tags may be %s / %s' % (sorted(poss[1]), sorted(poss[2]))
        known = poss[1] if len(poss[1]) == 1 else poss[2] if len(poss[2]) == 1 else None
        if known is not None:
            # the path answers for the type only if both values can have it
            known = {v_ for v_ in known if (v_, v_) in pairs} or None
            if known is None:
                if not ok:
                    unsupported.append('%s (tags %s / %s)' % (show(r)[:40], '|'.join(sorted(poss[1])), '|'.join(sorted(poss[2]))))
                continue
        if known is None:
            # the path answers without knowing the type of either side
            if not ok:
                unsupported.append('%s (self may be %s)' % (show(r)[:40], '|'.join(sorted(poss[1]))))
            else:
                for var in sorted(poss[1] & poss[2]):
                    seen.setdefault(var, []).append((p, kind, ok, why))
            continue
        for var in sorted(known):
            seen.setdefault(var, []).append((p, kind, ok, why))
    rep.ob(not unsupported, rule, name, 'no answer before the tags are compared',
           'every answer rests on what the path knows about the two tags; answers given without that: %s' % unsupported[:3], fn.loc())
    rep.ob(differ_ok, rule, name, 'tag comparison first', 'where the tags are known to differ the answer is false and no payload is looked at (%d paths)' % differ_paths, fn.loc())
    for var in tyvars:
        ps = seen.get(var, [])
        if not ps:
            rep.bad(rule, name, 'arm ' + var, 'no path for Type::%s' % var, fn.loc())
            continue
        for p, kind, ok, why in ps:
            if kind == 'diverges':
                # diverging arm (unimplemented!) — not an equality answer; totality is C05's business
                rep.good(rule, name, 'arm %s (diverges)' % var, 'no comparison made (reported under C05)', fn.loc(), nontrivial=False)
                continue
            r = p.env.get('_0')
            if var == 'Array':
                # equality of arrays is unspecified (DESIGN 4.3 item 5): any non-crashing answer is accepted here
                rep.good(rule, name, 'arm Array (unspecified)', 'returns %s' % show(r)[:80], fn.loc(), nontrivial=False)
                continue
            if var in heap_types:
                ok2 = ok and kind in (var, 'delegates', 'identity')
                rep.ob(ok2, rule, name, 'arm ' + var, 'heap payloads are compared by content: ' + (show(r) if ok2 else why), fn.loc())
            else:
                ok2 = ok and kind in ('word', 'delegates', 'identity')
                rep.ob(ok2, rule, name, 'arm ' + var, 'immediates are compared by word: ' + (show(r) if ok2 else why), fn.loc())


# ----------------------------------------------------------------------------------------
SMALL_SOURCES = ('alloc::vec::Vec::<T, A>::len', 'core::str::<impl str>::len', 'core::iter::traits::iterator::Iterator::count',
                 'core::slice::<impl [T]>::len', 'alloc::string::String::len')


def _bounds_from_constraints(A, constraints, env):
    """(has_lower>=lo, has_upper<=hi) evidence for symbolic value A on a path"""
    lo = None
    hi = None
    for c in constraints:
        if c[0][0] != 'switch':
            continue
        cond = c[0][1]
        t = truth(c)
        if cond[0] == 'unop' and cond[1] == 'Not':
            cond = cond[2]
            t = not t
        if is_binop(cond):
            op, l, r = cond[1], cond[2], cond[3]
            lv, rv = deref(env, l), deref(env, r)
            isf = len(cond) > 4 and cond[4] in ('f64', 'f32')
            if isf and op in ('Lt', 'Le', 'Gt', 'Ge') and (uncast(lv) == uncast(A) or uncast(rv) == uncast(A)):
                # a comparison of doubles: the constant is what the compiled code computes (`MAX as f64` rounds), and the
                # bound on the TRUNCATED value follows from it: v <= c gives trunc(v) <= trunc(c), v < c gives trunc(v) <= trunc(pred(c))
                import math
                if uncast(lv) == uncast(A):
                    c = fold_f64(rv)
                else:
                    c = fold_f64(lv)
                    op = {'Lt': 'Gt', 'Gt': 'Lt', 'Le': 'Ge', 'Ge': 'Le'}[op]
                if c is None:
                    continue
                c = float(c)
                if c != c or c in (math.inf, -math.inf):
                    continue
                if (op, t) in (('Ge', True), ('Lt', False)):
                    k = int(c)          # trunc is monotone: v >= c gives trunc(v) >= trunc(c)
                    lo = max(lo, k) if lo is not None else k
                elif (op, t) in (('Gt', True), ('Le', False)):
                    k = int(math.nextafter(c, math.inf))
                    lo = max(lo, k) if lo is not None else k
                elif (op, t) in (('Le', True), ('Gt', False)):
                    k = int(c)
                    hi = min(hi, k) if hi is not None else k
                elif (op, t) in (('Lt', True), ('Ge', False)):
                    k = int(math.nextafter(c, -math.inf))
                    hi = min(hi, k) if hi is not None else k
                continue
            if uncast(lv) == uncast(A) and int_of(rv) is not None:
                k = int_of(rv)
            elif uncast(rv) == uncast(A) and int_of(lv) is not None:
                k = int_of(lv)
                op = {'Lt': 'Gt', 'Gt': 'Lt', 'Le': 'Ge', 'Ge': 'Le'}.get(op, op)
            else:
                # (A << s) >> s == A
                if op == 'Eq' and t:
                    for x, y in ((lv, rv), (rv, lv)):
                        if is_binop(x, 'Shr') and is_binop(x[2], 'Shl') and uncast(x[2][2]) == uncast(A) and uncast(y) == uncast(A):
                            s = int_of(x[3])
                            if s is not None and s == int_of(x[2][3]):
                                lo = -(1 << (W - 1 - s))
                                hi = (1 << (W - 1 - s)) - 1
                continue
            # A op k is `t`
            if (op, t) in (('Lt', False), ('Ge', True)):
                lo = max(lo, k) if lo is not None else k
            elif (op, t) in (('Gt', True), ('Le', False)):
                lo = max(lo, k + 1) if lo is not None else k + 1
            elif (op, t) in (('Gt', False), ('Le', True)):
                hi = min(hi, k) if hi is not None else k
            elif (op, t) in (('Lt', True), ('Ge', False)):
                hi = min(hi, k - 1) if hi is not None else k - 1
        elif cond[0] == 'call' and cond[1].endswith('contains') and t:
            # RangeInclusive::contains(&(lo..=hi), &A)
            args = [deref(env, a) for a in cond[2]]
            if len(args) == 2 and uncast(deref(env, args[1])) == uncast(A):
                rg = deref(env, args[0])
                if rg[0] == 'call' and rg[1].endswith('RangeInclusive::<Idx>::new'):
                    a, b = int_of(rg[2][0]), int_of(rg[2][1])
                    if a is not None and b is not None:
                        lo, hi = a, b
    return lo, hi


def check_int_encoder_range(ctx, rep, rule, only_prefix=None):
    """every value that enters the 61-bit integer encoding is provably in range at the call site of
    Object::int: a literal, a length, a bool, or dominated (on every path) by a real range test.
    `debug_assert!` does not count: the rule is evaluated on the facts of the release-like config as
    well, where the assertion is absent."""
    F = ctx.facts()
    SH = 3
    asint = ret_exprs(F, F.fn('object::Object::as_int'))
    if asint and is_binop(asint[0][1], 'Shr') and int_of(asint[0][1][3]) is not None:
        SH = int_of(asint[0][1][3])
    LO, HI = -(1 << (W - 1 - SH)), (1 << (W - 1 - SH)) - 1
    callers = F.callers_of(lambda p: p == 'object::Object::int')
    n = 0
    for fpath in sorted({c[0].path for c in callers}):
        if only_prefix and not fpath.startswith(only_prefix):
            continue
        fn = F.fn(fpath)
        big = len(fn.blocks) > 150
        sites = {}
        if big:
            # large bodies (the dispatch loop, compile_expression): look at the defining expression only
            for b, t in fn.calls():
                if 'object::Object::int' in callee_paths(t):
                    sites[b] = [(None, t)]
        else:
            ai = AbsInt(F, fn, max_paths=50000)
            for p in ai.run():
                for (b, name, argv, dk, t) in p.calls:
                    if name == 'object::Object::int':
                        sites.setdefault(b, []).append((p, argv[0]))
        ordinal = 0
        for b in sorted(sites):
            ordinal += 1
            n += 1
            term = fn.blocks[b]['term']
            loc = span_loc(term['span'])
            macro = (term['span'].get('macros') or [''])[-1]
            construct = 'Object::int#%d%s' % (ordinal, (' in ' + macro + '!') if macro else '')
            verdicts = []
            for p, A in sites[b]:
                if p is None:
                    # big body: classify by local definition
                    d = fn.def_rvalue(A['args'][0])
                    cls = 'unguarded'
                    if d and d[0] == 'assign' and d[3]['k'] == 'use' and d[3]['op'].get('k') == 'const':
                        cls = 'literal'
                    verdicts.append((cls, 'argument defined by %s' % (d[0] if d else 'unknown')))
                    continue
                a = uncast(deref(p.env, A))
                if a[0] == 'int':
                    verdicts.append(('literal' if LO <= a[1] <= HI else 'unguarded', show(a)))
                    continue
                if a[0] == 'call' and (a[1] in SMALL_SOURCES or a[1].endswith('::count') or a[1].endswith('::len')):
                    verdicts.append(('length', show(a)))
                    continue
                lo, hi = _bounds_from_constraints(A, p.constraints, p.env)
                if lo is not None and hi is not None and lo >= LO and hi <= HI:
                    verdicts.append(('range-checked', '%d <= v <= %d' % (lo, hi)))
                else:
                    verdicts.append(('unguarded', '%s (bounds on this path: %s..%s)' % (show(a), lo, hi)))
            bad = [v for v in verdicts if v[0] == 'unguarded']
            rep.ob(not bad, rule, fpath, construct,
                   'value entering the %d-bit integer encoding must be a literal, a length, or range-checked to [%d, %d]: %s' % (
                       W - SH, LO, HI, (bad or verdicts)[0][1]), loc)
    rep.count('object_int_call_sites', n)


def check_float_casts(ctx, rep, rule):
    """`f as isize` saturates (and maps NaN to 0): every FloatToInt cast in reachable code needs a dominating two-sided guard on the value"""
    from rules import psc
    F = ctx.facts()
    reach = psc.reachable(ctx, with_bin=False)
    n = 0
    for key in sorted(reach):
        fn = F.fns[key]
        if fn.crate != 'lib':
            continue
        ordn = 0
        for b, si, st in fn.stmts():
            if st['k'] == 'assign' and st['rv']['k'] == 'cast' and st['rv']['ck'] == 'FloatToInt':
                n += 1
                ordn += 1
                val = psc.strip(psc.sym(fn, st['rv']['op']))
                # `x.trunc() as isize` / `x.round()` ...: a guard on x bounds the rounded value as well when the bounds are integral
                # (rounding toward zero / to nearest never leaves an interval with integral ends that contains x)
                if val[0] == 'call' and val[1].endswith(('f64>::trunc', 'f64>::floor', 'f64>::ceil', 'f64>::round')) and len(val[2]) == 1:
                    val = psc.strip(val[2][0])
                lo = hi = False
                facts_ = list(psc.facts_at(fn, b))
                # `(lo..hi).contains(&v)` came out true: lo <= v and v < hi (NaN answers false)
                for f in list(facts_):
                    if f[0] == 'callbool' and f[2] is True and f[1][1].endswith(('Range::<Idx>::contains', 'RangeInclusive::<Idx>::contains')) and len(f[1][2]) == 2:
                        rg = psc.strip(f[1][2][0])
                        x_ = psc.strip(f[1][2][1])
                        if rg[0] == 'agg' and len(rg[3]) >= 2:
                            incl = 'RangeInclusive' in f[1][1]
                            facts_.append(('Ge', x_, rg[3][0], f[3], f[4], False))
                            facts_.append(('Le' if incl else 'Lt', x_, rg[3][1], f[3], f[4], False))
                        elif rg[0] == 'call' and rg[1].endswith('RangeInclusive::<Idx>::new') and len(rg[2]) == 2:
                            facts_.append(('Ge', x_, rg[2][0], f[3], f[4], False))
                            facts_.append(('Le', x_, rg[2][1], f[3], f[4], False))
                # `v.is_nan()` came out false: from here on a false `v <= lo` does mean `v > lo`
                not_nan = any(f[0] == 'callbool' and f[1][1].endswith('::is_nan') and f[2] is False and psc.strip(psc.unref(f[1][2][0])) == val for f in facts_)
                for f in facts_:
                    if f[0] in ('Gt', 'Ge', 'Lt', 'Le') and (not_nan or not (len(f) > 5 and f[5])):      # only comparisons that came out true exclude NaN
                        a, c = psc.strip(f[1]), psc.strip(f[2])
                        if a == val and f[0] in ('Gt', 'Ge'):
                            lo = True
                        if a == val and f[0] in ('Lt', 'Le'):
                            hi = True
                        if c == val and f[0] in ('Gt', 'Ge'):
                            hi = True
                        if c == val and f[0] in ('Lt', 'Le'):
                            lo = True
                rep.ob(lo and hi, rule, key, 'float->int cast#%d' % ordn, 'the value is bounded below and above by dominating comparisons that came out TRUE (a false `<=` does not exclude NaN) before the saturating cast (lower %s, upper %s)' % (lo, hi), span_loc(st['span']))
                if key.startswith('builtins::'):
                    # the guard must not reject a float whose truncation is a representable integer: the comparisons against
                    # constants are folded in IEEE double arithmetic (what the compiled code computes) and evaluated on the two
                    # extreme floats that still convert: the smallest f with trunc(f) >= MIN and the largest with trunc(f) <= MAX
                    LO, HI = int_range(F)
                    need_lo, need_hi = extreme_floats(LO, HI)
                    rejected = []
                    nfold = 0
                    for f in facts_:
                        if f[0] not in ('Gt', 'Ge', 'Lt', 'Le'):
                            continue
                        a, c = psc.strip(f[1]), psc.strip(f[2])
                        if a == val:
                            cst, op = fold_f64(f[2]), f[0]
                        elif c == val:
                            cst, op = fold_f64(f[1]), {'Gt': 'Lt', 'Ge': 'Le', 'Lt': 'Gt', 'Le': 'Ge'}[f[0]]
                        else:
                            continue
                        if cst is None:
                            continue
                        nfold += 1
                        for v in (need_lo, need_hi):
                            holds = {'Gt': v > cst, 'Ge': v >= cst, 'Lt': v < cst, 'Le': v <= cst}[op]
                            if not holds:
                                rejected.append('%r (truncates to %d, which is an integer of the language) fails `value %s %r`' % (v, int(v), {'Gt': '>', 'Ge': '>=', 'Lt': '<', 'Le': '<='}[op], cst))
                    rep.ob(not rejected, rule, key, 'float->int guard#%d accepts every convertible float' % ordn,
                           'the range guard, with its constants folded in double arithmetic, lets through the extreme floats whose truncation still fits [%d, %d] (%d comparisons against constants folded)%s' % (
                               LO, HI, nfold, ': ' + rejected[0] if rejected else ''), span_loc(st['span']))
    rep.count('float_to_int_casts', n)


def int_range(F):
    SH = 3
    asint = ret_exprs(F, F.fn('object::Object::as_int'))
    if asint and is_binop(asint[0][1], 'Shr') and int_of(asint[0][1][3]) is not None:
        SH = int_of(asint[0][1][3])
    return -(1 << (W - 1 - SH)), (1 << (W - 1 - SH)) - 1


def extreme_floats(LO, HI):
    import math
    lo = float(LO)
    while int(lo) < LO:
        lo = math.nextafter(lo, math.inf)
    while int(math.nextafter(lo, -math.inf)) >= LO:
        lo = math.nextafter(lo, -math.inf)
    hi = float(HI)
    while int(hi) > HI:
        hi = math.nextafter(hi, -math.inf)
    while int(math.nextafter(hi, math.inf)) <= HI:
        hi = math.nextafter(hi, math.inf)
    return lo, hi


def fold_f64(v, depth=0):
    """value of a constant f64 expression of the psc symbolic form (integer constants converted, + - * / applied in IEEE
    double arithmetic: Python floats are the same doubles), None when it is not a constant"""
    import struct
    if not isinstance(v, tuple) or not v or depth > 10:
        return None
    if v[0] == 'int':
        if len(v) > 2 and v[2] in ('f64', 'f32'):
            # an integer constant the interpreter has already carried through `as f64`: the conversion rounds
            return float(v[1])
        return v[1]
    if v[0] == 'const' and isinstance(v[1], str):
        m = re.fullmatch(r'(-?[0-9.eE+-]+|-?inf|NaN)f64', v[1].replace('const ', '').replace('_', ''))
        if m:
            try:
                return float(m.group(1))
            except ValueError:
                return None
        return None
    if v[0] == 'cast':
        x = fold_f64(v[1], depth + 1)
        if x is None:
            return None
        if v[2] in ('f64',):
            return float(x)
        if v[2] in ('f32',):
            return struct.unpack('f', struct.pack('f', float(x)))[0]
        if isinstance(x, int):
            return x
        return None
    if v[0] == 'ref':
        return fold_f64(v[1], depth + 1)
    if v[0] == 'binop' and v[1] in ('Add', 'Sub', 'Mul', 'Div'):
        a, b = fold_f64(v[2], depth + 1), fold_f64(v[3], depth + 1)
        if a is None or b is None or not (isinstance(a, float) and isinstance(b, float)):
            return None
        try:
            return {'Add': a + b, 'Sub': a - b, 'Mul': a * b, 'Div': a / b}[v[1]]
        except ZeroDivisionError:
            return None
    if v[0] == 'unop' and v[1] == 'Neg':
        x = fold_f64(v[2], depth + 1)
        return None if x is None else -x
    return None


def for_each_over(F, g, blocks, word, callees):
    """`<something derived from `word`>.iter()...for_each(|x| callee(.., x))`: the standard library runs the closure once per
    element; the closure (found through the value handed to for_each) calls one of `callees`"""
    from rules.psc import sym
    for b, t in g.calls(blocks):
        if not callee_name(t).endswith(('::for_each', '::try_for_each')) or len(t['args']) != 2:
            continue
        if word not in str(sym(g, t['args'][0])):
            continue
        d = g.def_rvalue(t['args'][1])
        cp = d[3].get('closure') if d and d[0] == 'assign' and d[3]['k'] == 'aggregate' else None
        cf = F.fns.get(cp) if cp else None
        if cf is not None and any(callee_name(t2) in callees for b2, t2 in cf.calls()):
            return True
    return False


class LocalFlow:
    """flow-insensitive derivation graph over the locals of one body: `a` derives from `b` when some statement or call computes a
    from b (moves, borrows, casts, aggregates, call results from their arguments, the target of a `&mut` argument from the other
    arguments).  Sub-slices taken with Index / get are followed unless `follow_index` is False."""

    def __init__(self, fn, follow_index=True):
        self.fn = fn
        self.derives = {}
        for b, si, st in fn.stmts():
            if st['k'] == 'assign':
                for l in self.locals_of(st['rv']):
                    self.edge(l, st['place']['local'])
        for b, t in fn.calls():
            name = callee_name(t)
            dest = t['dest']['local']
            argl = [op_base_local(a) for a in t['args']]
            ranged = 'ops::index::Index' in name or name.endswith('::get') or name.endswith('::get_unchecked')
            if follow_index or not ranged:
                for a in argl:
                    self.edge(a, dest)
            first_ty = fn.local_ty(argl[0]) if argl and argl[0] is not None else ''
            if argl and argl[0] is not None and '&' in first_ty and 'mut' in first_ty:
                tgt = self.mut_target(t['args'][0])
                for a in argl[1:]:
                    self.edge(a, tgt)

    def edge(self, src, dst):
        if src is not None and dst is not None and src != dst:
            self.derives.setdefault(dst, set()).add(src)

    @staticmethod
    def locals_of(rv):
        acc = set()

        def walk(x):
            if isinstance(x, dict):
                if 'local' in x and 'proj' in x:
                    acc.add(x['local'])
                    for e in x['proj']:
                        if isinstance(e, dict) and 'index' in e:
                            acc.add(e['index'])
                for v in x.values():
                    walk(v)
            elif isinstance(x, list):
                for v in x:
                    walk(v)
        walk(rv)
        return acc

    def mut_target(self, op):
        """base local of the place a `&mut` argument points at (through reborrow chains)"""
        fn = self.fn
        l = op_base_local(op)
        for _ in range(12):
            if l is None:
                return None
            d = fn.single_def(l)
            if d is None or d[0] != 'assign':
                return l
            rv = d[3]
            if rv['k'] in ('ref', 'rawptr'):
                l2 = rv['place']['local']
                if not any(e == 'deref' for e in rv['place']['proj']):
                    return l2
                l = l2
            elif rv['k'] == 'use' and op_base_local(rv['op']) is not None:
                l = op_base_local(rv['op'])
            else:
                return l
        return l

    def reaches(self, l, targets):
        """first member of `targets` that local l derives from (backwards), else None"""
        seen, work = set(), [l]
        while work:
            x = work.pop()
            if x in seen or x is None:
                continue
            seen.add(x)
            if x in targets:
                return x
            work.extend(self.derives.get(x, ()))
        return None

    def forward(self, l):
        """all locals derived (transitively) from l"""
        fwd = {}
        for d, srcs in self.derives.items():
            for s_ in srcs:
                fwd.setdefault(s_, set()).add(d)
        seen, work = set(), [l]
        while work:
            x = work.pop()
            if x in seen:
                continue
            seen.add(x)
            work.extend(fwd.get(x, ()))
        return seen


# ----------------------------------------------------------------------------------------
def check_placeholder_write_only(ctx, rep, rule):
    """A forward jump is emitted with a placeholder operand and patched later.  The placeholder is a value like any other 16-bit
    target: a program whose real target happens to equal it is legal.  So the constant may only be WRITTEN (handed to the operand
    emitter); code that compares anything with it — a `sanity check` that no placeholder survived, say — refuses or mistreats
    exactly the programs whose jump lands there."""
    F = ctx.facts()
    CMPS = ('Eq', 'Ne', 'Lt', 'Le', 'Gt', 'Ge')
    # the placeholder constants: named constants handed to the 16-bit operand emitter
    names = {}
    nsites = 0
    for key, fn in F.fns.items():
        if fn.crate != 'lib':
            continue
        for b, t in fn.calls():
            if callee_name(t) == 'compiler::Compiler::emit_u16' and len(t['args']) > 1:
                c = op_const(t['args'][1])
                if c is not None and '::' in str(c.get('text', '')) and c.get('int') is not None:
                    names[c['text']] = c['int']
                    nsites += 1
    rep.count('placeholder_emissions', nsites)
    if not names:
        rep.good(rule, 'compiler::Compiler', 'placeholder constants', 'no named placeholder constant is emitted (targets are known when the jump is emitted)', 'src/compiler.rs', nontrivial=False)
        return

    def mentions(x):
        if isinstance(x, dict):
            if x.get('k') == 'const' and x.get('text') in names:
                return True
            return any(mentions(v) for v in x.values())
        if isinstance(x, list):
            return any(mentions(v) for v in x)
        return False

    nuse = 0
    for key in sorted(F.fns):
        fn = F.fns[key]
        if fn.crate != 'lib':
            continue
        seeds = set()
        bad = []
        for b, si, st in fn.stmts():
            if st['k'] == 'assign' and mentions(st['rv']):
                nuse += 1
                rv = st['rv']
                if rv['k'] == 'binop' and rv.get('op') in CMPS:
                    bad.append(('compared with a value', st['span']))
                else:
                    seeds.add(st['place']['local'])
        for b, t in fn.calls():
            if mentions(t['args']):
                nuse += 1
                if callee_name(t) == 'compiler::Compiler::emit_u16':
                    continue
                seeds.add(t['dest']['local'])
                nm = callee_name(t)
                if any(x in nm for x in ('PartialEq', 'PartialOrd', '::cmp::Ord')) or nm.endswith(('::contains', '::starts_with', '::ends_with')):
                    bad.append(('handed to the comparison %s' % nm, t['span']))
        if seeds:
            lf = LocalFlow(fn)
            tainted = set()
            for s_ in seeds:
                tainted |= lf.forward(s_)
            for b, si, st in fn.stmts():
                if st['k'] == 'assign' and st['rv']['k'] == 'binop' and st['rv'].get('op') in CMPS and (LocalFlow.locals_of(st['rv']) & tainted):
                    bad.append(('a value computed from it is compared', st['span']))
            for b, t in fn.calls():
                nm = callee_name(t)
                if (any(x in nm for x in ('PartialEq', 'PartialOrd', '::cmp::Ord')) or nm.endswith(('::contains', '::starts_with', '::ends_with'))) \
                        and any(op_base_local(a) in tainted for a in t['args']):
                    bad.append(('a value computed from it is handed to the comparison %s' % nm.split('<')[-1][:40], t['span']))
        # `match target { PLACEHOLDER => .. }` lowers to a switch on the bare number
        if key.startswith('compiler::'):
            for b, blk in enumerate(fn.blocks):
                t = blk['term']
                if t['k'] == 'switch' and t.get('ty') == 'u16':
                    vals = [x[0] if isinstance(x, (list, tuple)) else x for x in t.get('targets', [])]
                    if any(v in names.values() for v in vals):
                        bad.append(('a 16-bit value is matched against the number', t['span']))
        for i, (what, sp) in enumerate(bad):
            rep.bad(rule, key, 'placeholder read back#%d' % (i + 1),
                    'the jump placeholder %s is only ever written: here it is %s, so a jump whose real target equals it is taken for an unpatched one' % (
                        '/'.join(sorted(names)), what), span_loc(sp), key='placeholder read back: %s' % what[:30])
    rep.good(rule, 'compiler::Compiler', 'placeholder constants', '%s: %d emissions, %d mentions examined; none is compared, directly or through values computed from it' % (
        ', '.join('%s=%d' % kv for kv in sorted(names.items())), nsites, nuse), 'src/compiler.rs')


def check_array_text_complete(ctx, rep, rule):
    """The text of an array shows every element, every time: in <Object as Display>::fmt (helpers spliced in), with the tag taken
    to be Array,
      A  every path that returns Ok looked at the elements (it calls as_vec and hands the view on: iter / split_first / len ..) -
         an answer given without them (`[...]` for an array "already written") is not the array's text;
      B  in the loop over the elements no turn skips the element's own text: every cycle through the loop header passes the call
         that formats the element (Display::fmt of it, or the routine itself)."""
    from mirlib import AbsInt, simp, callee_name
    from rules.tables import TYPE
    from rules import trm
    F = ctx.facts()
    fn = F.fn('<object::Object as core::fmt::Display>::fmt')

    def decide(nm, argv, t):
        if nm == 'object::Object::tag':
            return ('enum', TYPE, 'Array')
        return None
    n_ok = 0
    bad_paths = 0
    lf = LocalFlow(fn)
    from mirlib import op_base_local
    for p in AbsInt(F, fn, decide_call=decide, max_paths=4000).run():
        if p.exit != 'return':
            continue
        r = simp(p.env.get('_0'))
        if isinstance(r, tuple) and r and ((r[0] == 'agg' and r[2] == 'Err') or r[0] == 'errof' or (r[0] == 'call' and 'from_residual' in r[1])):
            continue
        if isinstance(r, tuple) and r and r[0] == 'call' and r[1] != fn.path and not r[1].endswith(('write_str', 'write_char', 'write_fmt')) and 'fmt' not in r[1]:
            pass
        n_ok += 1
        idx = next((i for i, c in enumerate(p.calls) if c[1].startswith('object::Object::as_vec')), None)
        used = False
        if idx is not None:
            # the view is handed on: a later call of the path takes a local the view flows into
            t0 = p.calls[idx][4]
            M = lf.forward(t0['dest']['local']) if isinstance(t0, dict) and t0.get('dest') else set()
            for c in p.calls[idx + 1:]:
                t1 = c[4] if isinstance(c[4], dict) else {}
                if any(op_base_local(a) in M for a in t1.get('args', [])):
                    used = True
                    break
        if not used:
            bad_paths += 1
    rep.ob(n_ok > 0 and bad_paths == 0, rule, fn.path, 'every Ok path reads the elements',
           '%d of %d paths that write an array return Ok without having looked at its elements' % (bad_paths, n_ok), fn.loc())
    # B
    E = {b for b, t in fn.calls() if callee_name(t).endswith('core::fmt::Display>::fmt') or callee_name(t) == fn.path
         or callee_name(t) in (F.inlined.get(('lib', fn.path)) or [])}
    nl = 0
    for h, body in fn.natural_loops():
        if not (set(body) & E):
            continue
        nl += 1
        removed = set(E & set(body)) | trm.error_blocks(fn) | trm.error_then_try(fn, h, body)
        cyc = trm.cycle_without(fn, h, body, removed)
        rep.ob(cyc is None, rule, fn.path, 'element loop', 'every turn of the loop over the elements writes the element' if cyc is None else
               'a turn of the loop over the elements can skip the element (blocks %s)' % cyc[:8], fn.loc())
    rep.ob(nl >= 1 or bool(E), rule, fn.path, 'elements are written by the routine itself', '%d loop(s) over the elements, %d formatting call(s)' % (nl, len(E)), fn.loc())
