"""VMX — per-opcode effect extraction from the VM's dispatch loop (DESIGN §4.2).

For every arm of the `match self.next()` in `VM::run` and every path from the arm entry back to
the loop header (continue), to `return` (halt / error) or to a panic: the operand fetches, the
pops and pushes (inside inner loops: per iteration, with the trip count's origin), the control
class and which values reach which callee in which argument position."""
from mirlib import *
from rules.tables import OPCODE, _memo, variant_name
from rules.shared import deref

FETCH = {'vm::VM::read_u8': 1, 'vm::VM::read_u16': 2}
POP = 'vm::VM::pop'
PUSH = 'vm::VM::push'


def find_dispatch(F):
    """(fn, loop header block, switch block, {opcode: entry block})"""
    cands = [f for f in F.all_fns if f.crate == 'lib' and f.j.get('impl_self', '').endswith('vm::VM')]
    for fn in cands:
        for b, bl in enumerate(fn.blocks):
            t = bl['term']
            if t['k'] != 'switch':
                continue
            op_local = op_local_of(t['op'])
            # the switched value is a Discriminant read of an OpCode
            is_opcode = False
            for st in bl['stmts']:
                if st['k'] == 'assign' and st['rv']['k'] == 'discr' and st['rv']['enum'] == OPCODE \
                        and st['place']['local'] == op_local:
                    is_opcode = True
            if not is_opcode:
                continue
            header = None
            for h, body in fn.natural_loops():
                if b in body and (header is None or len(body) > header[1]):
                    header = (h, len(body), body)
            if header is None:
                continue
            arms = {}
            names = {d: n for n, d in F.enum_variants(OPCODE)}
            for val, tb in t['targets']:
                arms[names.get(val, 'discr%d' % val)] = tb
            return fn, header[0], b, arms, header[2]
    raise CheckerError('anchor: no SwitchInt on a compiler::OpCode discriminant inside a loop of an `impl VM` method')


def op_local_of(op):
    p = op.get('place')
    return p['local'] if p and not p['proj'] else None


def classify_return(path):
    r = path.env.get('_0')
    if isinstance(r, tuple):
        if r[0] == 'agg' and r[1] == 'core::result::Result':
            return 'ok' if r[2] == 'Ok' else 'err'
        if r[0] == 'call' and 'from_residual' in r[1]:
            return 'err'
    return 'return?'


def origin(v, env, pops, fetches, depth=0):
    """describe where a value comes from, in VM terms"""
    if not isinstance(v, tuple) or depth > 8:
        return '?'
    if v[0] == 'lin':
        return v[1]
    if v[0] == 'cast':
        return origin(v[1], env, pops, fetches, depth + 1)
    if v[0] == 'ref':
        from rules.shared import deref
        return origin(deref(env, v), env, pops, fetches, depth + 1)
    if v[0] == 'call':
        if v[1] == POP:
            return 'pop#%d' % (pops.index(v[3]) + 1) if v[3] in pops else 'pop@bb%d' % v[3]
        if v[1] in FETCH:
            return 'operand#%d' % (fetches.index(v[3]) + 1) if v[3] in fetches else 'operand@bb%d' % v[3]
        if v[1] == 'vm::VM::get_local':
            return 'local[%s]' % origin(v[2][1], env, pops, fetches, depth + 1)
        if v[1].endswith('Index<I>>::index') or v[1].endswith('::index'):
            base = origin(v[2][0], env, pops, fetches, depth + 1)
            return '%s[%s]' % (base, origin(v[2][1], env, pops, fetches, depth + 1))
        if v[1].startswith('object::Object::') or v[1].startswith('<object::Object'):
            return '%s(%s)' % (v[1].split('::')[-1], ', '.join(origin(a, env, pops, fetches, depth + 1) for a in v[2]))
        if v[2] and depth < 6:
            return '%s(%s)' % (v[1].split('::')[-1], ', '.join(origin(a, env, pops, fetches, depth + 1) for a in v[2]))
        return '%s(..)' % v[1].split('::')[-1]
    if v[0] == 'downcast':
        return '%s.%s' % (origin(v[1], env, pops, fetches, depth + 1), v[2])
    if v[0] in ('okval', 'someval') and len(v) > 1:
        return origin(v[1], env, pops, fetches, depth + 1)
    if v[0] == 'deref':
        return origin(v[1], env, pops, fetches, depth + 1)
    if v[0] == 'local':
        return '_%d' % v[1]
    if v[0] == 'mem':
        return v[1]
    if v[0] == 'field':
        return '%s.%s' % (origin(v[1], env, pops, fetches, depth + 1), v[2])
    if v[0] == 'binop':
        return '%s(%s, %s)' % (v[1], origin(v[2], env, pops, fetches, depth + 1), origin(v[3], env, pops, fetches, depth + 1))
    if v[0] == 'int':
        return str(v[1])
    if v[0] == 'index':
        return '%s[%s]' % (origin(v[1], env, pops, fetches, depth + 1), origin(v[2], env, pops, fetches, depth + 1))
    if v[0] == 'enum':
        return v[2]
    if v[0] == 'proj':
        return '%s[..]' % origin(v[1], env, pops, fetches, depth + 1)
    return v[0]


def _plain(x):
    """value of a checked or unchecked arithmetic result"""
    x = uncast(x)
    if x[0] == 'field' and x[2] == '0' and x[1][0] == 'binop' and x[1][1].endswith('WithOverflow'):
        return ('binop', x[1][1][:-12], x[1][2], x[1][3])
    return x


def _stack_ref(F, p, v):
    """is v a reference to the VM's operand stack (self.stack)"""
    vm = F.adt('vm::VM')
    idx = next((i for i, f in enumerate(vm['variants'][0]['fields']) if f['name'] == 'stack'), None)
    v = uncast(v)
    for _ in range(6):
        if v[0] == 'ref' and v[1] in p.env and p.env[v[1]][0] in ('ref', 'cast'):
            v = uncast(p.env[v[1]])
        else:
            break
    return idx is not None and v[0] == 'ref' and v[1] == '_1.*.f%d' % idx


def _is_stack_len(F, p, v):
    v = uncast(v)
    return v[0] == 'call' and v[1].endswith('Vec::<T, A>::len') and v[2] and _stack_ref(F, p, v[2][0])


def counted_trip(fn, p, h, body):
    """trip count of a counted `while`: the exit test compares a counter that moves by one per iteration with a loop-invariant
    bound.  Read from the two evaluations of the exit condition on a path that iterates once."""
    conds = []
    for (what, val, b) in p.constraints:
        if what[0] != 'switch' or b not in body:
            continue
        t = fn.term(b)
        outs = [x[1] for x in t['targets']] + [t['otherwise']]
        if any(o not in body for o in outs):
            conds.append(what[1])
    if len(conds) < 2:
        return None
    c0, c1 = conds[0], conds[1]
    if not (c0[0] == 'binop' and c1[0] == 'binop' and c0[1] == c1[1]):
        return None
    op = c0[1]
    a0, b0, a1, b1 = _plain(c0[2]), _plain(c0[3]), _plain(c1[2]), _plain(c1[3])

    def step(x1, x0, opn):
        return x1[0] == 'binop' and x1[1] == opn and _plain(x1[2]) == x0 and int_of(x1[3]) == 1
    if op in ('Gt', 'Ne') and int_of(b0) == 0 and int_of(b1) == 0 and step(a1, a0, 'Sub'):
        return a0                       # while n > 0 { ..; n -= 1 }
    if op == 'Lt' and b0 == b1 and step(a1, a0, 'Add') and int_of(a0) == 0:
        return b0                       # while i < n { ..; i += 1 }  from 0
    if op in ('Lt', 'Ne') and int_of(a0) == 0 and int_of(a1) == 0 and step(b1, b0, 'Sub'):
        return b0                       # while 0 < n
    return None


class Lin:
    """linear form over symbolic atoms: {atom (str) or 1: coefficient}.  `L0` is the operand stack's length when the arm is entered."""

    def __init__(self, d=None):
        self.d = {k: v for k, v in (d or {}).items() if v != 0}

    def __add__(self, o):
        d = dict(self.d)
        for k, v in o.d.items():
            d[k] = d.get(k, 0) + v
        return Lin(d)

    def __sub__(self, o):
        d = dict(self.d)
        for k, v in o.d.items():
            d[k] = d.get(k, 0) - v
        return Lin(d)

    def __eq__(self, o):
        return isinstance(o, Lin) and self.d == o.d

    def __repr__(self):
        return ' + '.join('%s*%s' % (v, k) for k, v in sorted(self.d.items(), key=str)) or '0'


def stack_delta_before(F, p, block_pos):
    """net pushes minus pops on path p before the call at index block_pos of p.calls (straight pops/pushes and recognised bulk ops
    are not needed here: only VM::pop / VM::push calls precede the values this is used for)"""
    d = 0
    for c in p.calls[:block_pos]:
        if c[1] == POP:
            d -= 1
        elif c[1] == PUSH:
            d += 1
    return d


def lin_of(F, p, v, pops, fetches, depth=0):
    """linear form of a symbolic value in terms of L0 (stack length at arm entry), operands and opaque atoms.  Conversions that
    keep the number (casts, From/TryFrom + `?`/unwrap, map_err) are transparent."""
    if not isinstance(v, tuple) or depth > 16:
        return Lin({str(v): 1})
    k = v[0]
    if k == 'cast':
        return lin_of(F, p, v[1], pops, fetches, depth + 1)
    if k == 'okval':
        return lin_of(F, p, v[1], pops, fetches, depth + 1)
    if k == 'int':
        return Lin({1: v[1]})
    if k == 'ref' and v[1] in p.env:
        return lin_of(F, p, p.env[v[1]], pops, fetches, depth + 1)
    if k == 'field' and v[2] == '0' and isinstance(v[1], tuple) and v[1][0] == 'binop' and v[1][1].endswith('WithOverflow'):
        v = ('binop', v[1][1][:-12], v[1][2], v[1][3], v[1][4])
        k = 'binop'
    if k == 'field' and v[2] == '0' and isinstance(v[1], tuple) and v[1][0] == 'downcast' and v[1][2] in ('Continue', 'Ok', 'Some'):
        inner = v[1][1]
        if inner[0] == 'call' and inner[1].endswith('Try>::branch') and inner[2]:
            return lin_of(F, p, inner[2][0], pops, fetches, depth + 1)
        return lin_of(F, p, inner, pops, fetches, depth + 1)
    if k == 'binop' and v[1] in ('Add', 'Sub'):
        a, b = lin_of(F, p, v[2], pops, fetches, depth + 1), lin_of(F, p, v[3], pops, fetches, depth + 1)
        return a + b if v[1] == 'Add' else a - b
    if k == 'call':
        n = v[1]
        if n.endswith('Vec::<T, A>::len') and v[2] and _stack_ref(F, p, v[2][0]):
            idx = next((i for i, c in enumerate(p.calls) if c[0] == v[3] and c[1] == n), None)
            if idx is not None:
                return Lin({'L0': 1, 1: stack_delta_before(F, p, idx)})
        if (n.endswith(('::try_from', '::try_into', '::from', '::into', '::unwrap', '::map_err', '::expect', '::unwrap_or_default')) and v[2]) and \
                not n.startswith('vm::') and not n.startswith('object::'):
            return lin_of(F, p, v[2][0], pops, fetches, depth + 1)
    return Lin({origin(v, p.env, pops, fetches): 1})


BULK = {'::resize': 'push', '::split_off': 'pop', '::drain': 'pop', '::truncate': 'pop'}


def bulk_effect(F, p, c):
    """('push'|'pop', amount) for a bulk Vec operation on self.stack, 'unknown' when its amount cannot be read, None otherwise"""
    n = c[1]
    if ('Extend' in n or n.endswith('::extend')) and 'Vec' in n and len(c[2]) >= 2 and _stack_ref(F, p, c[2][0]):
        # `stack.extend(repeat(v).take(k))` / `extend(repeat_n(v, k))`: k copies are pushed
        it = uncast(deref(p.env, c[2][1]))
        if it[0] == 'call' and it[1].endswith('::take') and len(it[2]) == 2:
            src = uncast(deref(p.env, it[2][0]))
            if src[0] == 'call' and (src[1].endswith('iter::repeat') or src[1].endswith('sources::repeat::repeat') or 'repeat' in src[1].split('::')[-1]):
                return ('push', it[2][1])
        if it[0] == 'call' and it[1].split('::')[-1] == 'repeat_n' and len(it[2]) == 2:
            return ('push', it[2][1])
        return 'unknown'
    if (n.endswith('::collect') or n.endswith('::from_iter') or n.endswith('::for_each') or n.endswith('::count') or n.endswith('::last')) and c[2]:
        # `(0..k).map(|_| self.pop()).collect()`: the closure runs once per element of the range - k pops (or pushes)
        it = uncast(deref(p.env, c[2][0]))
        clo = None
        if n.endswith('::for_each') and len(c[2]) == 2:
            clo = uncast(deref(p.env, c[2][1]))
            src = it
        elif it[0] == 'call' and it[1].endswith('::map') and len(it[2]) == 2:
            clo = uncast(deref(p.env, it[2][1]))
            src = uncast(deref(p.env, it[2][0]))
        if clo is not None and clo[0] == 'closure' and clo[1] in F.fns:
            g = F.fns[clo[1]]
            npop = sum(1 for b_, t_ in g.calls() if callee_name(t_) == POP)
            npush = sum(1 for b_, t_ in g.calls() if callee_name(t_) == PUSH)
            if npop or npush:
                if g.natural_loops() or (npop and npush) or npop + npush != 1:
                    return 'unknown'
                for _ in range(3):
                    if src[0] == 'call' and src[1].endswith(('::into_iter', '::rev')) and src[2]:
                        src = uncast(deref(p.env, src[2][0]))
                if src[0] == 'agg' and str(src[1]).endswith('ops::range::Range') and len(src[3]) == 2 and int_of(src[3][0]) == 0:
                    return ('pop' if npop else 'push', src[3][1])
                return 'unknown'
        return None
    kind = next((k for sfx, k in BULK.items() if n.endswith(sfx) and 'Vec' in n), None)
    if kind is None or not c[2] or not _stack_ref(F, p, c[2][0]) or len(c[2]) < 2:
        return None
    a = c[2][1]
    if n.endswith('::drain'):
        a = uncast(a)
        if a[0] == 'agg' and str(a[1]).endswith('RangeFrom') and a[3]:
            a = a[3][0]
        else:
            return 'unknown'
    raw = a
    a = _plain(a)
    if a[0] != 'binop' or not ((kind == 'push' and a[1] == 'Add') or (kind == 'pop' and a[1] == 'Sub')):
        return linear_bulk(F, p, c, kind, raw)
    if kind == 'push' and a[1] == 'Add':
        for x, y in ((a[2], a[3]), (a[3], a[2])):
            if _is_stack_len(F, p, x):
                return ('push', y)
    if kind == 'pop' and a[1] == 'Sub' and _is_stack_len(F, p, a[2]):
        return ('pop', a[3])
    return linear_bulk(F, p, c, kind, raw)


def linear_bulk(F, p, c, kind, newlen):
    """resize(N) / truncate(N) ... where N is not literally len() +/- k: compare N with the stack length at that point, both
    as linear forms over the length at arm entry"""
    idx = next((i for i, x in enumerate(p.calls) if x is c), None)
    if idx is None:
        return 'unknown'
    pops = [x[0] for x in p.calls if x[1] == POP]
    fetches = [x[0] for x in p.calls if x[1] in FETCH]
    n = lin_of(F, p, newlen, pops, fetches)
    cur = Lin({'L0': 1, 1: stack_delta_before(F, p, idx)})
    diff = (n - cur) if kind == 'push' else (cur - n)
    if 'L0' in diff.d:
        return 'unknown'
    return (kind, ('lin', repr(diff)))


def vmx(ctx, config='default'):
    def build():
        F = ctx.facts(config)
        fn, header, swb, arms, loop_body = find_dispatch(F)
        # names of interesting locals, for origin strings
        field_names = {}
        inner_loops = [(h, body) for h, body in fn.natural_loops() if h != header and h in loop_body]
        result = {}
        for opname, entry in sorted(arms.items()):
            region = fn.reachable(entry, stop={header})
            loops_here = [(h, body) for h, body in inner_loops if h in region]
            in_loop = {}
            for h, body in loops_here:
                for b in body:
                    in_loop[b] = h
            # inside its arm the dispatched value is this opcode (a later `match op` on a bound copy folds)
            env0 = {}
            sw_t = fn.term(swb)
            opl = op_local_of(sw_t['op'])
            for st_ in fn.blocks[swb]['stmts']:
                if st_['k'] == 'assign' and st_['rv']['k'] == 'discr' and st_['place']['local'] == opl:
                    pl_ = st_['rv']['place']
                    if not pl_['proj']:
                        env0['_%d' % pl_['local']] = ('enum', OPCODE, opname)
            ai = AbsInt(F, fn, env0, stop_blocks={header}, loop_bound=2, max_paths=4000)
            paths = ai.run(entry)
            if ai.truncated:
                raise CheckerError('VMX: too many paths in the arm of OpCode::%s' % opname)
            recs = []
            for p in paths:
                if p.exit == 'loopcut':
                    continue
                if p.exit in ('resume', 'terminate'):
                    continue
                kind = {'stop': 'continue', 'diverge': 'panic'}.get(p.exit, p.exit)
                if p.exit == 'return':
                    kind = classify_return(p)
                fetch_blocks = [c[0] for c in p.calls if c[1] in FETCH]
                fetch = [FETCH[c[1]] for c in p.calls if c[1] in FETCH]
                fetch_in_loop = any(c[0] in in_loop for c in p.calls if c[1] in FETCH)
                pop_blocks = [c[0] for c in p.calls if c[1] == POP]
                pops_s = sum(1 for c in p.calls if c[1] == POP and c[0] not in in_loop)
                push_s = sum(1 for c in p.calls if c[1] == PUSH and c[0] not in in_loop)
                lp = {}
                for h, body in loops_here:
                    if h in p.blocks:
                        iters = max(p.blocks.count(h) - 1, 0)
                        np_ = sum(1 for c in p.calls if c[1] == POP and in_loop.get(c[0]) == h)
                        nq_ = sum(1 for c in p.calls if c[1] == PUSH and in_loop.get(c[0]) == h)
                        # trip count origin: the Range{0, end} handed to into_iter before the loop
                        trip = None
                        for c in p.calls:
                            if c[1].endswith('IntoIterator>::into_iter') and c[2] and c[2][0][0] == 'agg' \
                                    and c[2][0][1] == 'core::ops::range::Range':
                                # the into_iter immediately preceding this loop header on the path
                                if fn.blocks[c[0]]['term']['target'] is not None:
                                    trip = (c[2][0][3][0], c[2][0][3][1], c[0])
                        if trip is None and iters >= 1:
                            cv = counted_trip(fn, p, h, body)
                            if cv is not None:
                                trip = (('int', 0, 'usize'), cv, h)
                        lp[h] = {'iters': iters, 'pops': np_, 'pushes': nq_,
                                 'trip': origin(trip[1], p.env, pop_blocks, fetch_blocks) if trip else None,
                                 'trip_from': origin(trip[0], p.env, pop_blocks, fetch_blocks) if trip else None}
                # bulk operations on the operand stack count as one-iteration loops: resize(len + k) pushes k,
                # split_off / drain / truncate (len - n) pop n
                for c in p.calls:
                    be = bulk_effect(F, p, c)
                    if be is None:
                        continue
                    if be == 'unknown':
                        lp['bulk@%d' % c[0]] = {'iters': 1, 'pops': 0, 'pushes': 0, 'trip': 'unknown bulk stack operation %s' % c[1].split('::')[-1], 'trip_from': None, 'unknown': True}
                        continue
                    kind_, amount = be
                    lp['bulk@%d' % c[0]] = {'iters': 1, 'pops': 1 if kind_ == 'pop' else 0, 'pushes': 1 if kind_ == 'push' else 0,
                                           'trip': origin(amount, p.env, pop_blocks, fetch_blocks), 'trip_from': '0', 'bulk': c[1]}
                # calls with argument origins (object layer, helpers, gc)
                interesting = []
                for c in p.calls:
                    n = c[1]
                    if n in FETCH or n in (POP, PUSH):
                        continue
                    if n.startswith('object::') or n.startswith('<object::') or n.startswith('vm::') or n.startswith('gc::') \
                            or n.startswith('builtins::'):
                        interesting.append({'callee': n, 'block': c[0],
                                            'args': [origin(a, p.env, pop_blocks, fetch_blocks) for a in c[2]]})
                pushed = [origin(c[2][1], p.env, pop_blocks, fetch_blocks) for c in p.calls if c[1] == PUSH and len(c[2]) > 1]
                # order of events (for protocol rules)
                events = []
                for c in p.calls:
                    n = c[1]
                    if n in FETCH:
                        events.append('fetch%d' % FETCH[n])
                    elif n == POP:
                        events.append('pop')
                    elif n == PUSH:
                        events.append('push')
                    elif n.startswith('vm::VM::') or n.startswith('gc::GC::'):
                        events.append(n.split('::')[-1])
                recs.append({'kind': kind, 'fetch': fetch, 'fetch_in_loop': fetch_in_loop, 'pops': pops_s, 'pushes': push_s,
                             'loops': lp, 'calls': interesting, 'pushed': pushed, 'events': events,
                             'asserts': [a[1] for a in p.asserts], 'exit_block': p.exit_block, 'path': p})
            result[opname] = {'entry': entry, 'region': region, 'paths': recs, 'loops': [h for h, _ in loops_here]}
        return {'fn': fn, 'header': header, 'switch': swb, 'arms': result}
    return _memo(ctx, 'vmx-' + config, build)


def summarize(arm):
    """canonical (fetch widths, pops, pushes, class) of an arm + problems"""
    probs = []
    cont = [r for r in arm['paths'] if r['kind'] == 'continue']
    oks = [r for r in arm['paths'] if r['kind'] == 'ok']
    errs = [r for r in arm['paths'] if r['kind'] == 'err']
    panics = [r for r in arm['paths'] if r['kind'] == 'panic']
    main = cont or oks
    if not main:
        return None, ['no path of this arm continues or halts']
    fetches = {tuple(r['fetch']) for r in main}
    if len(fetches) != 1:
        probs.append('continue-paths fetch different operand widths: %s' % sorted(fetches))
    fetch = sorted(fetches)[0]
    for r in arm['paths']:
        for l in r['loops'].values():
            if l.get('unknown') and l['trip'] not in probs:
                probs.append(l['trip'])
    if any(r['fetch_in_loop'] for r in arm['paths']):
        probs.append('operand fetch inside a loop')
    for r in errs:
        if tuple(r['fetch']) != fetch[:len(r['fetch'])]:
            probs.append('an error exit fetches %s, not a prefix of %s' % (r['fetch'], list(fetch)))

    def shape(r):
        # straight pops/pushes and per-iteration loop effects with trip origins
        loops = tuple(sorted((l['pops'] // max(l['iters'], 1) if l['iters'] else 0,
                              l['pushes'] // max(l['iters'], 1) if l['iters'] else 0, l['trip']) for l in r['loops'].values() if l['iters']))
        return (r['pops'], r['pushes'], loops)
    # use the paths that iterate every loop they pass once
    full = [r for r in main if all(l['iters'] >= 1 for l in r['loops'].values())]
    zero = [r for r in main if any(l['iters'] == 0 for l in r['loops'].values())]
    shapes = {shape(r) for r in (full or main)}
    if len(shapes) != 1:
        probs.append('continue-paths disagree on pops/pushes: %s' % sorted(map(str, shapes)))
    sh = sorted(shapes, key=str)[0]
    for r in zero:
        if (r['pops'], r['pushes']) != (sh[0], sh[1]):
            probs.append('zero-iteration path has different straight-line effect')
    events = set()
    for r in main:
        events.update(r['events'])
    cls = 'fallthrough'
    if oks and not cont:
        cls = 'halt'
    elif 'pushframe' in events:
        cls = 'call'
    elif 'popframe' in events:
        cls = 'return'
    elif 'jump' in events:
        jumping = [r for r in main if 'jump' in r['events']]
        cls = 'jump' if len(jumping) == len(main) else 'cond-jump'
    return {'fetch': list(fetch), 'pops': sh[0], 'pushes': sh[1], 'loops': [list(x) for x in sh[2]], 'class': cls,
            'err_exits': len(errs), 'panic_exits': len(panics)}, probs


def table(ctx, config='default'):
    v = vmx(ctx, config)
    out = {}
    for op, arm in v['arms'].items():
        s, probs = summarize(arm)
        out[op] = (s, probs)
    return out


def optable(ctx, config='default'):
    """opcode -> summary (+ which storage the arm touches) for CSA's transfer function"""
    def build():
        v = vmx(ctx, config)
        fn = v['fn']
        out = {}
        probs = {}
        for op, arm in v['arms'].items():
            s, pr = summarize(arm)
            probs[op] = pr
            if s is None:
                continue
            callees = set()
            for r in arm['paths']:
                for c in r['calls']:
                    callees.add(c['callee'])
            s['callees'] = sorted(callees)
            s['reads_local'] = any(c in ('vm::VM::get_local', 'vm::VM::set_local') for c in callees)
            g = False
            gw = False
            for b in arm['region']:
                for st in fn.blocks[b]['stmts']:
                    if st['k'] == 'assign':
                        for pl in (st['place'], st['rv'].get('place')):
                            if pl and 'globals' in place_fields(pl):
                                g = True
                        if 'globals' in place_fields(st['place']):
                            gw = True
                        if st['rv'].get('k') == 'ref' and st['rv'].get('mut') and st['rv'].get('place') and 'globals' in place_fields(st['rv']['place']):
                            gw = True
            # the arm stores into a variable's slot (a frame slot through set_local, a global through `globals[i] = ..`)
            s['writes_slot'] = 'vm::VM::set_local' in callees or (gw and 'gc::GC::run' not in callees and bool(s['fetch']))
            s['reads_global'] = g and 'gc::GC::run' not in callees and bool(s['fetch'])
            out[op] = s
        return out, probs
    return _memo(ctx, 'optable-' + config, build)


def operands_decl(ctx):
    """OpCode -> widths declared by OpCode::operands() (EMX over all variants)"""
    def build():
        F = ctx.facts()
        fn = F.fn('compiler::OpCode::operands')
        out = {}
        for op, _ in F.enum_variants(OPCODE):
            env = {'_1': ('ref', '$p'), '$p': ('enum', OPCODE, op)}
            res = set()
            for p in AbsInt(F, fn, env).run():
                if p.exit != 'return':
                    res.add(None)
                    continue
                v = p.env.get('_0')
                for _ in range(12):
                    if v is None:
                        break
                    if v[0] == 'ref':
                        v = p.env.get(v[1])
                    elif v[0] == 'cast':
                        v = v[1]
                    else:
                        break
                if v and v[0] == 'agg' and all(x[0] == 'int' for x in v[3]):
                    res.add(tuple(x[1] for x in v[3]))
                else:
                    res.add(None)
            out[op] = list(next(iter(res))) if len(res) == 1 and None not in res else None
        return out
    return _memo(ctx, 'operands_decl', build)
