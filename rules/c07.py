"""C07 — source text denotes one tree: binding table, associativity, desugarings, separators."""
from mirlib import *
from rules import tables
from rules.psc import sym
from rules.shared import deref, truth

META = {
    'title': 'Source text denotes one tree: precedence, associativity, layout-independence',
    'explanation': "A Pratt parser's grouping is fixed by the binding-power table, the strictness of the loop guard and the power passed to the recursive call. The rules extract Token->Precedence for all 40 tokens (abstract evaluation of the MIR per variant), the discriminant order of Precedence, which way the continuation loop goes on for the Precedence comparison it makes and the origins of its operands, the power handed to the recursive parse_expr, the routine one turn of the loop (and the prefix position) hands each token to (constant propagation through parse_expr with the current token fixed to each variant), the shape of the op-assign construction wherever it is built, the else-if construction and the separator skipping, and compare them with the documented order. Layout: the set of code points the lexer skips (constant propagation through Tokenizer::next for every code point below U+3001) and the comment scan. R07.8 the routine that consumes the optional `;` runs only as one turn of a statement-list loop or right before a mandatory closing token, never inside an expression that can go on after it. R07.9 no branch of the parser depends on anything the tokenizer offers besides the tokens of next().",
    'not_decided': ['the round trip parse(print(t)) = t for arbitrary trees (a relation over runs)',
                    'binding strength of prefix operators (unspecified, DESIGN 4.3 item 2)'],
}
META['explanation'] += " R07.10 a list of the tokens an expression can start with agrees with parse_expr's own prefix dispatch."

P = "parser::Parser::<'a>::"
LEVELS = [['='], ['&&', '||'], ['==', '!='], ['<', '<=', '>', '>='], ['+', '-'], ['*', '/', '%']]
BINARY = [l for lv in LEVELS[1:] for l in lv]


def first_parser_call(fn, b, limit=12):
    """first call to a Parser method following block b along unique successors"""
    for _ in range(limit):
        t = fn.term(b)
        if t['k'] == 'call':
            n = callee_name(t)
            if n.startswith(P):
                return n[len(P):]
            b = t['target']
            if b is None:
                return None
            continue
        if t['k'] == 'goto':
            b = t['target']
            continue
        if t['k'] == 'return':
            return '<return>'
        return None
    return None


def check_tokens_only(ctx, rep, rule):
    """no branch of the parser is decided by anything the tokenizer offers besides the tokens of next()"""
    F = ctx.facts()
    from rules.shared import LocalFlow
    n_obs = 0
    for f in F.all_fns:
        if f.crate != 'lib' or not f.path.startswith('parser::') or f.path.startswith('parser::tests'):
            continue
        obs = {}      # local -> what was observed
        for b, si, st in f.stmts():
            if st['k'] != 'assign':
                continue
            def fields_of(x, acc):
                if isinstance(x, dict):
                    if 'local' in x and 'proj' in x:
                        for e in x['proj']:
                            if isinstance(e, dict) and e.get('of', '').startswith('lexer::Tokenizer'):
                                acc.append(e['name'])
                    for v_ in x.values():
                        fields_of(v_, acc)
                elif isinstance(x, list):
                    for v_ in x:
                        fields_of(v_, acc)
            acc = []
            fields_of(st['rv'], acc)
            if acc:
                obs[st['place']['local']] = 'field %s of the tokenizer at %s' % (acc[0], span_loc(st['span']))
        for b, t in f.calls():
            nme = callee_name(t)
            if nme.startswith('lexer::Tokenizer') and not nme.endswith('::new'):
                obs[t['dest']['local']] = '%s() at %s' % (nme.split('::')[-1], span_loc(t['span']))
            if nme.startswith('<lexer::Tokenizer') and not nme.endswith('Iterator>::next'):
                obs[t['dest']['local']] = '%s() at %s' % (nme.split('::')[-1], span_loc(t['span']))
        if not obs:
            continue
        LF = LocalFlow(f)
        for b in range(len(f.blocks)):
            t = f.term(b)
            if t['k'] != 'switch':
                continue
            l = op_base_local(t.get('op'))
            src = LF.reaches(l, obs) if l is not None else None
            n_obs += 1 if src is not None else 0
            if src is not None:
                rep.bad(rule, f.path, 'branch on tokenizer state', 'a branch of the parser is decided by %s: two texts with the same tokens can give different trees' % obs[src], span_loc(t['span']))
    if not n_obs:
        rep.good(rule, 'parser', 'tokenizer observations', 'no branch of the parser depends on anything the tokenizer offers besides the tokens of next()', 'src/parser.rs')


def check_binding_table(ctx, rep, rule, counts=True):
    """the binding-power table: levels, their order, calls/indexing above every operator, non-operators lowest"""
    F = ctx.facts()
    lt = tables.lexer_table(ctx)['table']
    tp = tables.token_precedence(ctx)
    rank = {n: i for i, n in enumerate(tp['order'])}
    prec_fn = tp['fn']
    tokens = [n for n, _ in F.enum_variants(tables.TOKEN)]
    if counts:
        rep.count('token_variants', len(tokens))
    tokrank = {}
    for tkn in tokens:
        pv = tp['map'].get(tkn)
        if pv is None or pv not in rank:
            rep.bad(rule, prec_fn.path, 'Token::%s' % tkn, 'precedence() does not return a constant Precedence for this token', prec_fn.loc())
            continue
        tokrank[tkn] = rank[pv]
    if counts:
        rep.table('token_rank', {t: tp['map'].get(t) for t in tokens})
        rep.table('precedence_order', tp['order'])

    # lexeme -> token
    missing = set()
    def tok(lx):
        t = lt.get(lx)
        if t is None and lx not in missing:
            missing.add(lx)
            rep.bad(rule, 'lexer::Tokenizer::next', 'lexeme %s' % lx, 'the tokenizer, simulated on the text `%s`, yields no single token for this operator: an expression written with it cannot denote its tree' % lx, 'src/lexer.rs')
        return t
    level_rank = []
    for lv in LEVELS:
        rs = {tokrank.get(tok(lx)) for lx in lv}
        ok = len(rs) == 1 and None not in rs
        rep.ob(ok, rule, prec_fn.path, 'level {%s}' % ' '.join(lv), 'operators of one level share one binding power: %s' % {lx: tp['map'].get(tok(lx)) for lx in lv}, prec_fn.loc())
        level_rank.append(min(r for r in rs if r is not None) if rs - {None} else -1)
        for lx in lv:
            rep.good(rule, prec_fn.path, 'Token::%s' % tok(lx), '%s -> %s' % (lx, tp['map'].get(tok(lx))), prec_fn.loc()) if ok else None
    for i in range(1, len(LEVELS)):
        rep.ob(level_rank[i - 1] < level_rank[i], rule, prec_fn.path, 'order {%s} < {%s}' % (' '.join(LEVELS[i - 1]), ' '.join(LEVELS[i])),
               'rank %s < rank %s' % (level_rank[i - 1], level_rank[i]), prec_fn.loc())
    rep.ob(level_rank[0] > 0, rule, prec_fn.path, 'assignment above Lowest', 'rank(=) = %d > 0' % level_rank[0], prec_fn.loc())
    for lx in ('(', '['):
        rep.ob(tokrank.get(tok(lx), -1) > level_rank[-1], rule, prec_fn.path, 'Token::%s' % tok(lx),
               'calls/indexing bind tighter than every operator: rank(%s)=%s > %s' % (lx, tokrank.get(tok(lx)), level_rank[-1]), prec_fn.loc())
    optoks = {tok(lx) for lv in LEVELS for lx in lv} | {tok('('), tok('[')}
    unused = {'Dot', 'Caret'}    # tokens with no grammar production: their rank is irrelevant (the loop returns on them)
    for tkn in tokens:
        if tkn in optoks or tkn in unused:
            continue
        rep.ob(tokrank.get(tkn) == 0, rule, prec_fn.path, 'Token::%s' % tkn,
               'a token that is not an operator must have the lowest power (it ends every expression): got %s' % tp['map'].get(tkn), prec_fn.loc())

    return tok, tokrank


def check_expression_starters(ctx, rep, rule):
    """A test on the current token that is true for (almost) exactly the tokens an expression can start with is a statement of
    which tokens start an expression - and parse_expr's own prefix dispatch is the definition of that.  PREFIX = the tokens for
    which parse_expr reaches a prefix parser (evaluated from its MIR, one token at a time).  Every bool-valued routine of the
    parser that depends on the current token only, is true for at least three tokens, true ONLY for tokens of PREFIX, and
    lacks at most three of them must be true for all of PREFIX: an optional operand (`antwoord` without a value) decided by
    such a list silently drops the operand that starts with a forgotten token."""
    F = ctx.facts()
    pe = F.fn(P + 'parse_expr')
    par = F.adts.get('parser::Parser')
    fidx = next((i for i, f_ in enumerate(par['variants'][0]['fields']) if f_.get('name') == 'current_token'), None) if par else None
    if fidx is None:
        raise CheckerError('R07.10: the parser has no field `current_token`')
    toks = [n for n, _ in F.enum_variants(tables.TOKEN)]
    key = '_1.*.f%d' % fidx
    prefix = set()
    for name in toks:
        for p in AbsInt(F, pe, {key: ('enum', tables.TOKEN, name)}, loop_bound=1, max_paths=3000).run():
            if any(c[1].startswith(P) for c in p.calls):
                prefix.add(name)
                break
    rep.count('expression_start_tokens', len(prefix))
    cands = {}
    for f in list(F.all_fns) + list((getattr(F, 'transparent_fns', None) or {}).values()):
        if not f.path.startswith(P) or '{closure' in f.path or f.arg_count != 1 or (f.j.get('ret') or '') != 'bool':
            continue
        cands[f.path] = f
    n = 0
    for path, f in sorted(cands.items()):
        tset, const = set(), True
        for name in toks:
            vals = set()
            for p in AbsInt(F, f, {key: ('enum', tables.TOKEN, name)}, loop_bound=1, max_paths=400).run():
                if p.exit != 'return':
                    continue
                r = simp(p.env.get('_0'))
                vals.add(r[1] if isinstance(r, tuple) and r and r[0] == 'int' else None)
            if len(vals) != 1 or None in vals:
                const = False
                break
            if next(iter(vals)):
                tset.add(name)
        if not const or len(tset) < 3 or not tset <= prefix or len(prefix - tset) > 3:
            continue
        n += 1
        rep.ob(tset == prefix, rule, f.path, 'tokens that start an expression',
               'true for %d of the %d tokens parse_expr accepts in prefix position; missing: %s' % (len(tset), len(prefix), sorted(prefix - tset)), f.loc())
    rep.ob(len(prefix) >= 10, rule, pe.path, 'prefix dispatch', '%d tokens reach a prefix parser (%d starter lists compared with it)' % (len(prefix), n), pe.loc())


def check_else_if(ctx, rep, rule):
    """`anders als`: the alternative is a one-statement block holding the whole if-expression that starts at the `als`"""
    F = ctx.facts()
    tp = tables.token_precedence(ctx)
    # ---- R07.4 else-if -------------------------------------------------------------------------
    pif = F.fn(P + 'parse_if_expr')
    seen_elseif = 0
    for p in AbsInt(F, pif).run():
        if p.exit != 'return':
            continue
        r = simp(p.env.get('_0'))
        if not (r and r[0] == 'agg' and r[2] == 'Ok'):
            continue
        # the else-if path: after `anders` the current token was found to be `als`
        kw_if = ('enum', tables.TOKEN, tables.keyword_table(ctx)['keywords'].get('als'))
        took_if = False
        def token_is(c, tokv):
            """the branch taken established `current token == tokv` (an `==` that came out true, a `!=` that came out false, or the
            arm of a `match` on the token)"""
            v = c[0][1] if c[0][0] == 'switch' else None
            if v and v[0] == 'call' and (v[1].endswith('PartialEq>::eq') or v[1].endswith('PartialEq::eq')) and truth(c) and tokv in [deref(p.env, a) for a in v[2]]:
                return True
            if v and v[0] == 'call' and (v[1].endswith('PartialEq>::ne') or v[1].endswith('PartialEq::ne')) and not truth(c) and tokv in [deref(p.env, a) for a in v[2]]:
                return True
            if c[0][0] == 'variant' and c[0][2] == tables.TOKEN and c[1] == tokv[2]:
                return True
            return False
        for c in p.constraints:
            if token_is(c, kw_if):
                took_if = True
        if not took_if and not any(c[1] == P + 'parse_statement' for c in p.calls):
            continue
        seen_elseif += 1
        e = r[3][0]
        alt = e[3][2] if e[0] == 'agg' and e[2] == 'If' and len(e[3]) == 3 else None
        one_elem = False
        for w in p.writes:
            v = simp(w[2])
            if v[0] == 'agg' and len(v[3]) == 1 and v[3][0][0] == 'okval' and v[3][0][1][0] == 'call' and v[3][0][1][1] == P + 'parse_statement':
                one_elem = True
            # ... or the expression statement holding what parse_expr(Lowest) reads at the `als`: the same tree as `anders { als .. }`
            if v[0] == 'agg' and len(v[3]) == 1 and v[3][0][0] == 'agg' and v[3][0][1] == 'ast::Stmt' and v[3][0][2] == 'Expr' and len(v[3][0][3]) == 1:
                x = v[3][0][3][0]
                if x[0] == 'okval' and x[1][0] == 'call' and x[1][1] == P + 'parse_expr' and len(x[1][2]) > 1 and deref(p.env, x[1][2][1]) == ('enum', 'parser::Precedence', tp['order'][0]):
                    one_elem = True
        inner = alt[3][0] if alt is not None and alt[0] == 'agg' and alt[2] == 'Some' else None
        while inner is not None and inner[0] in ('okval',):
            inner = inner[1]
        ok = inner is not None and inner[0] == 'call' and 'into_vec' in inner[1] and one_elem
        cond_ok = any(token_is(c, kw_if) for c in p.constraints)
        rep.ob(ok and cond_ok, rule, pif.path, 'anders als', 'after `anders`, an `als` token yields a one-statement block holding the whole expression that starts there (as `anders { als .. }` would): %s' % show(alt), pif.loc())
    rep.count('else_if_paths', seen_elseif)
    if not seen_elseif:
        rep.bad(rule, pif.path, 'anders als', 'no path of parse_if_expr parses a nested if-statement after `anders`', pif.loc())



def run(ctx, rep):
    F = ctx.facts()
    lt = tables.lexer_table(ctx)['table']
    tp = tables.token_precedence(ctx)
    rank = {n: i for i, n in enumerate(tp['order'])}
    prec_fn = tp['fn']
    rep.rule('R07.1', 'binding table: every token has the documented relative binding power (40 tokens enumerated)')
    rep.rule('R07.2', 'left associativity: strict loop guard `caller power < power(current token)`; the recursive call gets the '
                      "operator's own power, read before the token is consumed; every binary operator token is dispatched to the infix parser")
    rep.rule('R07.3', 'op-assign is built as Assign{left, Infix{left, op, parse_expr(Lowest)}}')
    rep.rule('R07.4', '`anders als` nests: the alternative is a one-statement block holding the parsed if-statement')
    rep.rule('R07.5', 'optional separators are consumed after every statement / list element and never stored in the tree')
    rep.rule('R07.6', 'operator domains: infix tokens map to 13 distinct binary operators, prefix tokens to Not/Subtract')
    rep.rule('R07.7', 'layout: every whitespace form and line comments are skipped by the lexer (whitespace table, comment arm)')
    from rules import c08
    c08.check_layout(ctx, rep, 'R07.7')

    tok, tokrank = check_binding_table(ctx, rep, 'R07.1')
    tokens = [n for n, _ in F.enum_variants(tables.TOKEN)]

    # ---- R07.2 ---------------------------------------------------------------------------------
    pe = F.fn(P + 'parse_expr')
    loops = pe.natural_loops()
    if not loops:
        raise CheckerError('parse_expr has no loop (Pratt continuation loop anchor)')
    header, body = max(loops, key=lambda x: len(x[1]))
    guards = []
    for b, t in pe.calls(body):
        c = t['callee']
        if c.get('trait') == 'core::cmp::PartialOrd' and c.get('self_ty') == tables.PREC:
            guards.append((b, t))
    rep.count('pratt_guard_comparisons', len(guards))
    if len(guards) != 1:
        rep.bad('R07.2', pe.path, 'loop guard', 'expected exactly one Precedence comparison in the continuation loop, found %d' % len(guards), pe.loc())
    for b, t in guards:
        meth = t['callee']['path'].split('::')[-1]

        def root(op):
            """('param', i) | ('curprec',) | ('?',): what a comparison operand (a reference) designates"""
            d = pe.def_rvalue(op)
            if d and d[0] == 'assign' and d[3]['k'] == 'ref':
                pl = d[3]['place']
                if not pl['proj']:
                    if 1 <= pl['local'] <= pe.arg_count:
                        return ('param', pl['local'])
                    d2 = pe.single_def(pl['local'])
                    if d2 and d2[0] == 'call' and callee_name(d2[2]).endswith('::precedence'):
                        # precedence() of self.current_token, or of a local copy of it
                        d3 = pe.def_rvalue(d2[2]['args'][0])
                        if d3 and d3[0] == 'assign' and d3[3]['k'] == 'ref':
                            pl3 = d3[3]['place']
                            if place_fields(pl3) == ['current_token']:
                                return ('curprec',)
                            if not pl3['proj']:
                                d4 = pe.single_def(pl3['local'])
                                if d4 and d4[0] == 'assign' and d4[3]['k'] == 'use' and d4[3]['op'].get('place') and place_fields(d4[3]['op']['place']) == ['current_token']:
                                    return ('curprec',)
            # ... the same through copies made for a helper that was spliced in: by what the operand computes
            def peel(v):
                for _ in range(12):
                    if isinstance(v, tuple) and v and v[0] in ('ref', 'deref', 'cast'):
                        v = v[1]
                    else:
                        break
                return v
            v = peel(sym(pe, op))
            if isinstance(v, tuple) and v and v[0] == 'param' and 2 <= v[1] <= pe.arg_count:
                return ('param', v[1])
            if isinstance(v, tuple) and v and v[0] == 'call' and v[1].endswith('::precedence') and len(v[2]) == 1:
                a = peel(v[2][0])
                if isinstance(a, tuple) and a and a[0] == 'field' and a[2] == 'current_token' and peel(a[1]) == ('param', 1):
                    return ('curprec',)
            return ('?',)
        a0, a1 = root(t['args'][0]), root(t['args'][1])
        # which way does the loop go on when the comparison is true?
        stays_on = None
        nb = t['target']
        for _ in range(6):
            tt = pe.term(nb)
            if tt['k'] == 'switch' and op_local(tt['op']) is not None:
                false_t = [tb for v_, tb in tt['targets'] if v_ == 0]
                true_t = tt['otherwise']
                def continues(x):
                    return x in body and header in pe.reachable(x, stop=set()) and any(callee_name(t2).startswith(P) and not callee_name(t2).endswith('advance')
                                                                                    for b2, t2 in pe.calls(pe.reachable(x, stop={header}) & set(body)))
                if false_t:
                    ct, cf = continues(true_t), continues(false_t[0])
                    stays_on = True if (ct and not cf) else (False if (cf and not ct) else None)
                break
            if tt['k'] == 'goto':
                nb = tt['target']
            else:
                break
        # the loop must go on exactly when  caller's power < power of the current token
        forms = {('lt', ('param', 2), ('curprec',)): True, ('gt', ('curprec',), ('param', 2)): True,
                 ('ge', ('param', 2), ('curprec',)): False, ('le', ('curprec',), ('param', 2)): False}
        ok = forms.get((meth, a0, a1)) is not None and forms[(meth, a0, a1)] == stays_on
        rep.ob(ok, 'R07.2', pe.path, 'loop guard', 'the continuation loop must go on exactly when `precedence < current_token.precedence()` (strict): '
               'found PartialOrd::%s(%s, %s), loop continues when it is %s' % (meth, a0[:2], a1[:2], stays_on), span_loc(t['span']))
    # dispatch of one turn of the loop (constant propagation per token, tables.pratt_tables)
    pt = tables.pratt_tables(ctx)
    disp = dict(pt['dispatch'])
    other = None
    sw = (None, {'span': pe.span})
    rep.table('pratt_dispatch', disp)
    infix_set = {t for t, c in disp.items() if c == 'parse_infix_expr'}
    want_infix = {tok(lx) for lx in BINARY} - {None}
    for tkn in sorted(want_infix | infix_set):
        rep.ob(tkn in want_infix and tkn in infix_set, 'R07.2', pe.path, 'dispatch Token::%s' % tkn,
               'binary operator tokens, and only they, go to parse_infix_expr (got %s)' % disp.get(tkn, other), span_loc(sw[1]['span']))
    for lx, callee in (('=', 'parse_assign_expr'), ('(', 'parse_call_expr'), ('[', 'parse_index_expr')):
        rep.ob(disp.get(tok(lx)) == callee, 'R07.2', pe.path, 'dispatch Token::%s' % tok(lx), '%s is handled by %s (got %s)' % (lx, callee, disp.get(tok(lx))), span_loc(sw[1]['span']))
    # recursion power in parse_infix_expr
    pi = F.fn(P + 'parse_infix_expr')
    n_rec = 0
    for p in AbsInt(F, pi).run():
        names_ = [c[1] for c in p.calls]
        r_ = simp(p.env.get('_0'))
        opassign = False
        for c_ in p.constraints:
            v_ = c_[0][1] if c_[0][0] == 'switch' else None
            if v_ and v_[0] == 'call' and v_[1].endswith('PartialEq>::eq') and truth(c_) and ('enum', tables.TOKEN, tok('=')) in [deref(p.env, a_) for a_ in v_[2]]:
                opassign = True
            if c_[0][0] == 'variant' and c_[0][2] == tables.TOKEN and c_[1] == tok('=') and len(c_[0]) > 3 and 'current_token' in str(c_[0][3]):
                opassign = True     # `match (self.current_token, &left) { (Token::Assign, ..) => ..`
        if opassign and (P + 'parse_op_assign_expression') not in F.fns:
            continue        # the `a op= e` path (R07.3): its right-hand side is a whole expression
        for i, c in enumerate(p.calls):
            if c[1] == P + 'parse_expr':
                n_rec += 1
                power = c[2][1]
                okp = power[0] == 'call' and power[1].endswith('::precedence')
                order_ok = False
                if okp:
                    src = power[2][0]
                    pb = power[3]
                    idx_prec = next((j for j, cc in enumerate(p.calls) if cc[0] == pb and cc[1].endswith('::precedence')), None)
                    idx_adv = [j for j, cc in enumerate(p.calls) if cc[1] == P + 'advance']
                    if src == ('ref', '_1.*.f1') or (src[0] == 'ref' and src[1].endswith('.f1')):
                        # precedence() of self.current_token itself: must be read before advance()
                        order_ok = idx_prec is not None and idx_adv and idx_prec < idx_adv[0] < i
                    elif src[0] == 'ref' and src[1][1:].isdigit() and p.env.get(src[1]) == ('field', ('deref', ('local', 1)), 'current_token'):
                        # precedence() of a local copy of the current token: the copy must have been taken before advance()
                        ds_ = pi.defs().get(int(src[1][1:]), [])
                        adv_blocks = [p.calls[j][0] for j in idx_adv]
                        order_ok = len(ds_) == 1 and bool(adv_blocks) and ds_[0][1] in p.blocks and \
                            p.blocks.index(ds_[0][1]) <= p.blocks.index(adv_blocks[0]) and idx_adv[0] < i
                        if ds_ and ds_[0][1] == adv_blocks[0]:
                            order_ok = order_ok and ds_[0][0] == 'assign'      # a statement of the block precedes its terminator call
                    elif src[0] == 'ref' and src[1][1:].isdigit() and 1 < int(src[1][1:]) <= pi.arg_count and 'lexer::Token' in pi.local_ty(int(src[1][1:])) \
                            and not pi.defs().get(int(src[1][1:])):
                        # precedence() of a token the caller handed in: every caller hands in (a copy of) its current token, and this
                        # routine consumes the operator only afterwards
                        k_ = int(src[1][1:]) - 1
                        cs_ = [(cf, cb, ct) for cf, cb, ct in F.callers_of(lambda p_: p_ == pi.path) if cf.crate == 'lib' and not cf.path.startswith('parser::tests')]
                        order_ok = bool(cs_) and bool(idx_adv) and idx_adv[0] < i and all(
                            len(ct['args']) > k_ and 'current_token' in str(sym(cf, ct['args'][k_])) for cf, cb, ct in cs_)
                    else:
                        okp = False
                rep.ob(okp and order_ok, 'R07.2', pi.path, 'recursive power',
                       "the right operand is parsed with the operator token's own power, read before advance(): %s" % show(power), span_loc(c[4]['span']))
                break
    rep.count('infix_recursive_calls', n_rec)
    if n_rec == 0:
        rep.bad('R07.2', pi.path, 'recursive power', 'parse_infix_expr never calls parse_expr', pi.loc())

    # ---- R07.3 op-assign -----------------------------------------------------------------------
    # wherever `a op= e` is built (its own routine, or inside parse_infix_expr): the Ok value must be
    # Assign{a, Infix{a, op, parse_expr(Lowest)}} and it is built only after `=` was seen behind an identifier
    def is_box_new(x):
        return x[0] == 'call' and x[1].startswith('alloc::boxed::Box') and x[1].endswith('::new')

    def assign_shape(r, p, is_left, is_op):
        e_ = r[3][0]
        assert e_[0] == 'agg' and e_[1] == 'ast::Expr' and e_[2] == 'Assign', 'returns Expr::Assign'
        bl, br = e_[3]

        def unbox(x):
            assert is_box_new(x), 'Box::new'
            return x[2][0]
        L = unbox(bl)
        assert is_left(L, p), 'Assign.left is the `left` parameter (or its clone): %s' % show(L)
        R_ = unbox(br)
        assert R_[0] == 'agg' and R_[2] == 'Infix', 'Assign.right is Expr::Infix'
        il, iop, ir = R_[3]
        IL = unbox(il)
        assert is_left(IL, p), 'Infix.left is `left`: %s' % show(IL)
        assert is_op(iop, p), 'Infix.operator is the operator that was read: %s' % show(iop)
        IR = unbox(ir)
        assert IR[0] == 'okval' and IR[1][0] == 'call' and IR[1][1] == P + 'parse_expr', 'Infix.right is the parsed right-hand side'
        pw = IR[1][2][1]
        assert pw == ('enum', tables.PREC, tp['order'][0]), 'right-hand side parsed with the lowest power (so `a += e` is a + (e)): %s' % show(pw)

    def left_param(x, p):
        x = deref(p.env, x) if x[0] == 'ref' else x
        return x == ('local', 2) or (x[0] == 'call' and 'clone' in x[1] and (x[2][0] in (('ref', '_2'),) or deref(p.env, x[2][0]) == ('local', 2)))

    builder = P + 'parse_op_assign_expression' if (P + 'parse_op_assign_expression') in F.fns else P + 'parse_infix_expr'
    po = F.fn(builder)
    found = False
    for p in AbsInt(F, po).run():
        r = simp(p.env.get('_0'))
        if not (r and r[0] == 'agg' and r[2] == 'Ok' and r[3] and r[3][0][0] == 'agg' and r[3][0][2] == 'Assign'):
            if builder.endswith('parse_op_assign_expression') and r and r[0] == 'agg' and r[2] == 'Ok':
                found = True
                rep.bad('R07.3', po.path, 'Ok value shape', 'a op= e  ==>  Assign{a, Infix{a, op, (e)}}: returns %s' % show(r)[:120], po.loc())
            continue
        found = True
        why = ''
        ok = False
        try:
            if builder.endswith('parse_op_assign_expression'):
                assign_shape(r, p, left_param, lambda x, p_: x == ('local', 3))
            else:
                # the operator is the one converted from the token that was current on entry (before any advance())
                def op_read(x, p_):
                    x = simp(x)
                    if not (x[0] == 'call' and (x[1].endswith('::parse_operator') or 'ast::Operator as core::convert::From' in x[1])):
                        return False
                    names_ = [c[1] for c in p_.calls]
                    k = next((i for i, c in enumerate(p_.calls) if c[0] == x[3] and c[1] == x[1]), None)
                    adv = [i for i, n_ in enumerate(names_) if n_ == P + 'advance']
                    if x[1].endswith('::parse_operator'):
                        return k is not None and (not adv or k < adv[0])
                    # Operator::from(tok): tok is the current token copied before the first advance()
                    a0 = deref(p_.env, x[2][0]) if x[2][0][0] == 'ref' else x[2][0]
                    return 'current_token' in show(a0) or a0 == ('field', ('deref', ('local', 1)), 'current_token')
                assign_shape(r, p, left_param, op_read)
            ok = True
        except AssertionError as ex:
            why = str(ex)
        rep.ob(ok, 'R07.3', po.path, 'Ok value shape', 'a op= e  ==>  Assign{a, Infix{a, op, (e)}} %s' % why, po.loc(), detail=show(r))
    if not found:
        rep.bad('R07.3', po.path, 'Ok value shape', 'no Ok return found', po.loc())
    # entry condition in parse_infix_expr
    entered = 0
    for p in AbsInt(F, pi).run():
        r = simp(p.env.get('_0'))
        builds = any(c[1] == P + 'parse_op_assign_expression' for c in p.calls) or \
            (not builder.endswith('parse_op_assign_expression') and p.exit == 'return' and r and r[0] == 'agg' and r[2] == 'Ok' and r[3] and r[3][0][0] == 'agg' and r[3][0][2] == 'Assign')
        if builds:
            entered += 1
            conds = [c for c in p.constraints if c[0][0] == 'switch']
            tok_eq = False
            ident = False
            for c in conds:
                v = c[0][1]
                if v[0] == 'call' and v[1].endswith('PartialEq>::eq') and truth(c):
                    args = [deref(p.env, a) for a in v[2]]
                    if ('enum', tables.TOKEN, tok('=')) in args:
                        tok_eq = True
            for c in p.constraints:
                if c[0][0] == 'variant' and c[0][2] == 'ast::Expr' and c[1] == 'Identifier':
                    ident = True
                # the same test written as a match arm on the token (alone or in a tuple with the left side)
                if c[0][0] == 'variant' and c[0][2] == tables.TOKEN and c[1] == tok('=') and len(c[0]) > 3 and 'current_token' in str(c[0][3]):
                    tok_eq = True
            rep.ob(tok_eq and ident, 'R07.3', pi.path, 'op-assign entry', 'entered only when the next token is `=` and the left side is an identifier '
                   '(token test %s, identifier test %s)' % (tok_eq, ident), pi.loc())
            # ... and whatever the operator is: `a op= e` exists for every binary operator (a guard that lists operators drops the
            # forms it forgets: `a %= e` becomes a syntax error)
            opsel = [c for c in p.constraints if c[0][0] == 'variant' and c[0][2] == 'ast::Operator']
            rep.ob(not opsel, 'R07.3', pi.path, 'op-assign for every operator', 'the short form is not restricted to some operators (operator tests on the way in: %s)'
                   % sorted({str(c[1]) for c in opsel}), pi.loc())
    rep.count('op_assign_entries', entered)

    check_else_if(ctx, rep, 'R07.4')
    rep.rule('R07.10', 'a list of the tokens an expression can start with agrees with the parser\'s own prefix dispatch (an optional operand decided by such a list is not dropped for a forgotten token)')
    check_expression_starters(ctx, rep, 'R07.10')

    # ---- R07.5 separators ----------------------------------------------------------------------
    ps = F.fn(P + 'parse_statement')
    n_ok = 0
    semi = ('enum', tables.TOKEN, tok(';'))
    for p in AbsInt(F, ps).run():
        r = simp(p.env.get('_0'))
        if p.exit == 'return' and r and r[0] == 'agg' and r[2] == 'Ok':
            n_ok += 1
            pc = [c for c in p.calls if c[1].startswith(P)]
            last = pc[-1] if pc else None
            ok = last is not None and last[1] == P + 'skip_optional' and last[2][1] == semi
            what = show(r[3][0])[:60]
            rep.ob(ok, 'R07.5', ps.path, 'semicolon after %s' % (r[3][0][2] if r[3][0][0] in ('agg', 'enum') else what),
                   'every successfully parsed statement is followed by skip_optional(Semi)', ps.loc())
    rep.count('statement_ok_paths', n_ok)
    comma = ('enum', tables.TOKEN, tok(','))
    for fname, elem in (('parse_call_expr', 'parse_expr'), ('parse_array_expr', 'parse_expr'), ('parse_function_expr', 'advance')):
        fn = F.fn(P + fname)
        lps = fn.natural_loops()
        rep.ob(len(lps) == 1, 'R07.5', fn.path, 'list loop', 'one list loop expected, found %d' % len(lps), fn.loc())
        for h, body_ in lps:
            el = [b for b, t in fn.calls(body_) if callee_name(t) == P + elem]
            sk = []
            for b, t in fn.calls(body_):
                if callee_name(t) == P + 'skip_optional':
                    a = t['args'][1]
                    if a.get('variant') == tok(',') or (fn.def_rvalue(a) and fn.def_rvalue(a)[0] == 'assign' and fn.def_rvalue(a)[3].get('variant') == tok(',')):
                        sk.append(b)
            ok = bool(el) and bool(sk) and all(any(b2 in fn.reachable(b1, stop={h}) for b2 in sk) for b1 in el)
            rep.ob(ok, 'R07.5', fn.path, 'comma after element', 'each parsed list element is followed by skip_optional(Comma) within the iteration', fn.loc())
    # ---- R07.8 a semicolon ends the statement --------------------------------------------------
    rep.rule('R07.8', 'a `;` ends its statement: the routine that consumes the optional `;` runs only as one turn of a statement-list loop '
                      '(or right before a mandatory closing token), never inside an expression that can go on after it')
    semi_fns = {}
    for f in F.all_fns:
        if f.crate != 'lib' or not f.path.startswith('parser::'):
            continue
        for b, t in f.calls():
            if callee_name(t) == P + 'skip_optional' and len(t['args']) > 1:
                a = t['args'][1]
                d = f.def_rvalue(a)
                if a.get('variant') == tok(';') or (d and d[0] == 'assign' and (d[3].get('variant') == tok(';') or (d[3].get('k') == 'use' and d[3]['op'].get('variant') == tok(';')))):
                    semi_fns[f.path] = f
    n_sites = 0
    for spath in sorted(semi_fns):
        for (cf, cb, ct) in F.callers_of(lambda p_, spath=spath: p_ == spath):
            if cf.crate != 'lib' or cf.path.startswith('parser::tests'):
                continue
            n_sites += 1
            in_loop = any(cb in body_ for h_, body_ in cf.natural_loops())
            if not in_loop and '{closure' in cf.path:
                # the body of a generator: `iter::from_fn(|| .. parse_statement() ..)` is called once per statement by the loop
                # of collect()
                par_ = F.fns.get(cf.path.rsplit('::{closure', 1)[0])
                if par_ is not None:
                    for b2_, t2_ in par_.calls():
                        if callee_name(t2_).endswith('from_fn::from_fn') and t2_['args']:
                            d2_ = par_.def_rvalue(t2_['args'][0])
                            if d2_ and d2_[0] == 'assign' and d2_[3]['k'] == 'aggregate' and d2_[3].get('closure') == cf.path:
                                in_loop = True
            sealed = False
            if not in_loop:
                # every way from the call to a successful return passes a mandatory consumer `skip(..)`
                tgt = ct.get('target')
                skips = {b2 for b2, t2 in cf.calls() if callee_name(t2) == P + 'skip'}
                rets = [b2 for b2 in cf.normal_blocks() if cf.term(b2)['k'] == 'return']
                if tgt is not None and skips:
                    free = cf.reachable(tgt, stop=skips)
                    sealed = not any(r_ in free for r_ in rets)
            ordn = sum(1 for b2, t2 in cf.calls() if b2 <= cb and callee_name(t2) == spath)
            rep.ob(in_loop or sealed, 'R07.8', cf.path, 'statement parser called#%d' % ordn,
                   '%s consumes a trailing `;`; here it is called %s' % (spath.split('::')[-1], 'as one turn of a statement loop' if in_loop else
                   ('before a mandatory closing token' if sealed else 'once, in the middle of an expression production: the `;` is swallowed and the enclosing expression goes on '
                    '(`als a {1} anders als b {2}; -1` is read as one expression)')), span_loc(ct['span']))
    rep.count('semicolon_consumer_call_sites', n_sites)
    if not semi_fns:
        raise CheckerError('R07.8: anchor not found: no routine of the parser consumes the optional `;`')

    # ---- R07.9 the parser sees tokens, not layout --------------------------------------------------
    rep.rule('R07.9', 'the tree depends on the tokens only: whatever else the parser can learn from the tokenizer (a field, a method besides next()) never decides a branch of the parser')
    check_tokens_only(ctx, rep, 'R07.9')

    # never stored: the AST types have no Token field
    bad_fields = []
    for a in ('ast::Expr', 'ast::Stmt', 'ast::Operator'):
        for v in F.adt(a)['variants']:
            for f in v['fields']:
                if 'lexer::Token' in f['ty']:
                    bad_fields.append('%s::%s.%s' % (a, v['name'], f['name']))
    rep.ob(not bad_fields, 'R07.5', 'ast', 'separators not stored', 'no syntax-tree node can hold a token: %s' % bad_fields, None)

    # ---- R07.6 operator domains ----------------------------------------------------------------
    of = tables.operator_from_token(ctx)
    img = {t: of['map'].get(t) for t in sorted(infix_set)}
    rep.table('operator_from_infix_tokens', img)
    binops = {'Add', 'Subtract', 'Multiply', 'Divide', 'Modulo', 'Gt', 'Gte', 'Lt', 'Lte', 'Eq', 'Neq', 'And', 'Or'}
    for t, o_ in img.items():
        rep.ob(o_ in binops, 'R07.6', of['fn'].path, 'Token::%s' % t, 'infix token maps to a binary operator (got %s)' % o_, of['fn'].loc())
    rep.ob(len(set(img.values())) == len(img), 'R07.6', of['fn'].path, 'injective on infix tokens', str(img), of['fn'].loc())
    # prefix dispatch: tokens whose first-match arm calls parse_prefix_expr
    prefix_set = {tk for tk, c_ in pt['first'].items() if c_ == 'parse_prefix_expr'}
    rep.table('prefix_tokens', sorted(prefix_set))
    rep.ob(prefix_set == {tok('!'), tok('-')}, 'R07.6', pe.path, 'prefix token set', 'prefix operators are ! and -: %s' % sorted(prefix_set), pe.loc())
    for t in sorted(prefix_set):
        want = {'Bang': 'Not', 'Minus': 'Subtract'}.get(t)
        rep.ob(of['map'].get(t) == want, 'R07.6', of['fn'].path, 'prefix Token::%s' % t, 'maps to %s (got %s)' % (want, of['map'].get(t)), of['fn'].loc())
