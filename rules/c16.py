"""C16 — evaluation is a pure function of the program text (effect/state analysis)."""
from mirlib import *
from rules import psc, c05, c01
from rules.psc import sym, strip
from rules.unsafe_inv import user_site

META = {
    'title': 'Evaluation is a pure function of the program text',
    'explanation': 'R16.1 no static / static mut / thread_local item exists in the crate, no foreign mutable static is referenced, and no '
                   'clock / environment / randomness / process / thread / file / network source is called from any function reachable from '
                   'eval (positive control: the deny-list does match the CLI binary). R16.2 eval creates its compiler and VM itself. '
                   'R16.3 every pointer-to-integer cast and raw-pointer comparison is masked, shifted, compared for identity or '
                   'dereferenced - never ordered, subtracted or formatted. R16.4 profile independence: no reachable behaviour is guarded '
                   'only by debug assertions / overflow checks (facts of the default and the release-like configuration are compared). '
                   'R16.5 inventory of unsafe impl Send/Sync.',
    'not_decided': ['whether a debug_assert! that no rule proves can fail (accepted as an assumption when its condition has no side effect and the function has no unsafe operation; counted under discharge class DA)', 'agreement of actual results across threads and orders (needs runs)', 'determinism of std formatting'],
}
META['explanation'] += ' R16.7 the immediate decoders run only on values tested to have their tag (applied to a heap word they would yield address bits).'
DENY = ['std::time', 'std::env', 'std::process', 'std::thread', 'std::fs', 'std::net', 'std::hash::random', 'std::collections::hash', 'std::io::stdio::stdin',
        'std::io::stdio::Stdin', 'std::sys::', 'core::fmt::Pointer', 'std::random', 'getrandom', 'rand::']


def run(ctx, rep):
    F = ctx.facts()
    rep.rule('R16.1', 'no global / thread-local state and no nondeterministic source reachable from eval')
    rep.rule('R16.2', 'eval builds a fresh Compiler and VM per call')
    rep.rule('R16.3', 'address independence: addresses are only masked, shifted, compared for identity or dereferenced')
    rep.rule('R16.4', 'profile independence: nothing observable depends on debug assertions / overflow checks')
    rep.rule('R16.5', 'unsafe impl Send/Sync inventory')
    # ---- R16.1 ---------------------------------------------------------------------------------
    st = F.lib['statics']
    rep.ob(not st, 'R16.1', 'crate', 'static items', 'the library crate declares no static / thread_local item: %s' % [s['path'] for s in st], None)
    refs = [r for r in F.lib.get('static_refs', []) if r.get('mut') or r.get('thread_local')]
    rep.ob(not refs, 'R16.1', 'crate', 'references to mutable/thread-local statics', 'no body refers to a mutable or thread-local static: %s' % refs[:3], None)
    reach_lib = psc.reachable(ctx, with_bin=False)
    hits = []
    ncalls = 0
    for key in sorted(reach_lib):
        fn = F.fns[key]
        for b, t in fn.calls():
            ncalls += 1
            n = callee_name(t)
            p0 = t['callee'].get('path') or ''
            for d in DENY:
                if n.startswith(d) or p0.startswith(d) or ('<' + d) in n:
                    hits.append((key, n, span_loc(t['span'])))
    rep.count('call_edges_examined', ncalls)
    for key, n, loc in hits:
        rep.bad('R16.1', key, 'calls ' + n, 'a non-deterministic / process-global source is reachable from eval', loc)
    if not hits:
        rep.good('R16.1', 'crate', 'deny-listed sources', 'none of %d call edges reachable from the entry points resolves to a clock/env/random/thread/fs/net/stdin source' % ncalls, None)
    # positive control: the binary does use env/fs/stdin
    ctrl = 0
    for f in F.all_fns:
        if f.crate == 'bin':
            for b, t in f.calls():
                n = callee_name(t)
                if any(n.startswith(d) or ('<' + d) in n for d in DENY):
                    ctrl += 1
    rep.count('denylist_positive_control', ctrl)
    if ctrl == 0:
        raise CheckerError('R16.1 positive control failed: the deny-list matches nothing in the CLI binary (which reads args, files and stdin)')
    # output channel: print!/println! only
    # ---- R16.2 ---------------------------------------------------------------------------------
    c01.check_pipeline(ctx, rep, 'R16.2')
    ev = F.fn('eval')
    params_escape = [callee_name(t) for b, t in ev.calls() if callee_name(t) not in (
        'parser::parse', 'compiler::Compiler::new', 'compiler::Compiler::compile_ast', 'vm::VM::new', 'vm::VM::run') and not callee_name(t).startswith('<core::result')]
    rep.ob(not params_escape, 'R16.2', 'eval', 'no other calls', 'eval calls nothing besides the five pipeline functions: %s' % params_escape, ev.loc())
    # ---- R16.3 ---------------------------------------------------------------------------------
    ncast = 0
    for f in F.all_fns:
        if f.crate != 'lib':
            continue
        for b, si, st_ in f.stmts():
            if st_['k'] != 'assign' or not user_site(st_['span']):
                continue
            rv = st_['rv']
            if rv['k'] == 'cast' and rv['ck'] == 'PointerExposeProvenance':
                ncast += 1
                dl = st_['place']['local']
                uses = uses_of(f, dl)
                ok = all(u in ('BitAnd', 'BitOr', 'Shr', 'Shl', 'cast', 'Eq', 'Ne', 'copy', 'call:object::Object::with_type') for u in uses) and uses
                rep.ob(ok, 'R16.3', f.path, 'pointer->integer cast', 'the integer image of the word is only masked / shifted / compared for equality: uses %s' % sorted(set(uses)), span_loc(st_['span']))
            if rv['k'] == 'binop' and rv['lty'].startswith('*') and rv['op'] in ('Lt', 'Le', 'Gt', 'Ge', 'Offset', 'Sub'):
                rep.bad('R16.3', f.path, 'raw pointer %s' % rv['op'], 'addresses are ordered / subtracted', span_loc(st_['span']))
        for b, t in f.calls():
            n = callee_name(t)
            if not user_site(t['span']):
                continue
            c = t['callee']
            if ('PartialOrd' in n or n.endswith('::cmp')) and (c.get('self_ty', '').startswith('*') or '*mut' in c.get('generic_args', '')[:20]):
                rep.bad('R16.3', f.path, 'orders raw pointers (%s)' % n.split('::')[-1], 'the tagged words are compared as addresses: the result depends on where the allocator put an object '
                        '(and for immediates on the sign-less bit pattern)', span_loc(t['span']))
            if n.endswith('::offset_from') or n.endswith('offset_from_unsigned') or n.endswith('::addr') or n.endswith('expose_provenance'):
                rep.bad('R16.3', f.path, 'address arithmetic (%s)' % n.split('::')[-1], 'a difference of two addresses is used as data', span_loc(t['span']))
            if 'fmt::Pointer' in n:
                rep.bad('R16.3', f.path, 'formats an address', 'an address reaches output', span_loc(t['span']))
    rep.count('pointer_int_casts', ncast)
    # ---- R16.4 ---------------------------------------------------------------------------------
    sites = psc.census(ctx)
    ndiv = 0
    for s in sites:
        fnp = s['fn']
        if fnp.startswith('bin::'):
            continue
        t = s['term']
        mac = psc.macro_of(s['span'])
        is_dbg = mac in ('debug_assert', 'debug_assert_eq', 'debug_assert_ne')
        is_ovf = s['kind'] == 'assert' and t['msg'] in ('Overflow', 'OverflowNeg')
        if not (is_dbg or is_ovf):
            continue
        verdict = c05.verdict_for(ctx, s)
        if not verdict[0] and not verdict[1].startswith('D3'):
            verdict = None
        if verdict is None:
            verdict = (False, 'debug builds panic here, release builds continue with a wrapped / unchecked value' if is_ovf else
                       'the condition is checked only in debug builds and is not implied by a real guard')
        ndiv += 1
        what = s['what'].split('::')[-1] if s['kind'] == 'call' else s['what']
        rep.ob(verdict[0], 'R16.4', fnp, 'profile-dependent check %s#%d%s' % (what, s['ord'], (' in %s!' % mac) if mac else ''), verdict[1], span_loc(s['span']))
    rep.count('profile_dependent_sites', ndiv)
    if rep.tier == 'thorough':
        # the release-like configuration has exactly the sites of the default one minus overflow asserts and debug_assert bodies
        s2 = psc.census(ctx, 'release')
        k1 = {(s['fn'], s['what'], s['ord']) for s in sites if not (s['kind'] == 'assert' and s['term']['msg'] in ('Overflow', 'OverflowNeg'))
              and psc.macro_of(s['span']) not in ('debug_assert', 'debug_assert_eq', 'debug_assert_ne')}
        k2 = {(s['fn'], s['what'], s['ord']) for s in s2}
        extra = sorted(k2 - {(a, b, c) for a, b, c in k1})
        rep.note('release-like config: %d panic sources (default: %d)' % (len(s2), len(sites)))
    # ---- R16.7 ---------------------------------------------------------------------------------
    # the word of a heap value is an address, which differs from run to run: an immediate decoder (as_bool / as_int / as_function
    # only shift the word) applied to it makes the outcome depend on where the allocator put the object
    rep.rule('R16.7', 'no outcome is read out of an address: the immediate decoders (which only shift the word) run only on values tested to have their tag - applied to an array or a string they would yield bits of the allocation address, different on every run')
    from rules import unsafe_inv as _ui
    _ui.check_immediates(ctx, rep, 'R16.7')
    # ---- R16.6 ---------------------------------------------------------------------------------
    # memory that was never written must not become a value: what it holds depends on earlier evaluations on the same thread
    rep.rule('R16.6', 'no uninitialised memory becomes observable (Vec::set_len only shrinks; no assume_init / uninitialized)')
    nun = 0
    for f in F.all_fns:
        if f.crate != 'lib':
            continue
        for b, t in f.calls():
            n_ = callee_name(t)
            if not user_site(t['span']):
                continue
            if n_.endswith('Vec::<T, A>::set_len') and len(t['args']) == 2:
                nun += 1
                v_ = strip(sym(f, t['args'][1]))
                shrinks = v_[0] == 'binop' and v_[1] == 'Sub' and strip(v_[2])[0] == 'len' and psc.unref(strip(v_[2])[1]) == psc.unref(sym(f, t['args'][0]))
                rep.ob(shrinks, 'R16.6', f.path, 'Vec::set_len', 'the new length is len() - k of the same vector (elements are given up, none appear out of unwritten memory): %s' % str(v_)[:80], span_loc(t['span']))
            elif n_.endswith(('MaybeUninit<T>>::assume_init', 'MaybeUninit::<T>::assume_init', 'mem::uninitialized', 'MaybeUninit::<T>::uninit', 'Vec::<T, A>::spare_capacity_mut', 'alloc::alloc::alloc')) \
                    and f.path != 'object::allocate':
                nun += 1
                rep.bad('R16.6', f.path, n_.split('::')[-1], 'uninitialised memory is created outside the one allocation routine (object::allocate, whose callers write the box before use: R03.1)', span_loc(t['span']))
    rep.count('uninit_sites', nun)
    # ---- R16.5 ---------------------------------------------------------------------------------
    n = 0
    for im in F.impls:
        if im.get('unsafe') and im.get('trait') != 'core::clone::TrivialClone':
            n += 1
            okk = im['self_ty'] == 'object::Object' and im.get('trait') in ('core::marker::Send', 'core::marker::Sync')
            rep.ob(okk, 'R16.5', 'unsafe impl %s for %s' % (im.get('trait'), im['self_ty']), 'justification',
                   'Object is a word-sized handle; no API shares one heap object between two evaluations because R16.1 and R16.2 hold (a new unsafe impl needs review)', span_loc(im['span']))
    rep.count('unsafe_impls', n)


def uses_of(fn, local):
    out = []
    for b, si, st in fn.stmts():
        if st['k'] != 'assign':
            continue
        rv = st['rv']
        k = rv['k']
        ops = []
        if k == 'binop':
            for o in (rv['l'], rv['r']):
                if op_local(o) == local:
                    out.append(rv['op'])
        elif k == 'cast' and op_local(rv['op']) == local:
            # u8 narrowing then shift (as_bool) / cast back to pointer after masking
            out.append('cast')
        elif k == 'use' and op_local(rv['op']) == local:
            out += uses_of(fn, st['place']['local']) if not st['place']['proj'] else ['copy']
        elif k == 'unop' and op_local(rv['x']) == local:
            out.append(rv['op'])
    for b, t in fn.calls():
        for a in t['args']:
            if op_local(a) == local:
                out.append('call:' + callee_name(t))
    for b in range(len(fn.blocks)):
        t = fn.term(b)
        if t['k'] == 'switch' and op_local(t['op']) == local:
            out.append('switch')
    return out
