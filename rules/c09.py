"""C09 — names resolve lexically; undeclared names are rejected before anything runs."""
from mirlib import *
from synlib import *
from rules import csa_run
from rules.psc import sym, strip
from rules.shared import deref

META = {
    'title': 'Names resolve lexically; undeclared names are rejected before anything runs',
    'explanation': 'R09.1 scope/context entry and exit are paired on every normal path of the compiler (CSA) and the constructors establish '
                   'the base; R09.2 insertion appends, therefore lookup scans scopes last-to-first and names within a scope last-to-first; '
                   'R09.3 a function body sees exactly its own context and the global one; R09.4 every slot operand is the index of a symbol '
                   'obtained from define/resolve and every failed resolve ends in a ReferenceError at compile time; R09.5 a declaration '
                   'defines its name before compiling the initialiser, and a named function before its body. R09.7 whatever the lookup reads besides the scope structure (a cache of answers) is kept in step by every method that changes the structure.',
    'not_decided': ['agreement of the slot arithmetic (total_len()-1 vs abs_index+index) for every enter/leave/define history', 'run-time values of variables'],
}
META['explanation'] += " R09.1 also: a declaration made by a statement of a block (branch, loop body, bare block) is entered in the block's own scope, never in the scope around it."
META['explanation'] += ' R09.9 `stel` and a named `functie` store into the slot define() hands out on that path, never into a variable of the same name found by a lookup. R09.4 also: a lookup that fails without ending the compilation (the attempt at a fused instruction) is repeated, or the name is declared, on every ok-exit.'
SYM = 'src/symbols.rs'


_CHAIN_HELPERS = {}


def iter_chain(e):
    """method chain of an expression: [('recv', base), m1, m2, ...].  A private helper of the symbol table whose body is itself one
    chain over `self` (`fn names(&self) -> impl Iterator { self.symbols.iter().flatten() }`) stands for that chain."""
    chain = []
    while isinstance(e, dict) and e.get('k') == 'mcall':
        chain.append((e['method'], e['args']))
        e = e['recv']
    chain.reverse()
    for _ in range(3):
        if chain and isinstance(e, dict) and e.get('k') == 'path' and e.get('path') == ['self'] and not chain[0][1] and chain[0][0] in _CHAIN_HELPERS:
            hb = _CHAIN_HELPERS[chain[0][0]]
            inner = []
            x = hb
            while isinstance(x, dict) and x.get('k') == 'mcall':
                inner.append((x['method'], x['args']))
                x = x['recv']
            inner.reverse()
            e, chain = x, inner + chain[1:]
        else:
            break
    return e, chain


def _register_chain_helpers(S):
    _CHAIN_HELPERS.clear()
    for im in S.impls(SYM):
        for it in im['items']:
            if it['k'] != 'fn' or len([i for i in it['inputs'] if not i.get('self')]) != 0 or not any(i.get('self') for i in it['inputs']):
                continue
            st = it['body']['stmts']
            if len(st) == 1 and st[0]['k'] == 's_expr' and not st[0].get('semi') and st[0]['expr'].get('k') == 'mcall' and 'Iterator' in (it.get('output') or ''):
                _CHAIN_HELPERS[it['name']] = st[0]['expr']


def counted_loops(body):
    """[{'node', 'var', 'dir'}] for the index-driven loops below `body`"""
    out = []
    for w in find_all(body, lambda n: n.get('k') == 'while'):
        c = w['cond']
        if c.get('k') != 'binary':
            continue
        stmts = w['body']['stmts']

        def step_of(st, var, op):
            e = st.get('expr') if st.get('k') == 's_expr' else None
            if not e:
                return False
            if e.get('k') == 'assignop' or (e.get('k') == 'binary' and e.get('op') in ('-=', '+=')):
                return path_of(e.get('l') or e.get('left')) == [var] and e.get('op') == op and render(e.get('r') or e.get('right')) == '1'
            if e.get('k') == 'assign':
                r = e.get('r') or e.get('right') or e.get('value')
                return path_of(e.get('l') or e.get('left') or e.get('target')) == [var] and render(r).replace(' ', '') == '%s%s1' % (var, op[0])
            return False
        l, r = c['l'], c['r']
        if c['op'] in ('>', '!=') and path_of(l) and len(path_of(l)) == 1 and render(r) == '0' and stmts and step_of(stmts[0], path_of(l)[0], '-='):
            out.append({'node': w, 'var': path_of(l)[0], 'dir': 'reverse'})
        elif c['op'] in ('<', '!=') and path_of(l) and len(path_of(l)) == 1 and stmts and any(step_of(s_, path_of(l)[0], '+=') for s_ in stmts):
            out.append({'node': w, 'var': path_of(l)[0], 'dir': 'forward'})
    for f in find_all(body, lambda n: n.get('k') == 'for'):
        it = f['iter']
        base, ch = iter_chain(it)
        ms = [m for m, _ in ch]
        if f['pat'].get('k') == 'p_ident' and base.get('k') in ('range', 'paren') and ms in ([], ['rev']):
            out.append({'node': f, 'var': f['pat']['name'], 'dir': 'reverse' if ms == ['rev'] else 'forward'})
    return out


def run(ctx, rep):
    F = ctx.facts()
    S = ctx.syn()
    R = csa_run.analyse(ctx)
    rep.rule('R09.1', 'enter_scope/leave_scope and new_context/leave_context are paired on every normal path; constructors push the base')
    rep.rule('R09.2', 'lookup prefers the innermost scope and, within a scope, the latest declaration')
    rep.rule('R09.3', 'a function body resolves names in its own context, then in the global context only')
    rep.rule('R09.4', 'every identifier use goes through the symbol table; an unknown name is a ReferenceError raised during compilation')
    rep.rule('R09.5', 'declare before use: `stel` defines the name before its initialiser is compiled; a named function before its body')
    rep.rule('R09.9', 'a declaration introduces a new variable in the current scope: `stel` and a named `functie` store into the slot that define() hands out on that path, never into a variable of the same name found by a lookup (an outer one would be overwritten)')
    n99 = sum(1 for a in R['arms'] if str(a['trace']).startswith(('Stmt::Let', 'Expr::Function')) and any(so[0] == 'define' for so in a['symops']))
    rep.ob(n99 >= 2, 'R09.9', 'compiler::Compiler::compile_expression', 'declaring constructs', '%d compiled forms of `stel` / named `functie` define their name' % n99, 'src/compiler.rs')
    for v in [v for v in R['violations'] if v['oblig'] == 'R09.9']:
        rep.bad('R09.9', 'compiler::Compiler::' + v['method'], v['construct'], v['text'], 'src/compiler.rs', key=v['kc'])
    # R09.1
    bad = [v for v in R['violations'] if v['oblig'] == 'R09.1']
    for v in bad:
        rep.bad('R09.1', 'compiler::Compiler::' + v['method'], v['construct'], v['text'], 'src/compiler.rs', key=v['kc'])
    npaths = 0
    seen = set()
    for a in R['arms']:
        if a['method'] in ('compile_block_statement',) or a['trace'].startswith('Expr::Function'):
            k = (a['method'], a['trace'])
            if k in seen:
                continue
            seen.add(k)
            npaths += 1
            if not any(v['method'] == a['method'] and v['construct'].startswith(a['trace']) for v in bad):
                rep.good('R09.1', 'compiler::Compiler::' + a['method'], 'pairing on ' + a['trace'], 'balanced on this path', 'src/compiler.rs')
    rep.count('pairing_paths', npaths)
    # constructors
    st_new = F.fn('symbols::SymbolTable::new')
    okc = False
    for b, si, st in st_new.stmts():
        pass
    s_new = str([sym(st_new, a) for b, t in st_new.calls() for a in t['args']])
    okc = 'symbols::Context::new' in [callee_name(t) for b, t in st_new.calls()] and 'Global' in str(
        [a for b, t in st_new.calls() if callee_name(t) == 'symbols::Context::new' for a in t['args']] + [st for b, si, st in st_new.stmts() if st['k'] == 'assign' and st['rv'].get('variant') == 'Global'])
    rep.ob(okc, 'R09.1', st_new.path, 'base context', 'SymbolTable::new starts with exactly the global context', st_new.loc())
    cn = S.method(SYM, 'Context', 'new')
    vecs = find_all(cn['body'], lambda n: n.get('k') == 'macro' and n['name'] == 'vec')
    okv = len(vecs) == 1 and len(vecs[0].get('args') or []) == 1
    rep.ob(okv, 'R09.1', 'symbols::Context::new', 'base scope', 'a new context starts with one scope', 'src/symbols.rs:%d' % cn['line'])

    rep.rule('R09.7', 'a lookup answers from the scope structure as it is now: state the lookup reads besides the structure (a cache, a counter) is updated by every method that changes the structure')
    check_memo(ctx, rep, 'R09.7')
    rep.rule('R09.8', 'define and resolve agree on the slot of a name: a declaration appends the name once and gets the slot `names in all open scopes - 1`')
    check_define_slot(ctx, rep, 'R09.8')
    rep.rule('R09.6', 'every node of a statement / argument / element list is compiled (names in all of them are resolved)')
    b6 = [v for v in R['violations'] if v['oblig'] == 'R09.6']
    for v in b6:
        rep.bad('R09.6', 'compiler::Compiler::' + v['method'], v['construct'], v['text'], 'src/compiler.rs', key=v['kc'])
    if not b6:
        rep.good('R09.6', 'compiler::Compiler', 'loops over syntax-tree lists', 'no loop over a list of syntax-tree nodes has an early exit other than an error', 'src/compiler.rs')
    # R09.2 lookup direction
    _register_chain_helpers(S)
    res = S.method(SYM, 'Context', 'resolve')
    dfn = S.method(SYM, 'Context', 'define')
    appends = find_all(dfn['body'], lambda n: n.get('k') == 'mcall' and n['method'] == 'push')
    inserts = find_all(dfn['body'], lambda n: n.get('k') == 'mcall' and n['method'] in ('insert',))
    rep.ob(len(appends) == 1 and not inserts, 'R09.2', 'symbols::Context::define', 'insertion appends', 'names are appended to the innermost scope (push)', 'src/symbols.rs:%d' % dfn['line'])
    loops = find_all(res['body'], lambda n: n.get('k') == 'for')
    verdict_scopes = None
    verdict_names = None
    if len(loops) == 1:
        base, ch = iter_chain(loops[0]['iter'])
        ms = [m for m, _ in ch]
        if ms == ['iter', 'rev']:
            verdict_scopes = 'reverse'
        elif ms == ['iter']:
            verdict_scopes = 'forward'
        elif ms in (['iter', 'enumerate', 'rev'],):
            verdict_scopes = 'reverse'
        searches = find_all(loops[0]['body'], lambda n: n.get('k') == 'mcall' and n['method'] in ('position', 'rposition', 'find', 'rfind', 'last'))
        if not searches:
            searches = find_all(res['body'], lambda n: n.get('k') == 'mcall' and n['method'] in ('position', 'rposition', 'find', 'rfind', 'last'))
        if len(searches) == 1:
            base2, ch2 = iter_chain(searches[0])
            ms2 = [m for m, _ in ch2]
            if ms2 == ['iter', 'rposition']:
                verdict_names = 'latest-first'
            elif ms2 == ['iter', 'position']:
                verdict_names = 'earliest-first'
            elif ms2 == ['iter', 'rev', 'position']:
                verdict_names = 'latest-first(rev)'
            elif ms2 == ['iter', 'enumerate', 'rev', 'find'] or ms2 == ['iter', 'enumerate', 'filter', 'last']:
                verdict_names = 'latest-first'
    if verdict_scopes is None or verdict_names is None:
        # index-driven loops: `while i > 0 { i -= 1; .. x[i] .. }` (reverse) / `while i < n { .. x[i] ..; i += 1 }` (forward)
        for lp in counted_loops(res['body']):
            for ix in find_all(lp['node']['body'], lambda n: n.get('k') == 'index' and path_of(n['index']) == [lp['var']]):
                # only the accesses of this loop, not those of a nested counted loop with another counter
                base = render(ix['base'])
                if 'symbols' in base and 'self' in base:
                    verdict_scopes = verdict_scopes or lp['dir']
                else:
                    early = find_all(lp['node']['body'], lambda n: n.get('k') == 'return')
                    if early:
                        verdict_names = verdict_names or ('latest-first' if lp['dir'] == 'reverse' else 'earliest-first')
    if verdict_names is None:
        srch = find_all(res['body'], lambda n: n.get('k') == 'mcall' and n['method'] in ('position', 'rposition', 'find', 'rfind', 'last'))
        if len(srch) == 1:
            ms2 = [m for m, _ in iter_chain(srch[0])[1]]
            verdict_names = {('iter', 'rposition'): 'latest-first', ('iter', 'position'): 'earliest-first', ('iter', 'rev', 'position'): 'latest-first(rev)',
                             ('iter', 'enumerate', 'rev', 'find'): 'latest-first', ('iter', 'enumerate', 'filter', 'last'): 'latest-first'}.get(tuple(ms2))
    if verdict_scopes is None:
        # the walk over the scopes written as a search with a closure: `self.symbols.iter().rev().find_map(|scope| ..)`
        for s_ in find_all(res['body'], lambda n: n.get('k') == 'mcall' and n['method'] in ('find_map', 'find', 'try_for_each', 'for_each', 'map')):
            base_, ch_ = iter_chain(s_)
            ms_ = [m for m, _ in ch_]
            if 'symbols' in render(base_) and 'self' in render(base_) and 'flatten' not in ms_:
                if ms_[:3] in (['iter', 'rev', s_['method']],) or ms_[:4] == ['iter', 'enumerate', 'rev', s_['method']]:
                    verdict_scopes = 'reverse'
                elif ms_[:2] == ['iter', s_['method']] and s_['method'] in ('find_map', 'find'):
                    verdict_scopes = 'forward'
    if verdict_scopes is None:
        # the scopes walked by one adaptor chain that keeps every hit and takes the last / the first of them:
        # `self.symbols.iter().scan(..).filter_map(|scope| scope.iter().rposition(..)).last()` - outermost scope first, so the LAST
        # hit is the innermost one (scan/map/enumerate/inspect keep the order)
        for s_ in find_all(res['body'], lambda n: n.get('k') == 'mcall' and n['method'] in ('last', 'next', 'next_back')):
            base_, ch_ = iter_chain(s_)
            ms_ = [m for m, _ in ch_ if m not in ('scan', 'map', 'enumerate', 'inspect', 'zip')]
            if 'symbols' not in render(base_) or 'self' not in render(base_) or 'flatten' in ms_ or 'filter_map' not in ms_:
                continue
            how = {('iter', 'filter_map', 'last'): 'reverse', ('iter', 'rev', 'filter_map', 'next'): 'reverse', ('iter', 'filter_map', 'next_back'): 'reverse',
                   ('iter', 'filter_map', 'next'): 'forward', ('iter', 'rev', 'filter_map', 'last'): 'forward'}.get(tuple(ms_))
            if how is None:
                continue
            verdict_scopes = how
            inner = [a for m, a in ch_ if m == 'filter_map']
            srch_ = find_all(inner[0][0], lambda n: n.get('k') == 'mcall' and n['method'] in ('position', 'rposition', 'find', 'rfind')) if inner and inner[0] else []
            if len(srch_) == 1 and verdict_names is None:
                ms2 = [m for m, _ in iter_chain(srch_[0])[1]]
                verdict_names = {('iter', 'rposition'): 'latest-first', ('iter', 'position'): 'earliest-first', ('iter', 'rev', 'position'): 'latest-first(rev)',
                                 ('iter', 'enumerate', 'rev', 'find'): 'latest-first'}.get(tuple(ms2))
    if verdict_scopes is None and verdict_names in (None,):
        # one chain over the names of all open scopes laid end to end (`symbols.iter().flatten()`): outer scopes first, a scope's
        # names in declaration order.  The LAST match is the innermost, latest declaration; the first match the outermost, oldest
        for s_ in find_all(res['body'], lambda n: n.get('k') == 'mcall' and n['method'] in ('last', 'next', 'find', 'position', 'find_map', 'max_by_key', 'next_back')):
            base_, ch_ = iter_chain(s_)
            ms_ = [m for m, _ in ch_]
            if 'flatten' not in ms_ or 'symbols' not in render(base_):
                continue
            core_ = ms_[:ms_.index(s_['method']) + 1] if s_['method'] in ms_ else ms_
            core_ = [m for m in core_ if m != 'map']      # a projection of the (slot, name) pair does not reorder anything
            if core_ in (['iter', 'flatten', 'enumerate', 'filter', 'last'], ['iter', 'flatten', 'enumerate', 'filter', 'next_back']):
                verdict_scopes, verdict_names = 'reverse', 'latest-first'
            elif core_ in (['iter', 'flatten', 'position'], ['iter', 'flatten', 'enumerate', 'find'], ['iter', 'flatten', 'enumerate', 'filter', 'next']):
                verdict_scopes, verdict_names = 'forward', 'earliest-first'
            elif core_ == ['iter', 'flatten', 'rev', 'position']:
                # the first match from the END of the concatenation is the innermost, latest declaration; position() then counts
                # from the end, and the slot is `names in all scopes - 1 - that count`
                verdict_scopes, verdict_names = 'reverse', 'latest-first(rev)'
                bound_ = None
                for st_ in res['body']['stmts']:
                    if st_['k'] == 's_let' and st_.get('init') is not None and st_['pat'].get('k') == 'p_ident' and find_all(st_['init'], lambda n: n is s_):
                        bound_ = st_['pat']['name']
                conv_ = []
                if bound_:
                    for b_ in find_all(res['body'], lambda n: n.get('k') == 'binary' and n.get('op') == '-'):
                        r_ = render(b_).replace(' ', '').replace('(', '').replace(')', '')
                        for tl_ in ('self.total_len', 'self.symbols.iter.mapVec::len.sum', 'self.symbols.iter.map|s|s.len.sum'):
                            if r_ in ('%s-1-%s' % (tl_, bound_), '%s-%s-1' % (tl_, bound_)):
                                conv_.append(r_)
                if conv_:
                    verdict_names = 'latest-first'
    if verdict_scopes is None or verdict_names is None:
        raise CheckerError('R09.2: unrecognised lookup idiom in Context::resolve (scopes: %s, names: %s)' % (verdict_scopes, verdict_names))
    rep.ob(verdict_scopes == 'reverse', 'R09.2', 'symbols::Context::resolve', 'scope order', 'scopes are searched innermost first (%s)' % verdict_scopes, 'src/symbols.rs:%d' % res['line'])
    rep.ob(verdict_names == 'latest-first', 'R09.2', 'symbols::Context::resolve', 'name order within a scope',
           'within one scope the LATEST declaration of a name must win (insertion appends): the scan is %s' % verdict_names, 'src/symbols.rs:%d' % res['line'])
    if verdict_names == 'latest-first(rev)':
        rep.bad('R09.2', 'symbols::Context::resolve', 'index correction', 'rev().position() yields an index from the end; it must be converted', 'src/symbols.rs:%d' % res['line'])

    for im in S.impls(SYM):
        for it in im['items']:
            if it['k'] == 'fn' and 'Option<Symbol>' in it['output'].replace(' ', '') and it['name'] != 'resolve':
                fl = find_all(it['body'], lambda n: n.get('k') == 'for')
                srch = find_all(it['body'], lambda n: n.get('k') == 'mcall' and n['method'] in ('position', 'rposition', 'find', 'rfind'))
                okx = True
                for lp in fl:
                    base, ch = iter_chain(lp['iter'])
                    ms = [m for m, _ in ch]
                    if 'iter' in ms and 'rev' not in ms and 'symbols' in render(lp['iter']):
                        okx = False
                for sr in srch:
                    if sr['method'] in ('position', 'find'):
                        b2, ch2 = iter_chain(sr)
                        if 'rev' not in [m for m, _ in ch2]:
                            okx = False
                rep.ob(okx, 'R09.2', 'symbols::%s::%s' % (im['self_ty'], it['name']), 'lookup order',
                       'every name lookup scans scopes innermost-first and a scope latest-first', 'src/symbols.rs:%d' % it['line'])
    # R09.3 visibility
    check_visibility(ctx, rep, 'R09.3')

    # R09.4 use sites
    provbad = [v for v in R['violations'] if v['oblig'] in ('O8', 'O8-scope') and 'symbol' in v['text']]
    for v in provbad:
        rep.bad('R09.4', 'compiler::Compiler::' + v['method'], v['construct'], v['text'], 'src/compiler.rs', key=v['kc'])
    for v in [v for v in R['violations'] if v['oblig'] == 'R09.4']:
        rep.bad('R09.4', 'compiler::Compiler::' + v['method'], v['construct'], v['text'], 'src/compiler.rs', key=v['kc'])
    unresolved_ok = [a for a in R['arms'] if 'unresolved' in a['trace'] and a['method'] in ('compile_expression', 'compile_statement')]
    # an ok-exit whose trace contains an unresolved name must have gone through another, successful resolution of the same name
    # (the fused helper's fallback); what matters: no path emits a slot operand without a resolved symbol (O8) and
    # every arm that resolves has an error exit for None
    errs = [e for e in R['errs'] if 'unresolved' in e['trace']]
    arms_resolving = sorted({e['trace'].split(' / ')[0] for e in errs})
    rep.count('reference_error_exits', len(errs))
    want_arms = ['Expr::Identifier', 'Expr::Assign', 'Expr::Infix']
    for w in want_arms:
        rep.ob(any(a.startswith(w) for a in arms_resolving), 'R09.4', 'compiler::Compiler::compile_expression', 'unknown name in ' + w,
               'a failed resolve leads to an error exit of the compiler', 'src/compiler.rs')
    # those error exits are ReferenceErrors: at every call of the symbol table's resolve in the compiler, the `None` side
    # constructs Error::ReferenceError (directly, or in the closure handed to ok_or_else) (MIR, helpers spliced in)
    n_ref = 0

    def is_referr(st):
        return st['k'] == 'assign' and st['rv']['k'] == 'aggregate' and st['rv'].get('adt') == 'object::Error' and st['rv'].get('variant') == 'ReferenceError'
    resolvers = {'symbols::SymbolTable::resolve'} | {'symbols::SymbolTable::' + n for n in R['csa'].symtab_resolve}
    for fn in [f for f in F.all_fns if f.crate == 'lib' and f.path.startswith('compiler::Compiler::') and '{closure' not in f.path]:
        for b, t in fn.calls():
            if callee_name(t) not in resolvers or t['target'] is None:
                continue
            n_ref += 1
            okr = False
            why = 'no ReferenceError on the None side'
            for sb in sorted(fn.reachable(t['target'])):
                tt = fn.term(sb)
                if tt['k'] == 'switch':
                    c = sym(fn, tt['op'])
                    if c[0] == 'discr' and 'core::option::Option' in str(c[2]) and callee_name(t) in str(c[1]) and fn.dominates(b, sb):
                        none_t = [tb for v_, tb in tt['targets'] if v_ == 0]
                        some_t = [tb for v_, tb in tt['targets'] if v_ == 1] + ([tt['otherwise']] if not any(v_ == 1 for v_, _ in tt['targets']) else [])
                        if not none_t:
                            none_t = [tt['otherwise']]
                        region = fn.reachable(none_t[0], stop=set(some_t))
                        if any(is_referr(st) for rb in region for st in fn.blocks[rb]['stmts']):
                            okr = True
                        else:
                            # the None side builds no error at all before it meets the Some side again (`else { return false }`
                            # of an attempt at a fused instruction): not an error exit - the path goes on and has to look the
                            # name up again (the obligation on the compiler's ok-exits above)
                            some_reach = set()
                            for sb2 in some_t:
                                some_reach |= fn.reachable(sb2)
                            excl = fn.reachable(none_t[0], stop=some_reach) - some_reach
                            builds_error = any(st['k'] == 'assign' and st['rv']['k'] == 'aggregate' and st['rv'].get('adt') == 'object::Error'
                                               for rb in excl for st in fn.blocks[rb]['stmts'])
                            calls_out = any(fn.term(rb)['k'] == 'call' for rb in excl)
                            if excl and not builds_error and not calls_out:
                                okr = True
                                why = 'fallback'
                        break
                elif tt['k'] == 'call' and callee_name(tt).endswith(('::ok_or_else', '::ok_or')) and callee_name(t) in str(sym(fn, tt['args'][0])):
                    a1 = sym(fn, tt['args'][1]) if len(tt['args']) > 1 else ('?',)
                    clos = [g for g in F.all_fns if g.path.startswith(fn.path + '::{closure') or any(g.path.startswith(h + '::{closure') for h in F.inlined.get(('lib', fn.path), []))]
                    if any(is_referr(st) for g in clos for _, _, st in g.stmts()) or 'ReferenceError' in str(a1):
                        okr = True
                    break
            rep.ob(okr, 'R09.4', fn.path, 'unresolved name at %s#%d' % (callee_name(t).split('::')[-1], n_ref), ('a failed lookup ends nothing here: the path goes on to look the name up again' if why == 'fallback' else 'a failed lookup becomes Error::ReferenceError') if okr else why, span_loc(t['span']))
    rep.count('reference_error_sites', n_ref)
    # compile-time: eval runs the VM only after compile_ast returned Ok (R01.1)
    from rules import c01
    c01.check_pipeline(ctx, rep, 'R09.4')

    # R09.5 declare-before-use order (syntax order inside the arms)
    cs = S.method('src/compiler.rs', 'Compiler', 'compile_statement')
    arms = [a for m in find_all(cs['body'], lambda n: n.get('k') == 'match') for a in m['arms']]
    let_arm = [a for a in arms if render_pat(a['pat']).startswith('Stmt::Let')]
    ok = False
    if len(let_arm) == 1:
        calls = [n for n in find_all(S.expanded('src/compiler.rs', 'Compiler', let_arm[0]['body']), lambda n: n.get('k') == 'mcall')]
        order = [n['method'] for n in calls if n['method'] in ('define', 'compile_expression')]
        ok = order[:2] == ['define', 'compile_expression']
    rep.ob(ok, 'R09.5', 'compiler::Compiler::compile_statement', 'Stmt::Let order', 'define(name) precedes compile_expression(value)', 'src/compiler.rs')
    ce = S.method('src/compiler.rs', 'Compiler', 'compile_expression')
    farm = [a for m in find_all(ce['body'], lambda n: n.get('k') == 'match') for a in m['arms'] if render_pat(a['pat']).startswith('Expr::Function')]
    ok = False
    if len(farm) == 1:
        fbody = S.expanded('src/compiler.rs', 'Compiler', farm[0]['body'])
        calls = [n for n in find_all(fbody, lambda n: n.get('k') == 'mcall')]
        order = [n['method'] for n in calls if n['method'] in ('define', 'new_context', 'compile_block_statement', 'leave_context')]
        ok = order[:2] == ['define', 'new_context'] and 'compile_block_statement' in order and order.index('new_context') < order.index('compile_block_statement') < order.index('leave_context')
        # parameters are defined right after new_context, in order (for-loop over parameters)
        fl = [n for n in find_all(fbody, lambda n: n.get('k') == 'for')]
        okp = any(render(n['iter']).endswith('parameters') and find_all(n['body'], lambda x: x.get('k') == 'mcall' and x['method'] == 'define') for n in fl)
        ok = ok and okp
    if not ok:
        # the same order read from the compiler shape analysis (helpers and closures followed): on every path of the Function arm
        # a named function is declared before its context opens, every parameter is declared inside the new context before the
        # body is compiled, and the context is left after the body
        fa = [a for a in R['arms'] if a['method'] == 'compile_expression' and a['trace'].startswith('Expr::Function')]
        okc = bool(fa)
        for a in fa:
            ops = a.get('symops') or []
            kinds = [o[0] for o in ops]
            if 'new_context' not in kinds or 'leave_context' not in kinds:
                okc = False
                continue
            i_new, i_leave = kinds.index('new_context'), len(kinds) - 1 - kinds[::-1].index('leave_context')
            body = [i for i, o in enumerate(ops) if o[0] == 'compile' and o[2] and str(o[2]).endswith('.body')]
            params = [i for i, o in enumerate(ops) if o[0] == 'define' and o[2] and 'parameters' in str(o[2])]
            named = [i for i, o in enumerate(ops) if o[0] == 'define' and o[2] and str(o[2]).endswith('.name')]
            if not body or not (i_new < body[0] < i_leave) or any(not (i_new < i < body[0]) for i in params) or any(i > i_new for i in named):
                okc = False
        ok = okc
    rep.ob(ok, 'R09.5', 'compiler::Compiler::compile_expression', 'Expr::Function order', 'define(name); new_context(); define(parameters in order); body; leave_context()', 'src/compiler.rs')


def closure_expand(F, g, v, depth=0):
    """rewrite a symbolic value of closure `g` in terms of the function the closure is written in: a captured variable becomes
    what it was built with, the closure's own argument becomes ('payload', receiver) of the combinator call it was handed to
    (`opt.and_then(|x| ..)`, `opt.map(..)`, `opt.or_else(..)`); applied recursively through nested closures"""
    if '{closure' not in g.path or depth > 6:
        return v
    ppath = g.path.rsplit('::{closure', 1)[0]
    parent = F.fns.get(ppath)
    if parent is None:
        return v
    agg = None
    for b, si, st in parent.stmts():
        if st['k'] == 'assign' and st['rv']['k'] == 'aggregate' and st['rv'].get('closure') == g.path:
            agg = st
    recv = None
    if agg is not None:
        for b, t in parent.calls():
            for a in t['args'][1:]:
                d = parent.def_rvalue(a)
                if d and d[0] == 'assign' and d[3] is agg['rv']:
                    recv = sym(parent, t['args'][0])

    def sub(x):
        if not isinstance(x, tuple):
            return x
        if x == ('param', 2) and recv is not None:
            return ('payload', closure_expand(F, parent, recv, depth + 1))
        if len(x) == 3 and x[0] == 'field' and x[1] in (('param', 1), ('deref', ('param', 1))) and str(x[2]).isdigit() and agg is not None and int(x[2]) < len(agg['rv']['ops']):
            return closure_expand(F, parent, sym(parent, agg['rv']['ops'][int(x[2])]), depth + 1)
        return tuple(sub(y) for y in x)
    return sub(v)


def check_visibility(ctx, rep, rule):
    """SymbolTable::resolve consults exactly the current context and the global one: a Local symbol therefore always
    belongs to the frame of the function being compiled (its index is below that frame's size)"""
    F = ctx.facts()
    sr = F.fn('symbols::SymbolTable::resolve')
    consulted = []
    family = [sr] + [g for k, g in sorted(F.fns.items()) if k.startswith(sr.path + '::{closure')]
    for g in family:
      for b, t in g.calls():
        if callee_name(t) == 'symbols::Context::resolve':
            a = str(closure_expand(F, g, sym(g, t['args'][0])))
            if 'split_last' in a and 'contexts' in a:
                # (last, prefix) of the context stack: the prefix's first element is contexts[0] whenever it exists
                consulted.append('global' if '::first' in a else 'current')
            elif 'split_first' in a and 'contexts' in a:
                # (first, rest) of the context stack: the first is contexts[0]; the last of the rest is the current function context
                consulted.append('current' if ('::last' in a or '::last_mut' in a) else 'global')
            elif 'current_context' in a or ('contexts' in a and ('::last' in a or '::last_mut' in a)):
                consulted.append('current')
            elif 'contexts' in a and (('index' in a and "('int', 0)" in a) or '::first' in a):
                consulted.append('global')
            elif 'contexts' in a and "'const_index': 0, 'from_end': False" in a:
                consulted.append('global')        # `[global, ..]` / `[global]` of a slice pattern over the context stack
            elif 'contexts' in a and "'const_index': 1, 'from_end': True" in a:
                consulted.append('current')       # `[.., current]`
            else:
                consulted.append('other:' + a[:80])
    rep.ob(set(consulted) == {'current', 'global'}, rule, sr.path, 'contexts consulted', 'exactly the current context and contexts[0]: %s' % consulted, sr.loc())



VEC_MUTATORS = ('push', 'pop', 'truncate', 'clear', 'insert', 'remove', 'swap_remove', 'drain', 'retain', 'resize', 'extend', 'append',
                'split_off', 'set_len', 'dedup', 'extend_from_slice', 'resize_with', 'retain_mut')


def check_memo(ctx, rep, rule):
    """the answer of a lookup is a function of the scope structure as it is NOW.  The lookup routines may read other state of the
    symbol table (a cache of the last answer, a generation counter, a running count); then every method that changes the scope
    structure in a way a lookup can notice must update that state too, or a later lookup answers from a world that no longer
    exists (`{ stel a = 1; a } a` resolves the second `a` to the slot of the first).  Fields are found by type, methods by
    what they do; on a tree without such state the rule has nothing to demand and says which fields the lookup reads."""
    F = ctx.facts()
    OWNERS = ('symbols::SymbolTable', 'symbols::Context')
    fields = {}
    for o in OWNERS:
        a = F.adt(o)
        if a is None:
            raise CheckerError('%s: anchor not found: %s' % (rule, o))
        for f in a['variants'][0]['fields']:
            fields[(o, f['name'])] = f['ty']
    # the scope structure itself: the collections of contexts / scopes / names; `scope` is fixed at construction
    structure = {k for k, ty in fields.items() if ('Vec<' in ty and ('Context' in ty or 'String' in ty))}
    sym_fns = [f for f in F.all_fns if f.crate == 'lib' and f.path.startswith('symbols::') and '::tests' not in f.path]
    by_path = {f.path: f for f in sym_fns}

    def owner_of(fn, local):
        ty = fn.local_ty(local)
        for o in OWNERS:
            if o in ty:
                return o
        return None

    def field_uses(fn):
        """{(owner, field): {'read'|'write'}} for places rooted at a SymbolTable / Context value"""
        out = {}

        def note(pl, how):
            cur_owner = owner_of(fn, pl['local'])
            for e in pl['proj']:
                if isinstance(e, dict) and 'field' in e and cur_owner is not None:
                    k = (cur_owner, e['name'])
                    if k in fields:
                        out.setdefault(k, set()).add(how)
                        ty = fields[k]
                        cur_owner = next((o for o in OWNERS if o in ty), None)
                        how_next = how
                    else:
                        cur_owner = None
                elif isinstance(e, dict) and 'field' in e:
                    cur_owner = None

        def walk(x, how):
            if isinstance(x, dict):
                if 'local' in x and 'proj' in x:
                    note(x, how)
                for v in x.values():
                    walk(v, how)
            elif isinstance(x, list):
                for v in x:
                    walk(v, how)
        for b, si, st in fn.stmts():
            if st['k'] == 'assign':
                if st['place']['proj']:
                    note(st['place'], 'write')
                rv = st['rv']
                if rv['k'] in ('ref', 'rawptr') and rv.get('mut'):
                    note(rv['place'], 'write')
                    note(rv['place'], 'read')
                else:
                    walk(rv, 'read')
        for b, t in fn.calls():
            for a in t['args']:
                walk(a, 'read')
        for bl in fn.blocks:
            t = bl['term']
            if t['k'] == 'switch':
                walk(t.get('discr') or t.get('op') or {}, 'read')
        return out

    def closure_of(root):
        seen, work = set(), [root]
        while work:
            p = work.pop()
            if p in seen or p not in by_path:
                continue
            seen.add(p)
            for b, t in by_path[p].calls():
                for c in callee_paths(t):
                    if c.startswith('symbols::'):
                        work.append(c)
            for q in by_path:
                if q.startswith(p + '::{closure'):
                    work.append(q)
        return seen

    resolvers = [p for p in by_path if p in ('symbols::SymbolTable::resolve', 'symbols::Context::resolve')]
    if len(resolvers) != 2:
        raise CheckerError('%s: anchor not found: the two lookup routines of the symbol table (found %s)' % (rule, resolvers))
    read_by_lookup = {}
    for r in resolvers:
        for q in closure_of(r):
            for k, hows in field_uses(by_path[q]).items():
                if 'read' in hows:
                    read_by_lookup.setdefault(k, set()).add(q)
    memo = sorted(k for k in read_by_lookup if k not in structure and k[1] != 'scope')
    for k in sorted(read_by_lookup):
        if k in structure or k[1] == 'scope':
            rep.good(rule, 'symbols::' + k[0].split('::')[-1], 'lookup reads %s.%s' % (k[0].split('::')[-1], k[1]), 'part of the scope structure itself (or fixed at construction)', 'src/symbols.rs')
    if not memo:
        rep.count('lookup_state_fields', 0)
        return
    rep.count('lookup_state_fields', len(memo))
    # methods that change the structure noticeably
    for f in sym_fns:
        if '{closure' in f.path or f.path in resolvers or not f.path.startswith('symbols::SymbolTable::'):
            continue
        if f.arg_count < 1 or 'mut' not in f.local_ty(1) or 'SymbolTable' not in f.local_ty(1):
            continue
        cl = closure_of(f.path)
        muts = []
        scope_level = False      # names or scopes inside a context change (as opposed to whole contexts coming and going)
        for q in cl:
            for b, t in by_path[q].calls():
                n = callee_name(t)
                if n.startswith('alloc::vec::Vec') and n.split('::')[-1] in VEC_MUTATORS:
                    # pushing an empty scope changes no answer
                    if n.split('::')[-1] == 'push' and len(t['args']) > 1:
                        d = by_path[q].def_rvalue(t['args'][1])
                        if d and d[0] == 'call' and callee_name(d[2]).endswith('Vec::<T>::new'):
                            continue
                    muts.append(n.split('::')[-1])
                    rty = by_path[q].local_ty(op_base_local(t['args'][0])) if t['args'] and op_base_local(t['args'][0]) is not None else ''
                    if 'Context' not in rty:
                        scope_level = True
        if not muts:
            continue
        written = set()
        for q in cl:
            for k, hows in field_uses(by_path[q]).items():
                if 'write' in hows:
                    written.add(k)
        # state kept inside a Context travels with it: a method that only pushes / pops / truncates whole contexts has nothing to
        # update there; state kept in the SymbolTable is affected by every change
        groups = {}
        for k in memo:
            groups.setdefault(k[0], []).append(k)
        ok = True
        for owner, ks in groups.items():
            if owner.endswith('Context') and not scope_level:
                continue
            if not any(k in written for k in ks):
                ok = False
        rep.ob(ok, rule, f.path, 'keeps the lookup state in step',
               'this method changes the scope structure (%s) and the lookup also reads %s: it must update that state (writes seen here: %s)' % (
                   ', '.join(sorted(set(muts))), ', '.join('%s.%s' % (k[0].split('::')[-1], k[1]) for k in memo),
                   sorted('%s.%s' % (k[0].split('::')[-1], k[1]) for k in written if k in memo) or 'none'), f.loc())


def check_define_slot(ctx, rep, rule):
    """`define` and `resolve` must agree on the slot of a name: resolve answers `names in the outer scopes + position in its own
    scope`; a new name is appended to the innermost scope, so its slot is `names in ALL open scopes - 1`.  Every returning path of
    Context::define appends the name exactly once and returns that count (a position inside the innermost scope alone is the
    right slot only while no outer scope holds a name)."""
    F = ctx.facts()
    dfn = F.fn('symbols::Context::define')
    n = 0
    for p in AbsInt(F, dfn).run():
        if p.exit != 'return':
            continue
        n += 1
        r = simp(p.env.get('_0'))
        idx = None
        if r and ((r[0] == 'agg' and r[2] in ('None', 'Err')) or r[0] == 'errof'):
            # the table refuses the name (it is full): nothing may have been appended on that path
            np_ = len([c for c in p.calls if c[1] == 'alloc::vec::Vec::<T, A>::push'])
            rep.ob(np_ == 0, rule, dfn.path, 'slot of a new name (path %d: refused)' % n, 'a definition that is refused appends nothing (%d appends on this path)' % np_, dfn.loc(), key='refusal appends nothing')
            continue
        if r and r[0] == 'agg' and r[2] in ('Some', 'Ok') and r[3]:
            r = simp(deref(p.env, r[3][0]))
        if r and r[0] == 'okval' and isinstance(r[1], tuple) and r[1][0] == 'call' and r[1][1].endswith('Option::<T>::map') and len(r[1][2]) == 2 \
                and isinstance(r[1][2][1], tuple) and r[1][2][1][0] == 'closure' and r[1][2][1][1] in F.fns:
            # `u16::try_from(slot).ok().map(|index| Symbol { index, scope })`: the symbol is built by the closure from the payload
            g = F.fns[r[1][2][1][1]]
            fields = [f['name'] for f in F.adt('symbols::Symbol')['variants'][0]['fields']]
            builds = False
            for pg in AbsInt(F, g).run():
                rg = simp(pg.env.get('_0'))
                if pg.exit == 'return' and rg and rg[0] == 'agg' and rg[1] == 'symbols::Symbol':
                    iv = deref(pg.env, rg[3][fields.index('index')])
                    builds = iv in (('local', 2), ('deref', ('local', 2)))
            if builds:
                idx = ('okval', r[1][2][0])
        if r and r[0] == 'agg' and r[1] == 'symbols::Symbol':
            fields = [f['name'] for f in F.adt('symbols::Symbol')['variants'][0]['fields']]
            idx = r[3][fields.index('index')]
        v = idx
        for _ in range(10):
            if v is None:
                break
            if v[0] == 'call' and (v[1].endswith('::unwrap') or v[1].endswith('Result::<T, E>::ok') or v[1].endswith('try_into') or v[1].endswith('::try_from') or v[1].endswith('::expect') or v[1].endswith('::unwrap_or_default')
                                   or (v[1].endswith('::from') and len(v[2]) == 1) or (v[1].startswith('compiler::') and len(v[2]) == 1)):
                v = v[2][0]
            elif v[0] in ('okval', 'cast'):
                v = v[1]
            elif v[0] == 'field' and v[2] == '0' and v[1][0] == 'binop' and v[1][1].endswith('WithOverflow'):
                v = ('binop', v[1][1][:-12], v[1][2], v[1][3])
            else:
                break
        pushes = [i for i, c in enumerate(p.calls) if c[1] == 'alloc::vec::Vec::<T, A>::push']

        def counts_all(x):
            return isinstance(x, tuple) and x and x[0] == 'call' and (x[1] == 'symbols::Context::total_len' or x[1].endswith('::fold') or x[1].endswith('::sum'))

        def call_pos(x):
            for i, c in enumerate(p.calls):
                if len(x) > 3 and c[0] == x[3] and c[1] == x[1]:
                    return i
            return None
        ok = False
        why = 'index = %s' % (show(v)[:120] if v else None)
        if v is not None and len(pushes) == 1:
            if v[0] == 'binop' and v[1] == 'Sub' and counts_all(v[2]) and int_of(v[3]) == 1:
                cp = call_pos(v[2])
                ok = cp is not None and cp > pushes[0]
            elif counts_all(v):
                cp = call_pos(v)
                ok = cp is not None and cp < pushes[0]
        elif len(pushes) != 1:
            why = 'the name is appended %d times on this path' % len(pushes)
        rep.ob(ok, rule, dfn.path, 'slot of a new name (path %d)' % n, 'one append to the innermost scope, and the slot returned is the number of names in all open scopes of the context minus one, counted after the append: %s' % why, dfn.loc())
    rep.count('define_paths', n)
    if n == 0:
        raise CheckerError('%s: Context::define has no returning path' % rule)
