"""C09 — names resolve lexically; undeclared names are rejected before anything runs."""
from mirlib import *
from synlib import *
from rules import csa_run
from rules.psc import sym, strip

META = {
    'title': 'Names resolve lexically; undeclared names are rejected before anything runs',
    'explanation': 'R09.1 scope/context entry and exit are paired on every normal path of the compiler (CSA) and the constructors establish '
                   'the base; R09.2 insertion appends, therefore lookup scans scopes last-to-first and names within a scope last-to-first; '
                   'R09.3 a function body sees exactly its own context and the global one; R09.4 every slot operand is the index of a symbol '
                   'obtained from define/resolve and every failed resolve ends in a ReferenceError at compile time; R09.5 a declaration '
                   'defines its name before compiling the initialiser, and a named function before its body.',
    'not_decided': ['agreement of the slot arithmetic (total_len()-1 vs abs_index+index) for every enter/leave/define history', 'run-time values of variables'],
}
SYM = 'src/symbols.rs'


def iter_chain(e):
    """method chain of an expression: [('recv', base), m1, m2, ...]"""
    chain = []
    while isinstance(e, dict) and e.get('k') == 'mcall':
        chain.append((e['method'], e['args']))
        e = e['recv']
    chain.reverse()
    return e, chain


def counted_loops(body):
    """[{'node', 'var', 'dir'}] for the index-driven loops below `body`"""
    out = []
    for w in find_all(body, lambda n: n.get('k') == 'while'):
        c = w['cond']
        if c.get('k') != 'binary':
            continue
        stmts = w['body']['stmts']

        def step_of(st, var, op):
            e = st.get('expr') if st.get('k') == 's_expr' else None
            if not e:
                return False
            if e.get('k') == 'assignop' or (e.get('k') == 'binary' and e.get('op') in ('-=', '+=')):
                return path_of(e.get('l') or e.get('left')) == [var] and e.get('op') == op and render(e.get('r') or e.get('right')) == '1'
            if e.get('k') == 'assign':
                r = e.get('r') or e.get('right') or e.get('value')
                return path_of(e.get('l') or e.get('left') or e.get('target')) == [var] and render(r).replace(' ', '') == '%s%s1' % (var, op[0])
            return False
        l, r = c['l'], c['r']
        if c['op'] in ('>', '!=') and path_of(l) and len(path_of(l)) == 1 and render(r) == '0' and stmts and step_of(stmts[0], path_of(l)[0], '-='):
            out.append({'node': w, 'var': path_of(l)[0], 'dir': 'reverse'})
        elif c['op'] in ('<', '!=') and path_of(l) and len(path_of(l)) == 1 and stmts and any(step_of(s_, path_of(l)[0], '+=') for s_ in stmts):
            out.append({'node': w, 'var': path_of(l)[0], 'dir': 'forward'})
    for f in find_all(body, lambda n: n.get('k') == 'for'):
        it = f['iter']
        base, ch = iter_chain(it)
        ms = [m for m, _ in ch]
        if f['pat'].get('k') == 'p_ident' and base.get('k') in ('range', 'paren') and ms in ([], ['rev']):
            out.append({'node': f, 'var': f['pat']['name'], 'dir': 'reverse' if ms == ['rev'] else 'forward'})
    return out


def run(ctx, rep):
    F = ctx.facts()
    S = ctx.syn()
    R = csa_run.analyse(ctx)
    rep.rule('R09.1', 'enter_scope/leave_scope and new_context/leave_context are paired on every normal path; constructors push the base')
    rep.rule('R09.2', 'lookup prefers the innermost scope and, within a scope, the latest declaration')
    rep.rule('R09.3', 'a function body resolves names in its own context, then in the global context only')
    rep.rule('R09.4', 'every identifier use goes through the symbol table; an unknown name is a ReferenceError raised during compilation')
    rep.rule('R09.5', 'declare before use: `stel` defines the name before its initialiser is compiled; a named function before its body')
    # R09.1
    bad = [v for v in R['violations'] if v['oblig'] == 'R09.1']
    for v in bad:
        rep.bad('R09.1', 'compiler::Compiler::' + v['method'], v['construct'], v['text'], 'src/compiler.rs', key=v['kc'])
    npaths = 0
    seen = set()
    for a in R['arms']:
        if a['method'] in ('compile_block_statement',) or a['trace'].startswith('Expr::Function'):
            k = (a['method'], a['trace'])
            if k in seen:
                continue
            seen.add(k)
            npaths += 1
            if not any(v['method'] == a['method'] and v['construct'].startswith(a['trace']) for v in bad):
                rep.good('R09.1', 'compiler::Compiler::' + a['method'], 'pairing on ' + a['trace'], 'balanced on this path', 'src/compiler.rs')
    rep.count('pairing_paths', npaths)
    # constructors
    st_new = F.fn('symbols::SymbolTable::new')
    okc = False
    for b, si, st in st_new.stmts():
        pass
    s_new = str([sym(st_new, a) for b, t in st_new.calls() for a in t['args']])
    okc = 'symbols::Context::new' in [callee_name(t) for b, t in st_new.calls()] and 'Global' in str(
        [a for b, t in st_new.calls() if callee_name(t) == 'symbols::Context::new' for a in t['args']] + [st for b, si, st in st_new.stmts() if st['k'] == 'assign' and st['rv'].get('variant') == 'Global'])
    rep.ob(okc, 'R09.1', st_new.path, 'base context', 'SymbolTable::new starts with exactly the global context', st_new.loc())
    cn = S.method(SYM, 'Context', 'new')
    vecs = find_all(cn['body'], lambda n: n.get('k') == 'macro' and n['name'] == 'vec')
    okv = len(vecs) == 1 and len(vecs[0].get('args') or []) == 1
    rep.ob(okv, 'R09.1', 'symbols::Context::new', 'base scope', 'a new context starts with one scope', 'src/symbols.rs:%d' % cn['line'])

    rep.rule('R09.6', 'every node of a statement / argument / element list is compiled (names in all of them are resolved)')
    b6 = [v for v in R['violations'] if v['oblig'] == 'R09.6']
    for v in b6:
        rep.bad('R09.6', 'compiler::Compiler::' + v['method'], v['construct'], v['text'], 'src/compiler.rs', key=v['kc'])
    if not b6:
        rep.good('R09.6', 'compiler::Compiler', 'loops over syntax-tree lists', 'no loop over a list of syntax-tree nodes has an early exit other than an error', 'src/compiler.rs')
    # R09.2 lookup direction
    res = S.method(SYM, 'Context', 'resolve')
    dfn = S.method(SYM, 'Context', 'define')
    appends = find_all(dfn['body'], lambda n: n.get('k') == 'mcall' and n['method'] == 'push')
    inserts = find_all(dfn['body'], lambda n: n.get('k') == 'mcall' and n['method'] in ('insert',))
    rep.ob(len(appends) == 1 and not inserts, 'R09.2', 'symbols::Context::define', 'insertion appends', 'names are appended to the innermost scope (push)', 'src/symbols.rs:%d' % dfn['line'])
    loops = find_all(res['body'], lambda n: n.get('k') == 'for')
    verdict_scopes = None
    verdict_names = None
    if len(loops) == 1:
        base, ch = iter_chain(loops[0]['iter'])
        ms = [m for m, _ in ch]
        if ms == ['iter', 'rev']:
            verdict_scopes = 'reverse'
        elif ms == ['iter']:
            verdict_scopes = 'forward'
        elif ms in (['iter', 'enumerate', 'rev'],):
            verdict_scopes = 'reverse'
        searches = find_all(loops[0]['body'], lambda n: n.get('k') == 'mcall' and n['method'] in ('position', 'rposition', 'find', 'rfind', 'last'))
        if not searches:
            searches = find_all(res['body'], lambda n: n.get('k') == 'mcall' and n['method'] in ('position', 'rposition', 'find', 'rfind', 'last'))
        if len(searches) == 1:
            base2, ch2 = iter_chain(searches[0])
            ms2 = [m for m, _ in ch2]
            if ms2 == ['iter', 'rposition']:
                verdict_names = 'latest-first'
            elif ms2 == ['iter', 'position']:
                verdict_names = 'earliest-first'
            elif ms2 == ['iter', 'rev', 'position']:
                verdict_names = 'latest-first(rev)'
            elif ms2 == ['iter', 'enumerate', 'rev', 'find'] or ms2 == ['iter', 'enumerate', 'filter', 'last']:
                verdict_names = 'latest-first'
    if verdict_scopes is None or verdict_names is None:
        # index-driven loops: `while i > 0 { i -= 1; .. x[i] .. }` (reverse) / `while i < n { .. x[i] ..; i += 1 }` (forward)
        for lp in counted_loops(res['body']):
            for ix in find_all(lp['node']['body'], lambda n: n.get('k') == 'index' and path_of(n['index']) == [lp['var']]):
                # only the accesses of this loop, not those of a nested counted loop with another counter
                base = render(ix['base'])
                if 'symbols' in base and 'self' in base:
                    verdict_scopes = verdict_scopes or lp['dir']
                else:
                    early = find_all(lp['node']['body'], lambda n: n.get('k') == 'return')
                    if early:
                        verdict_names = verdict_names or ('latest-first' if lp['dir'] == 'reverse' else 'earliest-first')
    if verdict_names is None:
        srch = find_all(res['body'], lambda n: n.get('k') == 'mcall' and n['method'] in ('position', 'rposition', 'find', 'rfind', 'last'))
        if len(srch) == 1:
            ms2 = [m for m, _ in iter_chain(srch[0])[1]]
            verdict_names = {('iter', 'rposition'): 'latest-first', ('iter', 'position'): 'earliest-first', ('iter', 'rev', 'position'): 'latest-first(rev)',
                             ('iter', 'enumerate', 'rev', 'find'): 'latest-first', ('iter', 'enumerate', 'filter', 'last'): 'latest-first'}.get(tuple(ms2))
    if verdict_scopes is None or verdict_names is None:
        raise CheckerError('R09.2: unrecognised lookup idiom in Context::resolve (scopes: %s, names: %s)' % (verdict_scopes, verdict_names))
    rep.ob(verdict_scopes == 'reverse', 'R09.2', 'symbols::Context::resolve', 'scope order', 'scopes are searched innermost first (%s)' % verdict_scopes, 'src/symbols.rs:%d' % res['line'])
    rep.ob(verdict_names == 'latest-first', 'R09.2', 'symbols::Context::resolve', 'name order within a scope',
           'within one scope the LATEST declaration of a name must win (insertion appends): the scan is %s' % verdict_names, 'src/symbols.rs:%d' % res['line'])
    if verdict_names == 'latest-first(rev)':
        rep.bad('R09.2', 'symbols::Context::resolve', 'index correction', 'rev().position() yields an index from the end; it must be converted', 'src/symbols.rs:%d' % res['line'])

    for im in S.impls(SYM):
        for it in im['items']:
            if it['k'] == 'fn' and 'Option<Symbol>' in it['output'].replace(' ', '') and it['name'] != 'resolve':
                fl = find_all(it['body'], lambda n: n.get('k') == 'for')
                srch = find_all(it['body'], lambda n: n.get('k') == 'mcall' and n['method'] in ('position', 'rposition', 'find', 'rfind'))
                okx = True
                for lp in fl:
                    base, ch = iter_chain(lp['iter'])
                    ms = [m for m, _ in ch]
                    if 'iter' in ms and 'rev' not in ms and 'symbols' in render(lp['iter']):
                        okx = False
                for sr in srch:
                    if sr['method'] in ('position', 'find'):
                        b2, ch2 = iter_chain(sr)
                        if 'rev' not in [m for m, _ in ch2]:
                            okx = False
                rep.ob(okx, 'R09.2', 'symbols::%s::%s' % (im['self_ty'], it['name']), 'lookup order',
                       'every name lookup scans scopes innermost-first and a scope latest-first', 'src/symbols.rs:%d' % it['line'])
    # R09.3 visibility
    check_visibility(ctx, rep, 'R09.3')

    # R09.4 use sites
    provbad = [v for v in R['violations'] if v['oblig'] in ('O8', 'O8-scope') and 'symbol' in v['text']]
    for v in provbad:
        rep.bad('R09.4', 'compiler::Compiler::' + v['method'], v['construct'], v['text'], 'src/compiler.rs', key=v['kc'])
    unresolved_ok = [a for a in R['arms'] if 'unresolved' in a['trace'] and a['method'] in ('compile_expression', 'compile_statement')]
    # an ok-exit whose trace contains an unresolved name must have gone through another, successful resolution of the same name
    # (the fused helper's fallback); what matters: no path emits a slot operand without a resolved symbol (O8) and
    # every arm that resolves has an error exit for None
    errs = [e for e in R['errs'] if 'unresolved' in e['trace']]
    arms_resolving = sorted({e['trace'].split(' / ')[0] for e in errs})
    rep.count('reference_error_exits', len(errs))
    want_arms = ['Expr::Identifier', 'Expr::Assign', 'Expr::Infix']
    for w in want_arms:
        rep.ob(any(a.startswith(w) for a in arms_resolving), 'R09.4', 'compiler::Compiler::compile_expression', 'unknown name in ' + w,
               'a failed resolve leads to an error exit of the compiler', 'src/compiler.rs')
    # those error exits are ReferenceErrors: at every call of the symbol table's resolve in the compiler, the `None` side
    # constructs Error::ReferenceError (directly, or in the closure handed to ok_or_else) (MIR, helpers spliced in)
    n_ref = 0

    def is_referr(st):
        return st['k'] == 'assign' and st['rv']['k'] == 'aggregate' and st['rv'].get('adt') == 'object::Error' and st['rv'].get('variant') == 'ReferenceError'
    resolvers = {'symbols::SymbolTable::resolve'} | {'symbols::SymbolTable::' + n for n in R['csa'].symtab_resolve}
    for fn in [f for f in F.all_fns if f.crate == 'lib' and f.path.startswith('compiler::Compiler::') and '{closure' not in f.path]:
        for b, t in fn.calls():
            if callee_name(t) not in resolvers or t['target'] is None:
                continue
            n_ref += 1
            okr = False
            why = 'no ReferenceError on the None side'
            for sb in sorted(fn.reachable(t['target'])):
                tt = fn.term(sb)
                if tt['k'] == 'switch':
                    c = sym(fn, tt['op'])
                    if c[0] == 'discr' and 'core::option::Option' in str(c[2]) and callee_name(t) in str(c[1]) and fn.dominates(b, sb):
                        none_t = [tb for v_, tb in tt['targets'] if v_ == 0]
                        some_t = [tb for v_, tb in tt['targets'] if v_ == 1] + ([tt['otherwise']] if not any(v_ == 1 for v_, _ in tt['targets']) else [])
                        if not none_t:
                            none_t = [tt['otherwise']]
                        region = fn.reachable(none_t[0], stop=set(some_t))
                        if any(is_referr(st) for rb in region for st in fn.blocks[rb]['stmts']):
                            okr = True
                        break
                elif tt['k'] == 'call' and callee_name(tt).endswith(('::ok_or_else', '::ok_or')) and callee_name(t) in str(sym(fn, tt['args'][0])):
                    a1 = sym(fn, tt['args'][1]) if len(tt['args']) > 1 else ('?',)
                    clos = [g for g in F.all_fns if g.path.startswith(fn.path + '::{closure') or any(g.path.startswith(h + '::{closure') for h in F.inlined.get(('lib', fn.path), []))]
                    if any(is_referr(st) for g in clos for _, _, st in g.stmts()) or 'ReferenceError' in str(a1):
                        okr = True
                    break
            rep.ob(okr, 'R09.4', fn.path, 'unresolved name at %s#%d' % (callee_name(t).split('::')[-1], n_ref), 'a failed lookup becomes Error::ReferenceError' if okr else why, span_loc(t['span']))
    rep.count('reference_error_sites', n_ref)
    # compile-time: eval runs the VM only after compile_ast returned Ok (R01.1)
    from rules import c01
    c01.check_pipeline(ctx, rep, 'R09.4')

    # R09.5 declare-before-use order (syntax order inside the arms)
    cs = S.method('src/compiler.rs', 'Compiler', 'compile_statement')
    arms = [a for m in find_all(cs['body'], lambda n: n.get('k') == 'match') for a in m['arms']]
    let_arm = [a for a in arms if render_pat(a['pat']).startswith('Stmt::Let')]
    ok = False
    if len(let_arm) == 1:
        calls = [n for n in find_all(S.expanded('src/compiler.rs', 'Compiler', let_arm[0]['body']), lambda n: n.get('k') == 'mcall')]
        order = [n['method'] for n in calls if n['method'] in ('define', 'compile_expression')]
        ok = order[:2] == ['define', 'compile_expression']
    rep.ob(ok, 'R09.5', 'compiler::Compiler::compile_statement', 'Stmt::Let order', 'define(name) precedes compile_expression(value)', 'src/compiler.rs')
    ce = S.method('src/compiler.rs', 'Compiler', 'compile_expression')
    farm = [a for m in find_all(ce['body'], lambda n: n.get('k') == 'match') for a in m['arms'] if render_pat(a['pat']).startswith('Expr::Function')]
    ok = False
    if len(farm) == 1:
        fbody = S.expanded('src/compiler.rs', 'Compiler', farm[0]['body'])
        calls = [n for n in find_all(fbody, lambda n: n.get('k') == 'mcall')]
        order = [n['method'] for n in calls if n['method'] in ('define', 'new_context', 'compile_block_statement', 'leave_context')]
        ok = order[:2] == ['define', 'new_context'] and 'compile_block_statement' in order and order.index('new_context') < order.index('compile_block_statement') < order.index('leave_context')
        # parameters are defined right after new_context, in order (for-loop over parameters)
        fl = [n for n in find_all(fbody, lambda n: n.get('k') == 'for')]
        okp = any(render(n['iter']).endswith('parameters') and find_all(n['body'], lambda x: x.get('k') == 'mcall' and x['method'] == 'define') for n in fl)
        ok = ok and okp
    rep.ob(ok, 'R09.5', 'compiler::Compiler::compile_expression', 'Expr::Function order', 'define(name); new_context(); define(parameters in order); body; leave_context()', 'src/compiler.rs')


def check_visibility(ctx, rep, rule):
    """SymbolTable::resolve consults exactly the current context and the global one: a Local symbol therefore always
    belongs to the frame of the function being compiled (its index is below that frame's size)"""
    F = ctx.facts()
    sr = F.fn('symbols::SymbolTable::resolve')
    consulted = []
    for b, t in sr.calls():
        if callee_name(t) == 'symbols::Context::resolve':
            a = str(sym(sr, t['args'][0]))
            if 'split_last' in a and 'contexts' in a:
                # (last, prefix) of the context stack: the prefix's first element is contexts[0] whenever it exists
                consulted.append('global' if '::first' in a else 'current')
            elif 'current_context' in a or ('contexts' in a and ('::last' in a or '::last_mut' in a)):
                consulted.append('current')
            elif 'contexts' in a and (('index' in a and "('int', 0)" in a) or '::first' in a):
                consulted.append('global')
            else:
                consulted.append('other:' + a[:80])
    rep.ob(sorted(consulted) == ['current', 'global'], rule, sr.path, 'contexts consulted', 'exactly the current context and contexts[0]: %s' % consulted, sr.loc())

