"""C02 — execution never leaves the interpreter's own memory: we verify the *generator*."""
from mirlib import *
from rules import csa_run, vmx, tables
from rules import psc as _psc
from rules.shared import deref

META = {
    'title': "Execution never leaves the interpreter's own memory (no underflow, no wild jump)",
    'explanation': 'Instead of verifying the bytecode of each program we verify the code generator: CSA interprets the source of '
                   'every arm of compile_statement/compile_expression under an abstract state of the emitted code (stack height, '
                   'last opcode, labels, pending jumps, loop contexts, frames, operand provenance) with per-opcode effects '
                   'extracted from the MIR of the VM dispatch loop, and closes under the grammar by a summary fixpoint '
                   '(inductive hypotheses: every expression nets +1, every statement 0). Obligations: O1/O2 balance, O3 equal '
                   'height at every merge, O4 peephole legality, O5 function bodies end in a return, O6 jumps stay inside their '
                   'function/loop, O7 every placeholder patched on an instruction boundary, O8 operand widths and provenance '
                   'agree between compiler, OpCode::operands() and VM. Plus structural contracts of the emit primitives, '
                   'who writes the code buffer, index-range provenance and an inventory of unsafe operations. R02.9 pushframe saves the code position whole in the frame being left and popframe restores ip/bp from the frame below (no narrowed return address). R02.10 equality, which de-duplicates the constant pool, compares function descriptors by the whole word (entry and frame size).',
    'not_decided': ['memory safety of std/bitvec themselves', 'host stack exhaustion by deep recursion (C05/TRM)', 'exhaustion of memory'],
}

COMPILER = 'compiler::Compiler'


def run(ctx, rep):
    F = ctx.facts()
    R = csa_run.analyse(ctx)
    rep.rule('R02.1', 'operand agreement: OpCode::operands() = VM fetch sequence = compiler emit sequence, for all opcodes')
    rep.rule('R02.2', 'only the emit primitives write the code buffer / the peephole register; opcode and builtin bytes come from their enums')
    rep.rule('R02.3', 'stack balance of generated code (CSA O1 O2 O3 O4, no underflow)')
    rep.rule('R02.4', 'jump discipline (CSA O7; checked usize->u16 conversions of code positions)')
    rep.rule('R02.5', 'code regions terminate: function bodies end in Return*, top level ends in Halt, no jump leaves a function body (CSA O5 O6)')
    rep.rule('R02.6', 'index ranges: constant index from add_constant (< pool size), local slots from the symbol table (< frame size)')
    rep.rule('R02.7', 'unsafe inventory: every unsafe operation belongs to an obligation class decided by another rule')
    rep.rule('R02.8', 'the emit primitives satisfy the contracts CSA assumes')

    opt = R['optable']
    decl = R['decl']
    ops = [n for n, _ in F.enum_variants(tables.OPCODE)]
    rep.count('opcodes', len(ops))
    vmfn = vmx.vmx(ctx)['fn']
    # R02.1
    for op in ops:
        s = opt.get(op)
        if s is None:
            rep.bad('R02.1', vmfn.path, 'OpCode::%s' % op, 'no arm of the VM dispatch handles this opcode', vmfn.loc())
            continue
        probs = R['vm_problems'].get(op) or []
        d = decl.get(op)
        ok = d is not None and list(d) == list(s['fetch']) and not probs
        rep.ob(ok, 'R02.1', vmfn.path, 'OpCode::%s' % op, 'operands() declares %s, the VM arm fetches %s%s' % (d, s['fetch'], ('; ' + '; '.join(probs)) if probs else ''), vmfn.loc())
    rep.table('vmx', {op: {k: v for k, v in s.items() if k in ('fetch', 'pops', 'pushes', 'loops', 'class', 'err_exits')} for op, s in opt.items()})

    # CSA violations -> rules
    mp = {'O1': 'R02.3', 'O2': 'R02.3', 'O3': 'R02.3', 'O4': 'R02.3', 'O1-underflow': 'R02.3', 'O5': 'R02.5', 'O6': 'R02.5', 'O6-operands': 'R02.3', 'O7': 'R02.4',
          'O8': 'R02.1', 'O8-scope': 'R02.6', 'R02.2': 'R02.2', 'R02.6': 'R02.6', 'R12.1': 'R02.6', 'R09.1': None, 'R09.6': None, 'R17.2': None}
    nv = 0
    for v in R['violations']:
        rule = mp.get(v['oblig'], 'R02.3')
        if rule is None:
            continue
        nv += 1
        rep.bad(rule, COMPILER + '::' + v['method'], '%s %s' % (v['oblig'], v['construct']), v['text'], 'src/compiler.rs', key='%s %s' % (v['oblig'], v['kc']))
    # every arm path examined is an obligation instance that holds unless reported
    arms = {}
    for a in R['arms']:
        arms.setdefault((a['method'], a['trace']), a)
    bad_traces = {(v['method'], v['construct'].split(' :: ')[0]) for v in R['violations']}
    for (m, tr), a in sorted(arms.items()):
        if (m, tr) not in bad_traces:
            rep.good('R02.3', COMPILER + '::' + m, 'arm ' + tr, 'h: %s, last=%s, reach=%s' % (a['dh'], a['last'], a['reach']), 'src/compiler.rs')
    rep.count('csa_arm_paths', len(arms))
    rep.count('csa_paths_total', len(R['arms']))
    rep.table('csa_summaries', R['summaries'])
    for a in list(arms.values())[:6]:
        rep.sample({'method': a['method'], 'arm': a['trace'], 'emits': a['emits'][:12], 'dh': a['dh'], 'last': a['last']})

    # cross-check: syntactic emit sites vs MIR call sites per method (nothing hides behind a macro / another module)
    total = 0
    for meth, kinds in sorted(R['sites'].items()):
        fn = F.transparent_fns.get('compiler::Compiler::' + meth) or F.fn('compiler::Compiler::' + meth)
        for kind, n in kinds.items():
            mir_n = sum(1 for b, t in fn.own_calls() if callee_name(t) == 'compiler::Compiler::' + kind)
            total += n
            if mir_n != n:
                raise CheckerError('cross-check failed: %s has %d syntactic %s sites but %d MIR call sites' % (meth, n, kind, mir_n))
    # every MIR caller of the primitives is a Compiler method seen by CSA
    for prim in ('emit_opcode', 'emit_u8', 'emit_u16', 'change_jump_operand_at', 'remove_last_instruction'):
        for f, b, t in F.callers_of(lambda p: p == 'compiler::Compiler::' + prim):
            inl = f.blocks[b].get('inl')
            import re as _re2
            m = _re2.sub(r'(::\{closure#\d+\})+$', '', (inl[-1] if inl else f.path)).split('::')[-1]      # a spliced-in helper (or the method a closure is written in) is where the call is written
            rep.ob(f.path.startswith('compiler::Compiler::') and m in R['sites'], 'R02.2', _re2.sub(r'(::\{closure#\d+\})+$', '', f.path), 'calls ' + prim,
                   'code-buffer primitive called from a function CSA analyses', span_loc(t['span']))
    rep.count('emit_sites', total)

    # R02.2 field-write census
    writers = {}
    for f in F.all_fns:
        for b, si, st in f.stmts():
            if st['k'] != 'assign':
                continue
            pl = st['place']
            flds = place_fields(pl)
            owner = [e.get('of') for e in pl['proj'] if isinstance(e, dict) and 'field' in e]
            if flds[:1] == ['last_instruction'] and owner[:1] == [COMPILER]:
                writers.setdefault('last_instruction', set()).add(f.path)
            if flds[:1] == ['instructions'] and owner[:1] == [COMPILER]:
                writers.setdefault('instructions', set()).add(f.path)
            rv = st['rv']
            if rv['k'] in ('ref', 'rawptr') and rv.get('mut'):
                fl = place_fields(rv['place'])
                ow = [e.get('of') for e in rv['place']['proj'] if isinstance(e, dict) and 'field' in e]
                if fl[:1] == ['instructions'] and ow[:1] == [COMPILER]:
                    writers.setdefault('instructions', set()).add(f.path)
                if fl[:1] == ['last_instruction'] and ow[:1] == [COMPILER]:
                    writers.setdefault('last_instruction', set()).add(f.path)
    allowed_code = {'compiler::Compiler::emit_opcode', 'compiler::Compiler::emit_u8', 'compiler::Compiler::emit_u16',
                    'compiler::Compiler::change_jump_operand_at', 'compiler::Compiler::remove_last_instruction'}
    for w in sorted(writers.get('instructions', ())):
        if w in allowed_code:
            rep.good('R02.2', w, 'writes Compiler.instructions', 'emit primitive', None)
            continue
        # other functions may only move the finished buffer out / shrink it (no byte is added or changed)
        fn = F.fn(w)
        calls = set()
        for b, t in fn.calls():
            for a in t['args']:
                d = fn.def_rvalue(a)
                if d and d[0] == 'assign' and d[3]['k'] == 'ref' and place_fields(d[3]['place'])[:1] == ['instructions'] and d[3].get('mut'):
                    calls.add(callee_name(t))
        okset = {'alloc::vec::Vec::<T, A>::shrink_to_fit', 'core::mem::take', 'alloc::vec::Vec::<T, A>::clear'}
        rep.ob(calls <= okset, 'R02.2', w, 'writes Compiler.instructions',
               'only the emit primitives may add or change bytes; %s does %s' % (w, sorted(calls)), fn.loc())
    for w in sorted(writers.get('last_instruction', ())):
        rep.ob(w in ('compiler::Compiler::emit_opcode', 'compiler::Compiler::remove_last_instruction', 'compiler::Compiler::new') or w in tables.top_compile_fns(ctx),
               'R02.2', w, 'writes Compiler.last_instruction', 'the peephole register is written only by emit_opcode / remove_last_instruction', F.fn(w).loc())

    # enum byte provenance
    for en in (tables.OPCODE, tables.BUILTIN):
        a = F.adt(en)
        ds = [v['discr'] for v in a['variants']]
        ok = all(not v['fields'] for v in a['variants']) and sorted(ds) == list(range(len(ds))) and 'I8' in a['repr_int']
        rep.ob(ok, 'R02.2', en, 'fieldless repr(u8) contiguous', 'every byte written from the enum is a valid discriminant: %s %s' % (a['repr_int'], ds[-1:]), span_loc(a['span']))
    # the transmute sites read bytes written from these enums: OpCode::from only via VM::next; Builtin transmute only in CallBuiltin arm
    for f, b, t in F.callers_of(lambda p: p == '<compiler::OpCode as core::convert::From<u8>>::from'):
        ok = f.path in ('vm::VM::next', 'compiler::bytecode_to_human')
        if not ok and f.path == vmx.vmx(ctx)['fn'].path:
            # decoded in the dispatch loop itself: the byte is the one just fetched and the result is what the loop switches on
            vv = vmx.vmx(ctx)
            a0 = _psc.strip(_psc.sym(f, t['args'][0]))
            ok = a0[0] == 'call' and a0[1] == 'vm::VM::read_u8' and b in f.dominators().get(vv['switch'], ()) and b in vv['fn'].reachable(vv['header'])
        how = ''
        if not ok and f.path.startswith('compiler::'):
            how = _decode_in_code_scan(F, f, b, t)
            ok = bool(how)
        rep.ob(ok, 'R02.2', f.path, 'OpCode::from(byte)', 'opcode bytes are decoded only at the instruction-fetch position' + (' (%s)' % how if how else ''), span_loc(t['span']))
    ntrans = 0
    for f in F.all_fns:
        for b, si, st in f.stmts():
            if st['k'] == 'assign' and st['rv']['k'] == 'cast' and st['rv']['ck'] == 'Transmute' and st['rv']['to'] == tables.BUILTIN:
                ntrans += 1
                v = vmx.vmx(ctx)
                inarm = f.path == v['fn'].path and b in v['arms'].get('CallBuiltin', {}).get('region', ())
                src = f.resolve_copy(st['rv']['op'])
                d = f.def_rvalue(st['rv']['op'])
                from_fetch = bool(d and d[0] == 'call' and callee_name(d[2]) == 'vm::VM::read_u8')
                rep.ob(inarm and from_fetch, 'R02.2', f.path, 'transmute::<u8, Builtin>', 'the byte is operand#1 of CallBuiltin, which CSA shows is `builtin as u8`', span_loc(st['span']))
    rep.count('builtin_transmutes', ntrans)

    check_primitives(ctx, rep)
    check_ranges(ctx, rep)
    check_casts(ctx, rep)
    check_halt(ctx, rep)
    from rules import unsafe_inv
    unsafe_inv.check(ctx, rep, 'R02.7')
    rep.rule('R02.9', 'a return goes back to where the call came from: pushframe saves the current code position whole in the frame being left, popframe restores ip / bp from the frame below and cuts the stack at the popped base (a narrowed or misplaced return address is a wild jump)')
    from rules import c12 as _c12
    _c12.frame_contracts(ctx, rep, 'R02.9')
    rep.rule('R02.10', 'two function constants are the same only if entry AND frame size are: equality (which de-duplicates the constant pool) compares immediates by the whole word, after the tags')
    from rules import shared as _sh, c15 as _c15
    _sh.check_object_eq(F, rep, 'R02.10', _c15.heap_types(ctx))


def check_halt(ctx, rep):
    """compile_ast ends every Ok path with emit_opcode(Halt) after the last statement"""
    F = ctx.facts()
    fn = tables.bytecode_builder(ctx)
    n = 0
    for p in AbsInt(F, fn, max_paths=5000).run():
        r = simp(p.env.get('_0'))
        if p.exit == 'return' and r and r[0] == 'agg' and r[2] == 'Ok':
            n += 1
            em = [c for c in p.calls if c[1] in ('compiler::Compiler::emit_opcode', 'compiler::Compiler::compile_statement')]
            ok = bool(em) and em[-1][1] == 'compiler::Compiler::emit_opcode' and em[-1][2][1] == ('enum', tables.OPCODE, 'Halt')
            rep.ob(ok, 'R02.5', fn.path, 'Ok path ends in Halt', 'the last code emitted for a program is Halt', fn.loc())
    rep.count('compile_ast_ok_paths', n)
    if not n:
        rep.bad('R02.5', fn.path, 'Ok path ends in Halt', 'no Ok path found', fn.loc())


def byte_of(v, env):
    """(base value, k) when v is byte k (0 = least significant) of a 16-bit base value, in any of the usual spellings"""
    v = uncast(v)
    if v[0] == 'ref' and v[1] in env:
        return byte_of(env[v[1]], env)
    # x & 0xff  /  (x >> 8) & 0xff  /  x >> 8
    if is_binop(v, 'BitAnd') and int_of(v[3]) == 255:
        inner = uncast(v[2])
        if is_binop(inner, 'Shr') and int_of(inner[3]) == 8:
            return (uncast(inner[2]), 1)
        return (inner, 0)
    if is_binop(v, 'Shr') and int_of(v[3]) == 8:
        return (uncast(v[2]), 1)
    # x.to_le_bytes()[k] / to_be_bytes()[1-k], by indexing or by destructuring
    k = None
    src = None
    if v[0] == 'index' and int_of(v[2]) is not None:
        src, k = uncast(v[1]), int_of(v[2])
    elif v[0] == 'proj' and 'const_index' in str(v[2]):
        import re
        m = re.search(r"'offset': (\d+)", str(v[2])) or re.search(r"'const_index': (\d+)", str(v[2]))
        src, k = uncast(v[1]), int(m.group(1)) if m else None
    elif v[0] == 'call' and v[1].endswith('Index<I>>::index') and int_of(v[2][1]) is not None:
        src, k = uncast(v[2][0]), int_of(v[2][1])
    if src is not None and k is not None:
        while src[0] == 'ref' and src[1] in env:
            src = uncast(env[src[1]])
        if src[0] == 'call' and src[1].endswith('::to_le_bytes'):
            return (uncast(src[2][0]), k)
        if src[0] == 'call' and src[1].endswith('::to_be_bytes'):
            return (uncast(src[2][0]), 1 - k)
        return None
    if v[0] in ('local',):
        return (v, 0)       # `x as u8`: the truncating cast keeps the low byte
    return None


def le_array_of(v, env):
    """x when v is (a reference to) the two-byte array x.to_le_bytes(), else None"""
    v = uncast(v)
    n = 0
    while v[0] == 'ref' and v[1] in env and n < 4:
        v = uncast(env[v[1]])
        n += 1
    if v[0] == 'call' and v[1].endswith('::to_le_bytes') and 'u16' in v[1]:
        return uncast(v[2][0])
    return None


def narrowed_base(v):
    """x when v is x itself or the success value of a checked narrowing of x (`narrow(x)?`, `u16::try_from(x)?`)"""
    v = uncast(v)
    if v[0] == 'field' and v[1][0] == 'downcast' and v[1][2] in ('Continue', 'Ok'):
        inner = uncast(v[1][1])
        if inner[0] == 'call' and inner[1].endswith('Try>::branch'):
            inner = uncast(inner[2][0])
        if inner[0] == 'call' and (inner[1] == 'compiler::narrow' or inner[1].endswith(('::try_from', '::try_into'))):
            return uncast(inner[2][0])
    return v


def bytes_joined(r, env):
    """[low byte source, high byte source] of a 16-bit value assembled from two bytes"""
    r = uncast(r)
    if is_binop(r, 'BitOr'):
        parts = [uncast(r[2]), uncast(r[3])]
        hi = [x for x in parts if is_binop(x, 'Shl') and int_of(x[3]) == 8]
        lo = [x for x in parts if not is_binop(x, 'Shl')]
        if len(hi) == 1 and len(lo) == 1:
            return [lo[0], uncast(hi[0][2])]
        return None
    if r[0] == 'call' and r[1].endswith(('::from_le_bytes', '::from_be_bytes')) and r[2]:
        a = uncast(r[2][0])
        if a[0] == 'agg' and len(a[3]) == 2:
            return list(a[3]) if r[1].endswith('from_le_bytes') else [a[3][1], a[3][0]]
    return None


def stream_pos(v, p):
    """which byte of the instruction stream (0 = first after the opcode) a value read by the VM is"""
    v = uncast(v)
    if v[0] == 'call' and v[1] == 'vm::VM::read_u8':
        reads = [c[0] for c in p.calls if c[1] == 'vm::VM::read_u8']
        return reads.index(v[3]) if v[3] in reads else None
    s_ = show(v)
    if v[0] == 'index' and int_of(v[2]) is not None and 'get_unchecked' in s_ and '.ip' in s_:
        return int_of(v[2])
    if v[0] in ('index', 'deref', 'call', 'proj'):
        import re
        m = re.search(r'(\d)_usize', s_)
        if m and ('get_unchecked' in s_ or 'index' in s_.lower()):
            return int(m.group(1))
    return None


def check_primitives(ctx, rep, rule='R02.8', only=None):
    F = ctx.facts()
    C = 'compiler::Compiler::'
    _rep = rep

    class _Only:
        def ob(self, ok, r, fnpath, *a, **k):
            if only is None or fnpath.split('::')[-1] in only:
                _rep.ob(ok, r, fnpath, *a, **k)
        def count(self, k, v):
            if only is None:
                _rep.count(k, v)

        def __getattr__(self, n):
            return getattr(_rep, n)
    rep = _Only()

    def paths(name):
        fn = F.fn(C + name)
        return fn, [p for p in AbsInt(F, fn).run() if p.exit == 'return']

    def self_writes(p):
        return [(w[1], w[2]) for w in p.writes if w[1].startswith('_1.*')]
    PUSH = 'alloc::vec::Vec::<T, A>::push'
    # emit_opcode
    fn, ps = paths('emit_opcode')
    ok = len(ps) == 1
    if ok:
        p = ps[0]
        pushes = [c for c in p.calls if c[1] == PUSH]
        ok = len(pushes) == 1 and pushes[0][2][0] == ('ref', '_1.*.f2') or (len(pushes) == 1 and pushes[0][2][0][0] == 'ref' and pushes[0][2][0][1].startswith('_1.*'))
        v = pushes[0][2][1] if pushes else None
        ok = ok and v is not None and uncast(v)[0] == 'discr_of' and uncast(v)[3] == ('local', 2)
        ws = self_writes(p)
        ok = ok and len(ws) == 1 and ws[0][1][0] == 'agg' and ws[0][1][2] == 'Some' and ws[0][1][3][0] == ('local', 2)
        ok = ok and len([c for c in p.calls if c[1] != 'drop']) == 1
    rep.ob(ok, rule, fn.path, 'contract', 'appends exactly one byte `op as u8` and sets last_instruction = Some(op)', fn.loc())
    # emit_u8
    fn, ps = paths('emit_u8')
    ok = len(ps) == 1 and [c[1] for c in ps[0].calls] == [PUSH] and ps[0].calls[0][2][1] == ('local', 2) and not self_writes(ps[0])
    rep.ob(ok, rule, fn.path, 'contract', 'appends exactly one operand byte and leaves last_instruction', fn.loc())
    # emit_u16 (little endian) vs VM::read_u16: the k-th byte written is byte k of the value, the k-th byte read becomes byte k
    fn, ps = paths('emit_u16')
    ok = len(ps) == 1
    if ok:
        pushes = [c for c in ps[0].calls if c[1] == PUSH]
        ext = [c for c in ps[0].calls if c[1].endswith('::extend_from_slice')]
        if len(ext) == 1 and not pushes:
            # both bytes appended at once: extend_from_slice(&v.to_le_bytes())
            ok = not self_writes(ps[0]) and all(c is ext[0] or c[1].endswith('::to_le_bytes') for c in ps[0].calls) and \
                ext[0][2][0][0] == 'ref' and ext[0][2][0][1].startswith('_1.*') and le_array_of(ext[0][2][1], ps[0].env) == ('local', 2)
        else:
            ok = len(pushes) == 2 and not self_writes(ps[0]) and all(c[1] == PUSH or c[1].endswith(('::to_le_bytes', '::to_be_bytes')) for c in ps[0].calls)
            if ok:
                ok = byte_of(pushes[0][2][1], ps[0].env) == (('local', 2), 0) and byte_of(pushes[1][2][1], ps[0].env) == (('local', 2), 1)
    rd = F.fn('vm::VM::read_u16')
    rps = [p for p in AbsInt(F, rd).run() if p.exit == 'return']
    okr = len(rps) == 1
    if okr:
        parts = bytes_joined(rps[0].env.get('_0'), rps[0].env)
        okr = parts is not None and [stream_pos(x, rps[0]) for x in parts] == [0, 1]
    ok = ok and fn.local_ty(2) == 'u16'       # a wider argument would lose its upper bytes without an error
    rep.ob(ok and okr, rule, fn.path, 'contract', 'emit_u16 appends the low byte then the high byte of its argument; VM::read_u16 assembles byte 0 as low and byte 1 as high', fn.loc())
    # change_jump_operand_at
    fn, ps = paths('change_jump_operand_at')
    ok = bool(ps)
    for p in ps:
        idxm = [c for c in p.calls if c[1].endswith('IndexMut<I>>::index_mut')]
        if any(c[1].endswith('::from_residual') for c in p.calls):
            # the target does not fit an operand: refused before anything is written
            ok = ok and not idxm and not [c for c in p.calls if c[1] == PUSH or 'copy_from' in c[1] or 'extend' in c[1]] and not self_writes(p)
            continue
        cps = [c for c in p.calls if c[1].endswith('::copy_from_slice')]
        if len(idxm) == 1 and len(cps) == 1:
            # both bytes stored at once: self.instructions[idx + 1..idx + 3].copy_from_slice(&value.to_le_bytes())
            rng = uncast(idxm[0][2][1])

            def plus(v):
                v = uncast(v)
                if v[0] == 'field' and v[1][0] == 'binop' and v[1][1] == 'AddWithOverflow':
                    v = ('binop', 'Add', v[1][2], v[1][3])
                return int_of(v[3]) if is_binop(v, 'Add') and v[2] == ('local', 2) else None
            okr_ = rng[0] == 'agg' and 'Range' in str(rng[1]) and len(rng[3]) == 2 and plus(rng[3][0]) == 1 and plus(rng[3][1]) == 3
            dst = uncast(cps[0][2][0])
            okd = dst[0] == 'ref' and dst[1] == (idxm[0][3] or '') + '.*'
            src_ = le_array_of(cps[0][2][1], p.env)
            ok = ok and okr_ and okd and src_ is not None and narrowed_base(src_) == ('local', 3) and not [w for w in self_writes(p) if 'f3' in w[0]]
            continue

        def is_idx_plus(v, n):
            v = uncast(v)
            if v[0] == 'field' and v[1][0] == 'binop' and v[1][1] == 'AddWithOverflow':
                return v[1][2] == ('local', 2) and int_of(v[1][3]) == n
            return is_binop(v, 'Add') and v[2] == ('local', 2) and int_of(v[3]) == n
        # the values stored through the two element references: byte 0 at idx+1, byte 1 at idx+2
        stored = {}
        for c in idxm:
            for w in p.writes:
                if w[1] == (c[3] or '') + '.*':
                    stored[id(c)] = w[2]
        okb = len(idxm) == 2 and all(id(c) in stored for c in idxm) and \
            [(narrowed_base(b_[0]), b_[1]) if b_ else None for b_ in (byte_of(stored[id(idxm[0])], p.env), byte_of(stored[id(idxm[1])], p.env))] == [(('local', 3), 0), (('local', 3), 1)]
        ok = ok and len(idxm) == 2 and is_idx_plus(idxm[0][2][1], 1) and is_idx_plus(idxm[1][2][1], 2) and okb and not [w for w in self_writes(p) if 'f3' in w[0]]
    # the value is 16 bits wide where its two bytes are taken: the parameter itself is a u16, or it is narrowed by a checked
    # conversion *to u16* first (a wider value would be cut to its low 16 bits: a jump that wraps around)
    if fn.local_ty(3) != 'u16':
        narrows = [(b_, t_) for b_, t_ in fn.calls() if callee_name(t_) == 'compiler::narrow' or callee_name(t_).endswith(('::try_from', '::try_into'))]
        okw = bool(narrows) and all(t_.get('dest') is not None and 'u16' in fn.local_ty(t_['dest']['local']) for b_, t_ in narrows)
        ok = ok and okw
    rep.ob(ok, rule, fn.path, 'contract', 'overwrites exactly bytes idx+1 and idx+2 (low byte, high byte of the 16-bit value) and nothing else', fn.loc())
    # last_instruction_is: pure
    fn, ps = paths('last_instruction_is')
    ok = bool(ps) and all(not self_writes(p) and all(c[1].endswith('::eq') or c[1] == 'drop' for c in p.calls) for p in ps)
    if ok:
        c = [c for c in ps[0].calls if c[1].endswith('::eq')]
        ok = len(c) == 1
        if ok:
            a0, a1 = [deref(ps[0].env, x) for x in c[0][2]]
            ok = (a1[0] == 'agg' and a1[2] == 'Some' and a1[3][0] == ('local', 2)) or (a0[0] == 'agg' and a0[2] == 'Some')
    rep.ob(ok, rule, fn.path, 'contract', 'pure test last_instruction == Some(op)', fn.loc())
    # remove_last_instruction
    fn, ps = paths('remove_last_instruction')
    ok = bool(ps)
    for p in ps:
        pops = [c for c in p.calls if c[1] == 'alloc::vec::Vec::<T, A>::pop']
        ws = self_writes(p)
        ok = ok and len(pops) == 1 and len(ws) == 1 and ws[0][1] == ('enum', 'core::option::Option', 'None') or \
            (ok and len(pops) == 1 and len(ws) == 1 and ws[0][1][0] in ('agg', 'enum') and ws[0][1][2] == 'None')
        ok = ok and not [c for c in p.calls if c[1] == PUSH]
    rep.ob(ok, rule, fn.path, 'contract', 'removes exactly one byte and sets last_instruction = None', fn.loc())
    rep.count('primitive_contracts', 6)


def check_ranges(ctx, rep):
    """R02.6: add_constant returns a found position or the length just before the push"""
    F = ctx.facts()
    fn = F.fn('compiler::Compiler::add_constant')
    n = 0
    for p in AbsInt(F, fn).run():
        if p.exit != 'return':
            continue
        n += 1
        r = simp(p.env.get('_0'))
        if r and r[0] == 'agg' and r[2] == 'Ok':
            r = r[3][0]
        elif r and r[0] in ('errof',) or (r and r[0] == 'agg' and r[2] == 'Err'):
            continue
        src = uncast(r)
        # through try_into().unwrap()
        chain = []
        v = r
        payload_of = None
        for _ in range(8):
            if v[0] == 'call' and (v[1].endswith('::unwrap') or v[1].endswith('try_into') or v[1].endswith('TryInto<U>>::try_into')
                                   or (v[1].startswith('compiler::') and len(v[2]) == 1 and 'Compiler' not in v[1])):
                v = v[2][0]
                continue
            if v[0] == 'okval':
                v = v[1]
                payload_of = v
                continue
            if v[0] == 'cast':
                v = v[1]
                continue
            break
        pushes = [c for c in p.calls if c[1] == 'alloc::vec::Vec::<T, A>::push']
        if pushes:
            # new constant: index = len() taken before the push
            lens = [c for c in p.calls if c[1] == 'alloc::vec::Vec::<T, A>::len']
            ok = v[0] == 'call' and v[1] == 'alloc::vec::Vec::<T, A>::len' and lens and p.calls.index(lens[0]) < p.calls.index(pushes[0]) \
                and len(pushes) == 1
            if not ok and len(pushes) == 1:
                # ... or `len() - 1` read after it
                w = v
                if w[0] == 'field' and w[2] == '0' and w[1][0] == 'binop' and w[1][1].endswith('WithOverflow'):
                    w = ('binop', w[1][1][:-12], w[1][2], w[1][3])
                if w[0] == 'binop' and w[1] == 'Sub' and int_of(w[3]) == 1 and w[2][0] == 'call' and w[2][1] == 'alloc::vec::Vec::<T, A>::len':
                    after = [c for c in p.calls if c[1] == 'alloc::vec::Vec::<T, A>::len' and len(w[2]) > 3 and c[0] == w[2][3]]
                    ok = bool(after) and p.calls.index(after[0]) > p.calls.index(pushes[0])
            rep.ob(ok, 'R02.6', fn.path, 'new constant', 'returns constants.len() read before the single push (or len() - 1 read after it): %s' % show(v), fn.loc())
        else:
            from rules import c05 as _c05
            yielded = _c05._yielded_index(v, p.env)
            ok = (v[0] in ('field', 'downcast') and 'position' in show(v)) or (payload_of is v and v[0] == 'call' and v[1].endswith(('::position', '::rposition'))) or (yielded is not None and 'f%d' % next((i for i, f_ in enumerate(F.adt('compiler::Compiler')['variants'][0]['fields']) if f_['name'] == 'constants'), -1) in str(yielded))
            rep.ob(ok, 'R02.6', fn.path, 'existing constant', 'returns an index the standard library yielded for the constant pool (position / enumerate): %s' % show(v), fn.loc())
    rep.count('add_constant_paths', n)
    check_frame_size(ctx, rep, 'R02.6')
    from rules import c09
    c09.check_visibility(ctx, rep, 'R02.6')


def _decode_in_code_scan(F, f, b, t):
    """OpCode::from(byte) inside the compiler (a read-only look at the code it has emitted) is the decoding of a byte written from
    the enum when (a) a dominating test bounds the byte by the largest discriminant, or (b) the byte is `instructions[p]` for a
    position p that starts at 0 and only ever advances by one plus the operand widths OpCode::operands() declares for the opcode
    decoded at p - the walk then visits exactly the first bytes of the instructions (R02.1: the emit sequences agree with that table)"""
    from rules.shared import int_of, LocalFlow
    a = F.adt(tables.OPCODE)
    top = max(v['discr'] for v in a['variants'])
    val = _psc.strip(_psc.sym(f, t['args'][0]))
    for fa in _psc.facts_at(f, b):
        if fa[0] in ('Le', 'Lt') and _psc.strip(fa[1]) == val and int_of(fa[2]) is not None and int_of(fa[2]) <= (top if fa[0] == 'Le' else top + 1):
            return 'the byte was tested to be at most %d, the largest opcode' % top
    # (b)
    d = f.def_rvalue(t['args'][0])
    src = None
    cur = t['args'][0]
    for _ in range(6):
        l = op_base_local(cur)
        ds = f.defs().get(l, []) if l is not None else []
        if len(ds) != 1:
            break
        if ds[0][0] == 'call':
            src = f.term(ds[0][1])
            break
        rv = ds[0][3]
        if rv['k'] in ('use', 'cast') and rv['op'].get('k') in ('copy', 'move'):
            cur = rv['op']
            continue
        if rv['k'] == 'use' and rv['op'].get('k') == 'copy':
            cur = rv['op']
            continue
        if rv['k'] == 'ref' or (rv['k'] == 'use'):
            pl = rv.get('place') or (rv.get('op') or {}).get('place')
            if pl and pl['proj'] and pl['proj'][0] == 'deref':
                cur = {'k': 'copy', 'place': {'local': pl['local'], 'proj': []}}
                continue
        break
    if src is None or 'ops::index::Index' not in callee_name(src) or len(src['args']) != 2:
        return ''
    if 'instructions' not in str(_psc.sym(f, src['args'][0])):
        return ''
    pl = op_base_local(src['args'][1])
    if pl is None:
        return ''
    # the position variable: through copies to the multi-assigned local
    seen = set()
    while pl is not None and pl not in seen and len(f.defs().get(pl, [])) == 1 and f.defs()[pl][0][0] == 'assign' and f.defs()[pl][0][3]['k'] == 'use' \
            and f.defs()[pl][0][3]['op'].get('k') in ('copy', 'move'):
        seen.add(pl)
        pl = f.defs()[pl][0][3]['op']['place']['local']
    ds = f.defs().get(pl, [])
    if len(ds) < 2:
        return ''
    lf = LocalFlow(f)
    widths = {tt['dest']['local'] for bb, tt in f.calls() if callee_name(tt) == 'compiler::OpCode::operands'}
    for d_ in ds:
        if d_[0] == 'assign' and d_[3]['k'] == 'use' and d_[3]['op'].get('k') == 'const' and d_[3]['op'].get('int') == 0:
            continue
        if d_[0] == 'assign':
            srcs = LocalFlow.locals_of(d_[3])
            if any(lf.reaches(x, {pl}) is not None or x == pl for x in srcs) and any(lf.reaches(x, widths) is not None for x in srcs):
                continue
        return ''
    return 'a walk over the emitted code from offset 0 that advances by 1 + the operand widths of the opcode just decoded'


def check_frame_size(ctx, rep, rule):
    """the frame size of a function (Context::max_size, packed into the function value) counts every parameter and local"""
    F = ctx.facts()
    # Context::define: push + max_size increment on the same path; nothing decrements max_size
    S = 'symbols::'
    dfn = F.fn(S + 'Context::define')
    for p in AbsInt(F, dfn).run():
        if p.exit != 'return':
            continue
        pushes = [c for c in p.calls if c[1] == 'alloc::vec::Vec::<T, A>::push']
        inc = [w for w in p.writes if w[3]['place']['proj'] and 'max_size' in place_fields(w[3]['place'])]
        r0 = simp(p.env.get('_0'))
        if r0 and ((r0[0] == 'agg' and r0[2] in ('None', 'Err')) or r0[0] == 'errof') and not pushes:
            continue        # the name was refused (table full): nothing defined, nothing to count
        okinc = len(inc) == 1 and (('AddWithOverflow' in show(inc[0][2])) or is_binop(inc[0][2], 'Add'))
        rep.ob(len(pushes) == 1 and okinc, rule, dfn.path, 'define grows max_size', 'every defined name increments the frame size (max_size): %s' % [show(w[2]) for w in inc], dfn.loc())
    decs = []
    for f in F.all_fns:
        for b, si, st in f.stmts():
            if st['k'] == 'assign' and 'max_size' in place_fields(st['place']) and f.path not in (S + 'Context::define', S + 'Context::new'):
                decs.append(f.path)
    rep.ob(not decs, rule, S + 'Context', 'max_size writers', 'max_size is written only by define (increment) and new (0): also %s' % decs, dfn.loc())
    # leave_context returns that max_size
    lfn = F.fn(S + 'SymbolTable::leave_context')
    ok = False
    for p in AbsInt(F, lfn).run():
        if p.exit == 'return':
            r = p.env.get('_0')
            ok = r[0] == 'call' and r[1] == S + 'Context::max_size'
    rep.ob(ok, rule, lfn.path, 'returns max_size', 'the frame size handed to Object::function is the context max_size', lfn.loc())


def check_casts(ctx, rep, rule='R02.4', only=None):
    """R02.4: code positions / counts are narrowed with checked conversions, never truncating `as`"""
    F = ctx.facts()
    n = 0
    for f in F.all_fns:
        if not f.path.startswith('compiler::Compiler::') or (only and f.path not in only):
            continue
        for b, si, st in f.stmts():
            if st['k'] == 'assign' and st['rv']['k'] == 'cast' and st['rv']['ck'] == 'IntToInt':
                fr, to = st['rv']['from'], st['rv']['to']
                WID = {'u8': 8, 'u16': 16, 'u32': 32, 'usize': 64, 'u64': 64, 'isize': 64, 'i64': 64, 'i32': 32}
                if fr in WID and to in ('u16', 'u8') and WID[fr] > WID[to]:
                    from rules import psc as _psc
                    v = _psc.sym(f, st['rv']['op'])
                    masked = v[0] == 'binop' and v[1] == 'BitAnd' and _psc.strip(v[3])[0] == 'int' and _psc.strip(v[3])[1] < (1 << WID[to])
                    bounded = False
                    for fa in _psc.facts_at(f, b):
                        if fa[0] in ('Lt', 'Le') and _psc.strip(fa[1]) == _psc.strip(v) and _psc.strip(fa[2])[0] == 'int':
                            k = _psc.strip(fa[2])[1] - (1 if fa[0] == 'Lt' else 0)
                            if k < (1 << WID[to]):
                                bounded = True
                    if masked or bounded:
                        continue
                    n += 1
                    rep.bad(rule, f.path, 'truncating cast %s as %s' % (fr, to), 'an operand (position / index / count) is narrowed with a truncating `as` cast that is neither masked nor bounded by a dominating test', span_loc(st['span']))
    conv = F.callers_of(lambda p: p.endswith('TryInto<U>>::try_into') or p.endswith('TryFrom<usize>>::try_from'))
    k = sum(1 for f, b, t in conv if f.path.startswith('compiler::Compiler::'))
    rep.count('checked_narrowings', k)
    rep.good(rule, 'compiler::Compiler', 'narrowing conversions', '%d checked conversions (try_into), %d truncating casts' % (k, n), None)
