"""Extra work of the thorough tier: configuration agreement and the self-tests of the checker."""
import os
import sys
from mirlib import *
from rules import vmx, psc

HERE = os.path.dirname(os.path.dirname(os.path.abspath(__file__)))
USES_VM = {'C01', 'C02', 'C03', 'C04', 'C05', 'C10', 'C11', 'C12', 'C13', 'C16', 'C17'}


def config_agreement(ctx, rep):
    """the facts the rules use do not depend on the build configuration: the per-opcode effect table extracted from the
    release-like build (no debug assertions, no overflow checks) and from the build with the `debug` feature equals the default one"""
    rep.rule('T.cfg', 'configuration agreement: VM opcode effects and the reachable function set are the same in the default, release-like and debug-feature builds')
    base = {op: s for op, (s, pr) in vmx.table(ctx, 'default').items()}
    for cfg in ('release', 'debugfeat'):
        other = {op: s for op, (s, pr) in vmx.table(ctx, cfg).items()}
        for op in sorted(base):
            a, b = base[op], other.get(op)
            same = b is not None and all(a.get(k) == b.get(k) for k in ('fetch', 'pops', 'pushes', 'class')) and \
                [x[:2] for x in a.get('loops', [])] == [x[:2] for x in b.get('loops', [])]
            rep.ob(same, 'T.cfg', 'vm::VM::run', '%s OpCode::%s' % (cfg, op), 'effect in %s build: %s; default: %s' % (
                cfg, b and {k: b.get(k) for k in ('fetch', 'pops', 'pushes', 'class')}, {k: a.get(k) for k in ('fetch', 'pops', 'pushes', 'class')}), 'src/vm.rs', nontrivial=False)
        r0 = {x for x in psc.reachable(ctx, 'default') if not x.startswith('bin::')}
        r1 = {x for x in psc.reachable(ctx, cfg) if not x.startswith('bin::')}
        missing = sorted(r0 - r1)
        rep.ob(not missing, 'T.cfg', 'crate', '%s reachable functions' % cfg, 'functions reachable in the default build but not in %s: %s' % (cfg, missing[:5]), None)
    # release: the non-profile-dependent panic sources are the same
    s0 = {(s['fn'], s['what'], s['ord']) for s in psc.census(ctx, 'default')
          if not (s['kind'] == 'assert' and s['term']['msg'] in ('Overflow', 'OverflowNeg')) and psc.macro_of(s['span']) not in ('debug_assert', 'debug_assert_eq', 'debug_assert_ne')
          and not s['what'].startswith('core::panicking')}
    s1 = {(s['fn'], s['what'], s['ord']) for s in psc.census(ctx, 'release') if not s['what'].startswith('core::panicking')}
    extra = sorted(s1 - s0)
    rep.ob(not extra, 'T.cfg', 'crate', 'release-only panic sources', 'panic sources that exist only in the release-like build: %s' % extra[:5], None)
    rep.count('configs_compared', 3)


def selftests(ctx, rep, pid):
    sys.path.insert(0, HERE)
    import selftest
    rep.rule('T.self', 'the checker is tested both ways: seeded mutants of this property are reported with the expected construct, behaviour-preserving refactors stay silent')
    n = 0
    for c in selftest.load_cases():
        if c['kind'] == 'mutant' and pid not in c.get('expect', {}):
            continue
        if c['kind'] == 'refactor' and c.get('for') not in (None, pid):
            continue      # an agent-written variant aimed at another property: exercised by that property's thorough tier
        good, why = selftest.run_case(c, [pid])
        n += 1
        rep.ob(good, 'T.self', 'selftest', '%s %s' % (c['kind'], c['name']), why, 'selftest/cases/%s.json' % c['name'], nontrivial=False)
    rep.count('selftest_cases', n)


def extra(ctx, rep, pid):
    if pid in USES_VM:
        config_agreement(ctx, rep)
    selftests(ctx, rep, pid)
