"""C15 — the value encoding is lossless and collision-free (static clauses, DESIGN §5 C15)."""
from mirlib import *
from rules import shared
from rules.shared import deref

META = {
    'title': 'The value encoding is lossless and collision-free',
    'explanation': 'Constant/shape consistency of the tagged-word codec read off the MIR of object.rs: tag space vs '
                   'Type discriminants, mask/shift algebra, heap-box alignment, every construction site of an '
                   'Object word, encoder/decoder pairs (same shift, signed shift for signed payload, field widths), '
                   'the heap/immediate partition used by is_heap_allocated/free/constructors, the shape of equality, '
                   'and the range check at the integer encoder. Finite tables are enumerated completely. R15.9: the decoders of immediates run only behind a test of the matching tag.',
    'exhaustive': True,
    'not_decided': ['round trip of every 64-bit word as an executed fact (we check the algebra of the constants and '
                    'the shapes of encoder/decoder, not 2^64 values)', "allocator alignment guarantees are std's contract"],
}
META['explanation'] += ' R15.10 the operator methods Object::eq / neq answer with PartialEq::eq / ne of the two operands (an ordering is no substitute).'

OBJ = 'object::Object'
TYPE = 'object::Type'


def _word(v):
    """is v `self.0` (field 0 of parameter 1) possibly cast to an integer"""
    u = uncast(v)
    return u == ('field', ('local', 1), '0')


_BITS = {'isize': (64, True), 'usize': (64, False), 'i64': (64, True), 'u64': (64, False), 'i32': (32, True), 'u32': (32, False), 'i16': (16, True),
         'u16': (16, False), 'i8': (8, True), 'u8': (8, False), 'bool': (1, False), 'char': (32, False)}


def _wrap(n, ty):
    bits, signed = _BITS.get(ty, (64, False) if isinstance(ty, str) and ty.startswith('*') else (None, None))
    if bits is None:
        raise ValueError('type %s' % ty)
    n &= (1 << bits) - 1
    if signed and n >> (bits - 1):
        n -= 1 << bits
    return n


def eval_bits(v, env):
    """value of a symbolic integer expression with the machine semantics of Rust's integer types (wrapping conversions, arithmetic
    shift on signed types): the expression trees of the encoders / decoders, folded on concrete field values"""
    if not isinstance(v, tuple) or not v:
        raise ValueError('not an expression')
    k = v[0]
    if k == 'int':
        return v[1]
    if k == 'local' or k == 'field':
        if v in env:
            return env[v]
        if k == 'field' and v[2] == '0' and isinstance(v[1], tuple) and v[1] and v[1][0] == 'binop':
            return eval_bits(v[1], env)          # .0 of a checked operation
        raise ValueError('free %s' % (v,))
    if k == 'cast':
        x = eval_bits(v[1], env)
        return _wrap(x, v[2])
    if k == 'unop' and v[1] == 'Not':
        x = eval_bits(v[2], env)
        return _wrap(~x, v[3]) if len(v) > 3 else ~x
    if k == 'unop' and v[1] == 'Neg':
        return _wrap(-eval_bits(v[2], env), v[3]) if len(v) > 3 else -eval_bits(v[2], env)
    if k == 'binop':
        a, b = eval_bits(v[2], env), eval_bits(v[3], env)
        ty = v[4] if len(v) > 4 else 'usize'
        op = v[1].replace('WithOverflow', '').replace('Unchecked', '')
        if op in ('Eq', 'Ne', 'Lt', 'Le', 'Gt', 'Ge'):
            return int({'Eq': a == b, 'Ne': a != b, 'Lt': a < b, 'Le': a <= b, 'Gt': a > b, 'Ge': a >= b}[op])
        r = {'Add': lambda: a + b, 'Sub': lambda: a - b, 'Mul': lambda: a * b, 'BitAnd': lambda: a & b, 'BitOr': lambda: a | b, 'BitXor': lambda: a ^ b,
             'Shl': lambda: a << (b & 63), 'Shr': lambda: a >> (b & 63)}.get(op)
        if r is None:
            raise ValueError('operator %s' % op)
        return _wrap(r(), ty)
    if k == 'field' and v[2] == '0' and isinstance(v[1], tuple) and v[1] and v[1][0] == 'binop':
        return eval_bits(v[1], env)          # .0 of a checked operation
    if k == 'call' and v[1].endswith('::from') and len(v[2]) == 1:
        return eval_bits(v[2][0], env)       # a lossless widening conversion
    raise ValueError('form %s' % k)


def heap_types(ctx):
    """the types whose values live in a heap box: those whose tag is at or above the threshold is_heap_allocated() tests"""
    F = ctx.facts()
    rs = ret_exprs(F, F.fn('object::Object::is_heap_allocated'))
    tyvars = F.enum_variants(TYPE)
    if len(rs) == 1:
        iha = rs[0][1]
        if is_binop(iha, 'Ge') or is_binop(iha, 'Gt'):
            T = int_of(iha[3])
            if T is None:
                u = uncast(iha[3])
                if u[0] == 'field' and u[1][0] == 'agg':
                    T = int_of(u[1][3][0])
            if T is not None:
                if is_binop(iha, 'Gt'):
                    T += 1
                return {n for n, d in tyvars if d >= T}
    # ... or the test is written over the tag (`matches!(self.tag(), Float | String | Array)`): evaluate it for every variant
    fn = F.fn('object::Object::is_heap_allocated')
    out = set()
    okall = True
    for name, _ in tyvars:
        def decide_call(nm, argv, t, name=name):
            if nm == 'object::Object::tag':
                return ('enum', TYPE, name)
            return None
        vals = set()
        for p in AbsInt(F, fn, decide_call=decide_call).run():
            if p.exit == 'return':
                r = deref(p.env, p.env.get('_0'))
                vals.add(r[1] if isinstance(r, tuple) and r and r[0] == 'int' else None)
        if vals == {1}:
            out.add(name)
        elif vals != {0}:
            okall = False
    if okall and out:
        return out
    raise CheckerError('cannot read the heap threshold from is_heap_allocated')


def run(ctx, rep):
    F = ctx.facts()
    rep.rule('R15.1', 'tag space, mask/shift algebra and heap-box layout are mutually consistent')
    rep.rule('R15.2', 'every Object word is built by with_type from a payload whose tag bits are free; tag() reads word & TAG_MASK')
    rep.rule('R15.3', 'encoder/decoder pairs agree on shift, signedness and field widths')
    rep.rule('R15.4', 'heap partition: is_heap_allocated = allocating constructors = types freed by Object::free')
    rep.rule('R15.5', 'equality compares tags first, heap payloads by content, immediates by word')
    rep.rule('R15.6', 'integers are range-checked where they enter the encoding (shared with C06/R06.3)')

    tyvars = F.enum_variants(TYPE)
    discrs = [d for _, d in tyvars]
    rep.count('type_variants', len(tyvars))

    # ---- derive the constants from their use sites (robust to renaming the consts) ----------
    def single_ret(path):
        rs = ret_exprs(F, F.fn(path))
        vals = {repr(v) for _, v in rs}
        if len(vals) != 1:
            raise CheckerError('%s: expected one return expression, got %d' % (path, len(vals)))
        return rs[0][1]

    tag_e = single_ret('object::Object::tag')
    # Transmute(((word as usize) & TM) as u8)
    inner = uncast(tag_e)
    TM = None
    if is_binop(inner, 'BitAnd') and _word(inner[2]) and int_of(inner[3]) is not None:
        TM = int_of(inner[3])
    elif is_binop(inner, 'BitAnd') and _word(inner[3]) and int_of(inner[2]) is not None:
        TM = int_of(inner[2])
    ok = TM is not None and ('object::Type', 'Transmute') in cast_types(tag_e)
    rep.ob(ok, 'R15.2', 'object::Object::tag', 'transmute input', 'tag() = transmute((word & mask) as u8): %s' % show(tag_e),
           F.fn('object::Object::tag').loc())
    if TM is None:
        raise CheckerError('cannot read the tag mask from Object::tag: %s' % show(tag_e))

    asint = single_ret('object::Object::as_int')
    SH = None
    if is_binop(asint, 'Shr') and _word(asint[2]):
        SH = int_of(asint[3])
    if SH is None:
        raise CheckerError('cannot read the value shift from Object::as_int: %s' % show(asint))
    signed = asint[4] in ('isize', 'i64')
    rep.ob(signed, 'R15.3', 'object::Object::as_int', 'signed shift',
           'decoder of the signed integer payload shifts a signed type (got %s): %s' % (asint[4], show(asint)),
           F.fn('object::Object::as_int').loc())

    asptr = single_ret('object::Object::as_ptr')
    pm = uncast(asptr)
    PM = None
    if is_binop(pm, 'BitAnd'):
        PM = int_of(pm[3]) if _word(pm[2]) else (int_of(pm[2]) if _word(pm[3]) else None)
    rep.table('constants', {'TAG_MASK(use)': TM, 'VALUE_SHIFT(use)': SH, 'PTR_MASK(use)': PM})

    W = 64
    c = F.fn('object::Object::tag').loc()
    rep.ob((TM + 1) & TM == 0 and TM > 0, 'R15.1', 'object', 'TAG_MASK+1 power of two', 'TAG_MASK=%d' % TM, c)
    rep.ob(TM >> SH == 0, 'R15.1', 'object', 'shift clears tag bits', 'TAG_MASK=%d < 2^%d' % (TM, SH), c)
    rep.ob(W - SH == 61, 'R15.1', 'object', '61-bit integers', '64 - shift(%d) = %d (the documented integer width is 61)' % (SH, W - SH), c)
    rep.ob(PM is not None and PM == ((1 << W) - 1) ^ TM, 'R15.1', 'object', 'PTR_MASK = !TAG_MASK', 'PTR_MASK(use in as_ptr)=%s' % PM, c)
    rep.ob(max(discrs) <= TM, 'R15.1', TYPE, 'discriminants fit the mask', 'max discriminant %d <= %d' % (max(discrs), TM), c)
    rep.ob(sorted(discrs) == list(range(len(discrs))), 'R15.1', TYPE, 'discriminants contiguous from 0', str(tyvars), c)
    # named constants, when present, agree with the use sites
    for name, want in (('object::TAG_MASK', TM), ('object::VALUE_SHIFT_BITS', SH), ('object::PTR_MASK', PM),
                       ('object::MAX_INT', (1 << (W - 1 - SH)) - 1), ('object::MIN_INT', -(1 << (W - 1 - SH)))):
        cst = F.consts.get(name)
        if cst is not None and 'int' in cst:
            rep.ob(cst['int'] == want, 'R15.1', 'object', 'const ' + name.split('::')[-1],
                   '%s = %s, derived from use sites: %s' % (name, cst['int'], want), span_loc(cst['span']))
    o = F.adt(OBJ)
    rep.ob(o.get('size') == 8 and o.get('is_copy'), 'R15.1', OBJ, 'Object is one machine word, Copy',
           'size=%s copy=%s' % (o.get('size'), o.get('is_copy')), span_loc(o['span']))

    # ---- constructors ------------------------------------------------------------------------
    # every aggregate construction of Object
    sites = []
    for f in F.all_fns:
        for b, si, st in f.stmts():
            if st['k'] == 'assign' and st['rv']['k'] == 'aggregate' and st['rv'].get('adt') == OBJ:
                sites.append((f, st))
    rep.count('object_construction_sites', len(sites))
    for f, st in sites:
        rep.ob(f.path == 'object::Object::with_type', 'R15.2', f.path, 'constructs Object(..)',
               'an Object word is assembled outside with_type', span_loc(st['span']))
    wt = single_ret('object::Object::with_type')
    okwt = False
    if wt[0] == 'agg' and len(wt[3]) == 1:
        e = uncast(wt[3][0])
        if is_binop(e, 'BitOr'):
            parts = [uncast(e[2]), uncast(e[3])]
            has_raw = any(p == ('local', 1) for p in parts)
            has_tag = any(p[0] == 'discr_of' and p[2] == TYPE for p in parts)
            okwt = has_raw and has_tag
    rep.ob(okwt, 'R15.2', 'object::Object::with_type', 'raw | tag', 'with_type(raw, t) = Object((raw | t as usize)): %s' % show(wt),
           F.fn('object::Object::with_type').loc())

    # callers of with_type: payload shape per call site
    heap_ctor_types = set()
    imm_ctor_types = set()
    callers = F.callers_of(lambda p: p == 'object::Object::with_type')
    rep.count('with_type_call_sites', len(callers))
    seen_sites = 0
    for f in sorted({c[0].path for c in callers}):
        fn = F.fn(f)
        ai = AbsInt(F, fn)
        per_site = {}
        for p in ai.run():
            for (b, name, argv, dk, t) in p.calls:
                if name == 'object::Object::with_type':
                    per_site.setdefault(b, set()).add(argv)
        for b, argsets in sorted(per_site.items()):
            seen_sites += 1
            for argv in argsets:
                raw, ty = argv
                tyname = ty[2] if ty[0] == 'enum' else None
                r = uncast(raw)
                kind = None
                if r[0] == 'int':
                    kind = 'imm' if (r[1] & TM) == 0 else None
                elif is_binop(r, 'Shl') and int_of(r[3]) == SH:
                    kind = 'imm'
                elif r[0] == 'call' and r[1] == 'object::allocate':
                    kind = 'heap'
                loc = span_loc(fn.blocks[b]['term']['span'])
                rep.ob(kind is not None and tyname is not None, 'R15.2', f, 'with_type payload (%s)' % (tyname or '?'),
                       'payload must be 0, x << %d, or a fresh allocation; got %s' % (SH, show(raw)), loc)
                if kind == 'heap':
                    heap_ctor_types.add(tyname)
                elif kind == 'imm':
                    imm_ctor_types.add(tyname)
                rep.sample({'site': '%s@%s' % (f, loc), 'payload': show(raw), 'type': tyname, 'class': kind})
    if seen_sites < len(callers):
        raise CheckerError('with_type call sites seen on paths (%d) < call sites in MIR (%d)' % (seen_sites, len(callers)))

    # ---- alignment of heap boxes -------------------------------------------------------------
    allocs = F.callers_of(lambda p: p == 'object::allocate')
    rep.count('allocate_call_sites', len(allocs))
    for f, b, t in allocs:
        # argument: Layout::new::<T>() — find T from the defining call
        d = f.def_rvalue(t['args'][0])
        T = None
        if d and d[0] == 'call' and 'Layout::new' in callee_name(d[2]):
            ga = d[2]['callee'].get('generic_args', '')
            T = ga.strip('[]')
        adt = F.adts.get(T) if T else None
        ok = adt is not None and adt.get('align', 0) >= TM + 1 and adt.get('size', 0) > 0
        rep.ob(ok, 'R15.1', f.path, 'heap box alignment (%s)' % T,
               'allocate(Layout::new::<%s>()): align=%s size=%s; need align >= %d, size > 0' % (
                   T, adt and adt.get('align'), adt and adt.get('size'), TM + 1), span_loc(t['span']))

    # ---- codec pairs -------------------------------------------------------------------------
    # int encoder
    fn_int = F.fn('object::Object::int')
    int_calls = set()
    for p in AbsInt(F, fn_int).run():
        for (b, name, argv, dk, t) in p.calls:
            if name == 'object::Object::with_type':
                int_calls.add(argv)
    ok = False
    detail = '; '.join(show(a[0]) for a in int_calls)
    for argv in int_calls:
        r = uncast(argv[0])
        ok = is_binop(r, 'Shl') and uncast(r[2]) == ('local', 1) and int_of(r[3]) == SH and r[4] in ('isize', 'i64') \
            and argv[1] == ('enum', TYPE, 'Int')
    rep.ob(ok and len(int_calls) == 1, 'R15.3', 'object::Object::int', 'encoder shift',
           'int(v) = with_type(v << %d, Int) on a signed word: %s' % (SH, detail), fn_int.loc())

    # bool
    fn_bool = F.fn('object::Object::bool')
    encs = {}
    for p in AbsInt(F, fn_bool).run():
        cons = [c for c in p.constraints if c[0][0] == 'switch' and c[0][1] == ('local', 1)]
        for (b, name, argv, dk, t) in p.calls:
            if name == 'object::Object::with_type' and cons:
                val = cons[0][1]
                encs['false' if val == 0 else 'true'] = int_of(argv[0])
    asb = single_ret('object::Object::as_bool')
    okb = False
    if is_binop(asb, 'Ne') and int_of(asb[3]) == 0 and is_binop(asb[2], 'Shr') and int_of(asb[2][3]) == SH and _word(asb[2][2]):
        width = {'u8': 8, 'u16': 16, 'u32': 32, 'usize': 64, 'u64': 64}.get(asb[2][4])
        if width and encs.get('true') is not None and encs.get('false') is not None:
            m = (1 << width) - 1
            okb = ((encs['true'] & m) >> SH) != 0 and ((encs['false'] & m) >> SH) == 0 \
                and (encs['true'] & TM) == 0 and (encs['false'] & TM) == 0
    how_b = 'shape'
    if not okb:
        # the shapes differ from the ones known: fold encoder and decoder on both booleans (tag bits free, value read back)
        try:
            benc = None
            for p in AbsInt(F, fn_bool, max_paths=8).run():
                for (b, name, argv, dk, t) in p.calls:
                    if name == 'object::Object::with_type':
                        benc = argv[0]
            okb = benc is not None
            for bv_ in (0, 1):
                w = eval_bits(benc, {('local', 1): bv_}) & ((1 << 64) - 1)
                okb = okb and (w & TM) == 0 and eval_bits(asb, {('field', ('local', 1), '0'): w | [d for n_, d in tyvars if n_ == 'Bool'][0]}) == bv_
            how_b = 'folded on false / true'
        except (ValueError, IndexError, TypeError):
            okb = False
    rep.ob(okb, 'R15.3', 'object::Object::bool', 'bool codec', 'encodings %s, decoder %s (%s)' % (encs, show(asb), how_b), fn_bool.loc())

    # function
    fn_f = F.fn('object::Object::function')
    fenc = None
    for p in AbsInt(F, fn_f).run():
        for (b, name, argv, dk, t) in p.calls:
            if name == 'object::Object::with_type':
                fenc = argv
    asf = single_ret('object::Object::as_function')
    okf = False
    why = ''
    try:
        r = uncast(fenc[0])
        assert is_binop(r, 'Shl') and int_of(r[3]) == SH, 'outer shift'
        body = r[2]
        assert is_binop(body, 'BitOr'), 'ip|locals'
        hi, lo = body[2], body[3]
        assert is_binop(hi, 'Shl') and uncast(hi[2]) == ('local', 1), 'ip << W'
        Wf = int_of(hi[3])
        assert uncast(lo) == ('local', 2), 'num_locals in the low bits'
        ip_ty = fn_f.local_ty(1)
        nl_ty = fn_f.local_ty(2)
        bits = {'u8': 8, 'u16': 16, 'u32': 32}
        assert nl_ty in bits and bits[nl_ty] <= Wf, 'num_locals (%s) fits %d bits' % (nl_ty, Wf)
        assert ip_ty in bits and bits[ip_ty] + Wf + SH <= 64, 'ip width'
        # decoder
        assert asf[0] == 'agg' and len(asf[3]) == 2, 'decoder returns [ip, num_locals]'
        dip, dnl = asf[3]
        dip_u = uncast(dip)
        assert is_binop(dip_u, 'Shr') and int_of(dip_u[3]) == Wf, 'decoder ip shift %s != %s' % (int_of(dip_u[3]) if is_binop(dip_u) else None, Wf)
        base = dip_u[2]
        assert is_binop(base, 'Shr') and int_of(base[3]) == SH and _word(base[2]), 'decoder value shift'
        dnl_u = uncast(dnl)
        assert is_binop(dnl_u, 'BitAnd') and int_of(dnl_u[3]) == (1 << Wf) - 1, 'decoder mask %s != 2^%d-1' % (int_of(dnl_u[3]) if is_binop(dnl_u) else None, Wf)
        assert dnl_u[2] == base, 'decoder mask applied to the shifted value'
        assert ('u32', 'IntToInt') in cast_types(dip), 'ip narrowed to u32'
        okf = True
    except AssertionError as e:
        why = str(e)
    except Exception as e:  # unexpected shape
        why = 'unrecognised shape (%s)' % e
    if not okf and fenc is not None:
        # unknown shapes: fold encoder and decoder on the boundary values of both fields (every combination): tag bits free, both
        # fields read back, the sign bit of the word untouched
        try:
            ftag = [d for n_, d in tyvars if n_ == 'Function'][0]
            vec_ip = [0, 1, 0xFFFF, 0x10000, 0x7FFFFFFF, 0x80000000, 0xFFFFFFFF]
            vec_nl = [0, 1, 0xFF, 0x100, 0x7FFF, 0x8000, 0xFFFF]
            good = asf[0] == 'agg' and len(asf[3]) == 2
            for ip_ in vec_ip:
                for nl_ in vec_nl:
                    w = eval_bits(fenc[0], {('local', 1): ip_, ('local', 2): nl_}) & ((1 << 64) - 1)
                    wd = {('field', ('local', 1), '0'): w | ftag}
                    good = good and (w & TM) == 0 and eval_bits(asf[3][0], wd) == ip_ and eval_bits(asf[3][1], wd) == nl_
            okf = bool(good)
            why = 'folded on %d boundary combinations of (entry, locals)%s' % (len(vec_ip) * len(vec_nl), '' if okf else ': a combination is not read back; ' + why)
        except (ValueError, IndexError, TypeError) as e:
            why = why + ' (not foldable: %s)' % e
    rep.ob(okf, 'R15.3', 'object::Object::function', 'function descriptor codec',
           'encoder %s / decoder %s %s' % (show(fenc[0]) if fenc else None, show(asf), why), fn_f.loc())

    # ---- heap partition ------------------------------------------------------------------------
    # the set of types is_heap_allocated answers `ja` for: read from its threshold comparison, or - when the test is written over
    # the tag - evaluated for every variant (heap_types does both)
    H1 = set(heap_types(ctx))
    H2 = set(heap_ctor_types)
    # Object::free: which variants are released (a destroy function, or a dealloc of that box type), and as which box type
    from rules.unsafe_inv import released_types
    fn_free = F.fn('object::Object::free')
    H3 = set()
    for ty, rel in sorted(released_types(ctx).items()):
        H3.add(ty)
        rep.ob(set(rel) == {ty}, 'R15.4', 'object::Object::free', 'destroy fn for ' + ty, 'Type::%s is released as box type %s' % (ty, sorted(set(rel))), fn_free.loc())
    rep.table('heap_partition', {'is_heap_allocated': sorted(H1), 'allocating_constructors': sorted(H2), 'freed_by_free': sorted(H3),
                                 'immediate_constructors': sorted(imm_ctor_types)})
    rep.ob(H1 == H2, 'R15.4', 'object::Object::is_heap_allocated', 'threshold = allocating constructors',
           'types is_heap_allocated answers for: %s; types built from allocate(): %s' % (sorted(H1), sorted(H2)), F.fn('object::Object::is_heap_allocated').loc())
    rep.ob(H1 == H3, 'R15.4', 'object::Object::free', 'freed types = heap types', 'free destroys %s, heap types %s' % (sorted(H3), sorted(H1)), fn_free.loc())
    rep.ob(not (imm_ctor_types & H1), 'R15.4', OBJ, 'immediate constructors below threshold',
           'immediate constructors build %s' % sorted(imm_ctor_types), F.fn('object::Object::is_heap_allocated').loc())

    # ---- equality ------------------------------------------------------------------------------
    shared.check_object_eq(F, rep, 'R15.5', H1)

    # ---- encoder range -------------------------------------------------------------------------
    shared.check_int_encoder_range(ctx, rep, 'R15.6')
    rep.rule('R15.7', 'constant de-duplication never equates values of different type (tag compared on every path)')
    from rules import c10
    c10.check_dedup(ctx, rep, 'R15.7')
    rep.rule('R15.8', 'the pool de-duplicates floats with ==, which merges 0.0 and -0.0: only sound while every pooled value is a literal payload as written (the lexer produces no sign)')
    c10.check_literal_constants(ctx, rep, 'R15.8')
    rep.rule('R15.9', 'a value is decoded only as what it is: every as_int / as_bool / as_function is preceded on every path by a test that the object has that tag (the decoders only shift the word: `ja` would read as 1, null as 0)')
    from rules import unsafe_inv
    unsafe_inv.check_immediates(ctx, rep, 'R15.9')
    rep.rule('R15.10', "the language's == and != are the encoding's equality: the operator methods Object::eq / Object::neq answer with PartialEq::eq / ne of the two operands (an ordering is no substitute: functions have none, and NaN is unordered yet different)")
    from rules import chain as _chain
    sem = _chain.object_method_semantics(ctx)
    for m_, want in (('eq', '=='), ('neq', '!=')):
        info = sem.get(m_)
        if info is None:
            rep.bad('R15.10', 'object::Object::' + m_, 'operator method', 'no binary method Object::%s(self, rhs, gc) found' % m_, 'src/object.rs')
            continue
        cmps = sorted(info['cmp'])
        ok = _chain.classify(info) == want and all({c[1], c[2]} == {1, 2} for c in cmps)
        rep.ob(ok, 'R15.10', 'object::Object::' + m_, 'answers with %s of the two operands' % want,
               'comparisons of Object values found on the Ok paths: %s' % [('%s(arg%s, arg%s)' % c) for c in cmps], info['fn'].loc())
