"""C06 — operators are exact over the whole value range (static necessary conditions)."""
from mirlib import *
from rules import chain, shared, psc, c05, tables, vmx
from rules.shared import deref

META = {
    'title': 'Operators are exact over the whole value range, negatives and limits included',
    'explanation': 'Necessary conditions visible in the code: (R06.1) integer + - * / % and unary - end in an error value on overflow / zero '
                   'divisor instead of a raw machine operation whose overflow behaviour depends on the build profile; (R06.2) ordering of '
                   'integers compares decoded signed values, not tagged words as addresses; (R06.3) every integer entering the 61-bit '
                   'encoding is range-checked or provably small; (R06.4) the same-type check dominates every operation, operands keep their '
                   'sides, floats use f64 primitives and strings str ordering.'
                   ' R06.2 also fixes the float order to the IEEE-754 partial_cmp. R06.6 equality (and an explicit ne) answers per path only what the tags allow. R06.7 the specialised instructions apply the same primitive as the generic ones. R06.8 a float literal keeps its bits (no operator applied at compile time before the == de-duplication of the pool). R06.9 operands are decoded as integers/booleans only behind a test of their tag.',
    'not_decided': ['the numerical result of any particular operation', 'IEEE conformance of f64 (trusted to Rust/LLVM)', 'that comparison is a total order'],
}
META['explanation'] += ' R06.10 the specialised instructions are selected only where the variable was resolved to a local of the current function.'
TYPE = 'object::Type'


def _self_types(F, p):
    """the types `self` can still have at the end of path p, from every tag test the path took (match arms, `tag == Type::X`,
    tuple-of-tags matches)"""
    from rules.c05 import _tag_atoms
    from rules.unsafe_inv import same
    poss = {n for n, _ in F.enum_variants(TYPE)}
    S = ('obj', 'param*', 1)
    for o_, ty, tv in _tag_atoms(p, p.env):
        if same(o_, S) or o_ == ('obj', 'param', 1):
            if isinstance(ty, tuple):
                poss &= set(ty[1])
            elif tv:
                poss &= {ty}
            else:
                poss -= {ty}
    return poss


def run(ctx, rep):
    F = ctx.facts()
    rep.rule('R06.1', 'integer arithmetic is checked: no raw/trapping machine operation on user integers, an Err edge for the failure case')
    rep.rule('R06.2', 'ordering compares decoded signed integers')
    rep.rule('R06.3', 'range check where integers enter the encoding')
    rep.rule('R06.4', 'type discipline and operand sides of the operator methods')
    rep.rule('R06.5', 'the three syntactic forms agree: the fused variable-op-literal instructions preserve operator and operand sides')
    from rules import c01
    c01.check_fused_sides(ctx, rep, 'R06.5')
    sem = chain.object_method_semantics(ctx)
    sites = psc.census(ctx)
    # R06.1
    arith = [m for m, i in sem.items() if i['int']]
    rep.count('arith_methods', len(arith))
    for m in sorted(arith):
        info = sem[m]
        fn = info['fn']
        prims = sorted(info['int'])
        raw = [p for p in prims if p[4] in ('raw', 'overflow-trapping', 'wrapping', 'overflowing')]
        und = [s for s in sites if s['fn'] == fn.path and s['kind'] == 'assert' and c05.discharge(F, s) is None]
        rep.ob(not raw and not und, 'R06.1', fn.path, 'integer path',
               'integer %s must be computed with overflow/zero detection ending in an error value: primitives %s, undischarged machine checks %s'
               % (m, [(p[0], p[4]) for p in prims], [s['term']['msg'] for s in und]), fn.loc())
    # Negate arm
    v = vmx.vmx(ctx)
    neg_sites = [s for s in sites if s['fn'] == v['fn'].path and s['kind'] == 'assert' and s['term']['msg'] == 'OverflowNeg']
    und = [s for s in neg_sites if c05.discharge(F, s) is None]
    rawneg = False
    for r in v['arms'].get('Negate', {}).get('paths', []):
        for val in r['path'].env.values():
            for st in subtrees(val):
                if st and st[0] == 'unop' and len(st) > 3 and st[1] == 'Neg' and st[3] in ('isize', 'i64'):
                    rawneg = True
    rep.ob(not und and not rawneg, 'R06.1', v['fn'].path, 'OpCode::Negate integer path', 'unary minus on integers must be checked (raw Neg: %s, undischarged: %d)' % (rawneg, len(und)), 'src/vm.rs')

    # R06.2
    pc = F.fn('<object::Object as core::cmp::PartialOrd>::partial_cmp')
    seen_int = False
    for p in AbsInt(F, pc, max_paths=5000).run():
        st_ = _self_types(F, p)
        if 'Int' not in st_ or len(st_) == len(F.enum_variants(TYPE)):
            continue
        if p.exit != 'return':
            continue
        seen_int = True
        r = deref(p.env, p.env.get('_0'))
        ok = False
        why = show(r)
        # the ordering call may be wrapped (`Some(a.cmp(&b))`) or returned as is (`a.partial_cmp(&b)`)
        if r and r[0] != 'call':
            r = next((x for x in subtrees(r) if x[0] == 'call' and x[1].endswith(('::cmp', '::partial_cmp')) and len(x[2]) == 2), r)
        if r and r[0] == 'call':
            args = [deref(p.env, deref(p.env, a)) for a in r[2]]
            ok = all(a[0] == 'call' and a[1] == 'object::Object::as_int' for a in args) and len(args) == 2
            if ok:
                sides = [chain.arg_side(a, p.env) for a in args]
                ok = sides == [1, 2]
            elif len(args) == 2:
                # the words with the tag bits cleared, as SIGNED numbers: value * 2^shift, which orders exactly as the value does
                tm = F.consts.get('object::TAG_MASK', {}).get('int')
                sd = []
                for a in args:
                    a = uncast(a)
                    s_ = None
                    if tm is not None and a[0] == 'binop' and a[1] == 'BitAnd':
                        for x, y in ((a[2], a[3]), (a[3], a[2])):
                            m_ = int_of(y)
                            if m_ is None and uncast(y)[0] == 'unop' and uncast(y)[1] == 'Not' and int_of(uncast(y)[2]) == tm:
                                m_ = ~tm
                            signed = isinstance(x, tuple) and x[0] == 'cast' and x[2] in ('isize', 'i64')
                            if m_ is not None and (m_ == ~tm or m_ == (1 << 64) - 1 - tm) and signed:
                                from rules.shared import is_param_word
                                s_ = 1 if is_param_word(x, 1) else 2 if is_param_word(x, 2) else None
                    sd.append(s_)
                ok = sd == [1, 2]
        rep.ob(ok, 'R06.2', pc.path, 'arm covering Type::Int', 'integers must be ordered by their decoded signed values (as_int), not by the tagged words as addresses: %s' % why[:160], pc.loc())
    if not seen_int:
        rep.bad('R06.2', pc.path, 'arm covering Type::Int', 'no returning path orders integers', pc.loc())
    # floats: the IEEE-754 comparison (partial_cmp / the built-in < <= > >=), in source order; total_cmp orders -0.0 below 0.0 and
    # NaN above everything, which is not what `<` means on floats
    seen_f = False
    for p in AbsInt(F, pc, max_paths=5000).run():
        if _self_types(F, p) != {'Float'}:
            continue
        if p.exit != 'return':
            continue
        seen_f = True
        r = deref(p.env, p.env.get('_0'))
        why = show(r)
        cands = [x for x in subtrees(r) if x[0] == 'call' and 'f64' in x[1] and len(x[2]) == 2] if r else []
        ok = False
        if len(cands) == 1 and cands[0][1].endswith('::partial_cmp') and 'total' not in cands[0][1]:
            args = [deref(p.env, deref(p.env, a)) for a in cands[0][2]]
            ok = all(a[0] == 'call' and a[1].startswith('object::Object::as_f64') for a in args)
            if ok:
                ok = [chain.arg_side(a, p.env) for a in args] == [1, 2]
        if not cands and r and r[0] in ('agg', 'enum'):
            # spelled out with < > ==: the answer must be the one the comparisons taken on this path imply
            ans = 'None' if r[2] == 'None' else (str(r[3][0][2]) if r[0] == 'agg' and r[3] and r[3][0][0] == 'enum' else None)
            rel = []
            for c in p.constraints:
                if c[0][0] != 'switch':
                    continue
                x = c[0][1]
                tv = shared.truth(c)
                while x[0] == 'unop' and x[1] == 'Not':
                    x, tv = x[2], not tv
                if is_binop(x) and x[1] in ('Lt', 'Gt', 'Eq') and x[4] == 'f64':
                    sd = [chain.arg_side(deref(p.env, deref(p.env, a)), p.env) if deref(p.env, a)[0] == 'call' else None for a in (x[2], x[3])]
                    op = x[1]
                    if sd == [2, 1]:
                        op = {'Lt': 'Gt', 'Gt': 'Lt', 'Eq': 'Eq'}[op]
                    elif sd != [1, 2]:
                        continue
                    rel.append((op, tv))
            if ans == 'Less':
                ok = ('Lt', True) in rel
            elif ans == 'Greater':
                ok = ('Gt', True) in rel
            elif ans == 'Equal':
                ok = ('Eq', True) in rel
            elif ans == 'None':
                ok = {('Lt', False), ('Gt', False), ('Eq', False)} <= set(rel)
        rep.ob(ok, 'R06.2', pc.path, 'arm covering Type::Float', 'floats are ordered by the IEEE-754 comparison of their values (f64::partial_cmp of self, other): %s' % why[:160], pc.loc())
    if not seen_f:
        rep.bad('R06.2', pc.path, 'arm covering Type::Float', 'no returning path orders floats', pc.loc())
    # `==` / `!=`: exact per type (a shortcut on identical words makes a NaN equal to itself; see R15.5 for the same rule)
    rep.rule('R06.6', 'equality answers only after comparing the tags, by content for floats and strings, by word for immediates')
    from rules import c15
    shared.check_object_eq(F, rep, 'R06.6', c15.heap_types(ctx))
    # the operator reached through a specialised instruction (`x op literal` on a local) is the same operator
    rep.rule('R06.7', 'the specialised instructions (variable op literal) apply the same primitive as the generic instruction of their operator: type errors and range errors included')
    from rules import c10
    c10.check_fused_equals_generic(ctx, rep, 'R06.7', 'R06.10')
    rep.rule('R06.10', 'the specialised instructions read the operand the source names: they take a frame slot, so they are selected only where the variable was resolved to a local of the current function (a global inside a function keeps the generic form)')
    from rules import csa_run as _cr
    n10 = 0
    for v_ in _cr.analyse(ctx)['violations']:
        if v_['oblig'] == 'O8-scope':
            n10 += 1
            rep.bad('R06.10', 'compiler::Compiler::' + v_['method'], v_['construct'], v_['text'], 'src/compiler.rs', key=v_['kc'])
    if not n10:
        rep.good('R06.10', 'compiler::Compiler', 'slot operands of the specialised instructions', 'every emit site of a frame-slot instruction is under a test that the symbol is local', 'src/compiler.rs')
    rep.rule('R06.9', 'operands are decoded as what they are: a value is decoded only as what it is: every as_int / as_bool / as_function is preceded on every path by a test that the object has that tag (the decoders only shift the word: `ja` would read as 1, null as 0)')
    from rules import unsafe_inv as _ui
    _ui.check_immediates(ctx, rep, 'R06.9')
    rep.rule('R06.8', 'a float literal keeps its bits, the sign of zero included: what enters the constant pool (de-duplicated with ==, under which 0.0 and -0.0 are one) is a literal payload as written, never the result of an operator applied at compile time')
    c10.check_literal_constants(ctx, rep, 'R06.8')
    # R06.3
    shared.check_int_encoder_range(ctx, rep, 'R06.3')
    # R06.4
    for m, info in sorted(sem.items()):
        fn = info['fn']
        # tag comparison dominates payload access: every path that calls as_int/as_f64*/as_bool/PartialOrd has a tag test first
        ok = True
        for p in AbsInt(F, fn, max_paths=20000).run():
            names = [c[1] for c in p.calls]
            first_payload = next((i for i, n in enumerate(names) if n.startswith('object::Object::as_') or 'PartialOrd' in n or n.endswith('PartialEq::eq') and False), None)
            first_tag = next((i for i, n in enumerate(names) if n == 'object::Object::tag'), None)
            if first_payload is not None and (first_tag is None or first_tag > first_payload):
                ok = False
            if first_payload is not None:
                tags = [c for c in p.calls[:first_payload] if c[1] == 'object::Object::tag']
                sides = {chain.arg_side(c[2][0], p.env) for c in tags}
                if sides != {1, 2}:
                    ok = False
        rep.ob(ok, 'R06.4', fn.path, 'tag test first', 'both operands\' tags are examined before any payload is read', fn.loc())
        sides = {(p[2], p[3]) for p in info['int'] | info['float']} | {(c[1], c[2]) for c in info['cmp']}
        if sides:
            rep.ob(sides == {(1, 2)}, 'R06.4', fn.path, 'operand sides', 'self op rhs: %s' % sorted(sides), fn.loc())
        if info['float']:
            rep.ob(all(p[1] == 'f64' for p in info['float']) and {p[0] for p in info['float']} == {p[0] for p in info['int']} or not info['int'], 'R06.4', fn.path, 'float path',
                   'floats use the f64 primitive of the same operator: %s' % sorted(info['float']), fn.loc())
    # strings ordered by str
    okstr = False
    for p in AbsInt(F, pc, max_paths=5000).run():
        if p.exit == 'return' and _self_types(F, p) == {'String'}:
            r = deref(p.env, p.env.get('_0'))
            if r and r[0] != 'call':
                r = next((x for x in subtrees(r) if x[0] == 'call' and x[1].endswith(('::cmp', '::partial_cmp')) and len(x[2]) == 2), r)
            okstr = bool(r and r[0] == 'call' and ('PartialOrd' in r[1] or r[1].endswith('::cmp')) and 'str' in str(r))
    rep.ob(okstr, 'R06.4', pc.path, 'string ordering', 'strings are ordered by <str as PartialOrd> (lexicographic by code point)', pc.loc())
