"""C13 — arrays and strings: shared by reference, indexed exactly, measured in characters."""
from mirlib import *
from rules import vmx, psc, c05
from rules.psc import sym, strip, unref
from rules.shared import deref
from rules import shared as _shared

META = {
    'title': 'Arrays and strings: shared by reference, indexed exactly, measured in characters',
    'explanation': 'R13.1 no hidden copies: the variable/argument/element-moving opcodes never reach the allocator (values travel as the '
                   'tagged word), only Array and string IndexGet allocate. R13.2 the four index routines are siblings: negative indices are '
                   'shifted by a count, bounded by the SAME count, accessed in the same unit; strings use characters. R13.3 every error '
                   'return of index assignment precedes the first mutation. R13.4 lengte measures strings in characters, arrays in '
                   'elements. R13.5 a non-integer index is a type error before the integer is read. R13.6 no &mut to a payload is live '
                   'while another Object that may alias it is dereferenced.'
                   ' R13.7 every evaluation of a literal yields its own object (nothing mutable in place leaves the constant pool by reference). R13.8 an index (like every immediate) is decoded as an integer only behind a test of its tag.',
    'not_decided': ['the contents of any particular array/string after a sequence of operations'],
}
META['explanation'] += ' R13.9 no single byte of a text becomes a character unless tested to be ASCII. R13.2 also accepts indexing by lookup (nth from the front under index >= 0, from the back with |index| - 1 under index < 0, not found = index error).'
META['explanation'] += ' R13.10 the text of an array shows every element every time (no path of Display::fmt answers for an array without reading its elements, no turn of the element loop skips the element). R13.7 also: no arm but OpCode::Const lets a pooled string out.'

UNIT_OF_LEN = [('alloc::vec::Vec::<T, A>::len', 'elements'), ('core::slice::<impl [T]>::len', 'elements'), ('::count', 'characters'),
               ('core::str::<impl str>::len', 'bytes'), ('alloc::string::String::len', 'bytes')]


def unit_of(v, fn=None):
    v = strip(v)
    s_ = str(v)
    if v[0] == 'len':
        inner = str(v[1])
        if 'as_str' in inner or 'String' in inner or "'str'" in inner:
            return 'bytes'
        return 'elements'
    if v[0] == 'call':
        if v[1].endswith('::count') and 'chars' in s_:
            return 'characters'
        for k, u in UNIT_OF_LEN:
            if v[1].endswith(k):
                return u
    if v[0] == 'mlocal' or v[0] == 'param':
        return None
    return None


def alloc_reaching(F):
    g = F.call_graph()
    target = 'object::allocate'
    res = set()
    for f in g:
        seen = set()
        st = [f]
        while st:
            n = st.pop()
            if n in seen:
                continue
            seen.add(n)
            if n == target:
                res.add(f)
                break
            st.extend(g.get(n, ()))
    return res


def run(ctx, rep):
    F = ctx.facts()
    v = vmx.vmx(ctx)
    rep.rule('R13.1', 'no hidden copies in the value-moving opcodes')
    rep.rule('R13.10', 'the text of an array shows every element, every time: no path writes an array without reading its elements, no turn of the element loop skips the element (a shared array is written in full wherever it occurs)')
    _shared.check_array_text_complete(ctx, rep, 'R13.10')
    rep.rule('R13.2', 'sibling agreement / unit consistency of the four index routines')
    rep.rule('R13.3', 'errors before effects in index assignment')
    rep.rule('R13.4', 'lengte: characters for strings, elements for arrays')
    rep.rule('R13.5', 'non-integer index is a type error before the integer is read')
    rep.rule('R13.6', 'no aliasing &mut/& pair on one payload')
    rep.rule('R13.7', 'values are shared only by assignment: every evaluation of a literal yields its own object (nothing the VM mutates in place comes out of the constant pool by reference)')
    from rules import c10 as _c10
    _c10.check_pool_by_value(ctx, rep, 'R13.7')
    rep.rule('R13.8', 'an index is read as an integer only after it was found to be one, on the slow path and on every fast path: a value is decoded only as what it is: every as_int / as_bool / as_function is preceded on every path by a test that the object has that tag (the decoders only shift the word: `ja` would read as 1, null as 0)')
    from rules import unsafe_inv as _ui
    _ui.check_immediates(ctx, rep, 'R13.8')
    AL = alloc_reaching(F)
    movers = ['GetLocal', 'SetLocal', 'GetGlobal', 'SetGlobal', 'Const', 'Call', 'Return', 'ReturnValue', 'Pop', 'IndexSet', 'Jump', 'JumpIfFalse']
    for op in movers:
        arm = v['arms'].get(op)
        if not arm:
            continue
        callees = set()
        for r in arm['paths']:
            for c in r['path'].calls:
                callees.add(c[1])
        hit = sorted(c for c in callees if c in AL or c == 'object::allocate')
        if op == 'Const':
            # the one allowed copy: a pooled *string* literal is duplicated on load (strings are mutable in place, R10.4)
            hit = [c for c in hit if 'FromString' not in c]
        rep.ob(not hit, 'R13.1', v['fn'].path, 'OpCode::%s' % op, 'moves the tagged word only; calls reaching the allocator: %s' % hit, 'src/vm.rs')
    o = F.adt('object::Object')
    rep.ob(o.get('is_copy') and o.get('size') == 8, 'R13.1', 'object::Object', 'Copy word', 'an Object is a pointer-sized Copy value', span_loc(o['span']))

    # ---- R13.2 ---------------------------------------------------------------------------------
    routines = {}
    for name in ('vm::index_get_array', 'vm::index_get_string', 'vm::index_set_array', 'vm::index_set_string'):
        fn = F.fn(name)
        info = {'shift': None, 'bound': None, 'access': None, 'fn': fn, 'shape': []}
        # shift: AddWithOverflow/Add on the index with a length-like operand, under index < 0
        for b in sorted(fn.normal_blocks()):
            for st in fn.blocks[b]['stmts']:
                if st['k'] == 'assign' and st['rv']['k'] == 'binop' and st['rv']['op'] in ('AddWithOverflow', 'Add') and st['rv']['lty'] in ('isize', 'i64'):
                    other = sym(fn, st['rv']['r'])
                    info['shift'] = unit_of(other) or resolve_unit(fn, other)
                    facts = psc.facts_at(fn, b)
                    info['shift_guard'] = any(f[0] == 'Lt' and strip(f[2]) == ('int', 0) for f in facts)
            t = fn.term(b)
            if t['k'] == 'switch':
                c = sym(fn, t['op'])
                if c[0] == 'binop' and c[1] in ('Ge', 'Lt', 'Gt', 'Le') and (strip(c[2])[0] in ('mlocal',) or 'isize' in str(c[2]) or strip(c[2])[0] == 'cast' or True):
                    u = unit_of(c[3]) or resolve_unit(fn, c[3])
                    if u and strip(c[3]) != ('int', 0) and info['bound'] is None and c[1] in ('Ge', 'Lt', 'Gt', 'Le'):
                        # the bound test compares the (unsigned) index with a count and leads to an IndexError return
                        info['bound'] = u
                        info['bound_op'] = c[1]
        if info['bound'] is None:
            # the bound test may be the predicate of an `Option::filter(|&p| p < count)` on the converted position: the count it
            # compares with is what the closure was built with
            for b, t in fn.calls():
                if callee_name(t).endswith('Option::<T>::filter') and len(t['args']) == 2:
                    d = fn.def_rvalue(t['args'][1])
                    if d and d[0] == 'assign' and d[3]['k'] == 'aggregate' and d[3].get('closure'):
                        cc = c05.closure_comparison(F, d[3]['closure'])
                        if cc:
                            op_, l_, r_ = cc
                            cap = r_ if l_ == 'arg' else l_
                            strict = (l_ == 'arg' and op_ == 'Lt') or (r_ == 'arg' and op_ == 'Gt')
                            if isinstance(cap, tuple) and strict and cap[1] < len(d[3]['ops']):
                                other = sym(fn, d[3]['ops'][cap[1]])
                                u = unit_of(other) or resolve_unit(fn, other) or unit_of(psc.unref(other)) or resolve_unit(fn, psc.unref(other))
                                if u:
                                    info['bound'] = u
                                    info['bound_op'] = 'Lt'
        for b, t in fn.calls():
            n = callee_name(t)
            if psc.is_index_call(n):
                info['access'] = 'elements'
            elif n.endswith(('Iterator::nth', 'Iterator>::nth')):
                a = str(sym(fn, t['args'][0]))
                info['access'] = 'characters' if ('chars' in a or 'char_indices' in a) else 'bytes?'
        info['lookup'] = _lookup_mode(F, fn) if name.endswith('string') and info['shift'] is None else None
        if info['bound'] is None and info['shift'] is not None and info['access'] == 'characters' and _nth_none_is_index_error(F, fn):
            # the position is normalised as usual, and the lookup itself is the bound test: nth() finds no character exactly when the
            # position is not below the number of characters, and that outcome is the index error
            info['bound'] = 'characters'
            info['implicit_bound'] = True
        if name.endswith('string'):
            BYTE_OPS = ('::as_bytes', 'str>::bytes', '::bytes', 'core::str::<impl str>::len', 'alloc::string::String::len', '::is_char_boundary',
                        '::split_at', '::get_unchecked', 'core::str::<impl str>::get', '::as_ptr', '::from_utf8')
            fam = [fn] + [g for g in F.all_fns if g.path.startswith(name + '::{closure')]
            byte_calls = sorted({callee_name(t) for g in fam for b, t in g.calls() if (any(callee_name(t).endswith(x) or x in callee_name(t) for x in BYTE_OPS)
                                 or (psc.is_index_call(callee_name(t)) and 'str' in str(t['callee'].get('generic_args', '')) ))
                                 # what a debug assertion evaluates for its condition reads the text, it does not index it
                                 and not (callee_name(t).endswith('::is_char_boundary') and c05.feeds_only_debug_assertions(ctx, g, t['dest']['local']))})
            rep.ob(not byte_calls, 'R13.2', name, 'no byte-level access', 'strings are indexed by character: byte-level operations on the text: %s' % byte_calls, fn.loc())
        routines[name] = info
        string = name.endswith('string')
        want = 'characters' if string else 'elements'
        if info.get('lookup'):
            # the other way to say the same: no arithmetic on the index at all - the n-th character is looked up from the front for
            # an index >= 0 and from the back for a negative one, and `not found` is the index error
            okl, whyl = info['lookup']
            rep.ob(okl and info['access'] == want, 'R13.2', name, 'units', 'the position is found by counting characters from the front (index >= 0) or from the back (index < 0): %s' % whyl, fn.loc())
            rep.ob(okl, 'R13.2', name, 'shift only when negative', 'the text is walked from the back only under `index < 0`, from the front only under `index >= 0`', fn.loc())
            rep.ob(okl, 'R13.2', name, 'bound test', 'out of range is exactly `the walk ends before the position is reached`: the None of nth() leads to the index error', fn.loc())
            continue
        consistent = info['shift'] == info['bound'] == info['access'] == want
        rep.ob(consistent, 'R13.2', name, 'units', 'negative shift counts %s, the bound test counts %s, the access counts %s; all three must be %s'
               % (info['shift'], info['bound'], info['access'], want), fn.loc())
        rep.ob(info.get('shift_guard'), 'R13.2', name, 'shift only when negative', 'the count is added only under `index < 0`', fn.loc())
        # the access itself must be dominated by `index < count` (no off-by-one): same discharge as the panic-site census
        acc_sites = [s_ for s_ in psc.census(ctx) if s_['fn'] == name and s_['kind'] == 'call' and
                     (psc.is_index_call(s_['what']) or (s_['what'].endswith('::unwrap') and 'nth' in str(sym(fn, s_['term']['args'][0]))))]
        okb = bool(acc_sites) and all(c05.verdict_for(ctx, s_)[0] for s_ in acc_sites)
        if info.get('implicit_bound') and not acc_sites:
            okb = True
        rep.ob(okb, 'R13.2', name, 'bound test', 'the element access is dominated by `index < count` (out of range is exactly index >= count): %s' % [c05.verdict_for(ctx, s_)[1][:60] for s_ in acc_sites], fn.loc())
    # a position that is still negative after the shift must be rejected: the index reaches the bound test either through the
    # wrapping conversion `as usize` (a negative number becomes huge) or after an explicit `< 0` rejection; any other way of
    # making it unsigned (abs, unsigned_abs, a mask) folds positions below -count back into range
    for name, info in routines.items():
        fn = info['fn']
        if info.get('lookup') and info['lookup'][0]:
            rep.good('R13.2', name, 'still-negative position rejected', 'the index is never made unsigned by arithmetic: a position before the first character is the end of the backward walk', fn.loc())
            continue
        conv = []
        for b_, t_ in fn.calls():
            n_ = callee_name(t_)
            if n_.endswith(('::unsigned_abs', '::abs', '::wrapping_abs', '::rem_euclid', '::checked_abs', '::saturating_abs')) and 'isize' in n_ + str(t_['callee'].get('generic_args')) + fn.local_ty(t_['dest']['local']):
                conv.append(n_.split('::')[-1])
            elif n_.endswith(('::unsigned_abs', '::abs', '::wrapping_abs', '::rem_euclid')):
                conv.append(n_.split('::')[-1])
        masks = [st_ for b_, si_, st_ in fn.stmts() if st_['k'] == 'assign' and st_['rv']['k'] == 'binop' and st_['rv']['op'] in ('BitAnd', 'Rem') and st_['rv'].get('lty') in ('isize', 'i64')]
        rep.ob(not conv and not masks, 'R13.2', name, 'still-negative position rejected',
               'the only way a signed position becomes unsigned is the wrapping `as usize` (or an explicit `< 0` test): found %s' % (conv + ['%s on the signed index' % m_['rv']['op'] for m_ in masks]), fn.loc())
    # reading a character of a string makes a new string: the result is never the indexed string itself
    gs = F.fn('vm::index_get_string')
    fresh = True
    oks = 0
    for p_ in AbsInt(F, gs, max_paths=5000).run():
        r_ = simp(p_.env.get('_0'))
        if p_.exit == 'return' and r_ and r_[0] == 'agg' and r_[2] == 'Ok':
            oks += 1
            v_ = deref(p_.env, r_[3][0])
            if not (v_[0] == 'call' and v_[1].endswith('::string') and 'object::' in v_[1]):
                fresh = False
    rep.ob(fresh and oks >= 1, 'R13.2', gs.path, 'fresh character string', 'every successful read of a character returns a newly built string (never the indexed string, which index assignment could then change through the copy)', gs.loc())
    rep.table('index_routines', {k: {x: y for x, y in v_.items() if x != 'fn'} for k, v_ in routines.items()})

    # ---- R13.3 ---------------------------------------------------------------------------------
    MUT = ('IndexMut<I>>::index_mut', '::replace_range', 'Vec::<T, A>::push', '::insert', '::remove', '::truncate', '::clear', '::swap_remove')
    for name in ('vm::index_set', 'vm::index_set_array', 'vm::index_set_string'):
        fn = F.fn(name)
        mut_blocks = [b for b, t in fn.calls() if any(callee_name(t).endswith(m) for m in MUT)]
        err_blocks = set()
        for b, si, st in fn.stmts():
            if st['k'] == 'assign' and st['rv']['k'] == 'aggregate' and st['rv'].get('variant') == 'Err' and st['place']['local'] == 0:
                err_blocks.add(b)
        for b, t in fn.calls():
            if t['dest']['local'] == 0 and 'from_residual' in callee_name(t):
                # a propagated error from a callee that mutates is fine only if the callee fails before mutating (checked for it)
                err_blocks.add(b)
        bad = []
        for mb in mut_blocks:
            after = fn.reachable(mb)
            for eb in err_blocks:
                if eb in after and eb != mb:
                    bad.append((mb, eb))
        rep.ob(not bad, 'R13.3', name, 'errors before effects', 'no error return is reachable after a mutation (%d mutation sites): %s' % (len(mut_blocks), bad[:3]), fn.loc())

    # ---- R13.4 ---------------------------------------------------------------------------------
    cl = F.fn('builtins::call_length')
    found = {}
    from rules.unsafe_inv import tag_facts
    BYTE_LEN = ('core::str::<impl str>::len', 'alloc::string::String::len', '::as_bytes', 'str>::bytes', '::bytes')
    for p in AbsInt(F, cl, max_paths=5000).run():
        r = simp(p.env.get('_0'))
        vs = sorted({ty for o_, ty in tag_facts(p)})
        if p.exit == 'return' and r and r[0] == 'agg' and r[2] == 'Ok' and len(vs) == 1:
            # (what a debug assertion evaluates for its condition is not what the builtin answers with)
            names = [c[1] for c in p.calls if not (isinstance(c[4], dict) and psc.macro_of(c[4].get('span') or {}) in ('debug_assert', 'debug_assert_eq', 'debug_assert_ne'))]
            src = ' '.join(names)
            # on a path where the text was found to be all ASCII (is_ascii() came out true) one byte is one character
            from rules.shared import truth as _truth
            ascii_only = any(c_[0][0] == 'switch' and isinstance(c_[0][1], tuple) and c_[0][1][0] == 'call' and c_[0][1][1].endswith('::is_ascii') and _truth(c_)
                             for c_ in p.constraints)
            # what the answer is computed from, when it can be read off the returned value: int(<count>)
            rv_unit = None
            for x_ in subtrees(r):
                if x_[0] == 'call' and x_[1] in ('object::Object::int', 'object::Object::try_int') and x_[2]:
                    a_ = uncast(deref(p.env, x_[2][0]))
                    if a_[0] == 'call' and a_[1].endswith('::count') and a_[2] and 'chars' in str(a_[2][0]):
                        rv_unit = 'characters'
                    elif a_[0] == 'call' and a_[1].endswith(('str>::len', 'String::len')):
                        rv_unit = 'characters' if ascii_only else 'bytes'
                    elif a_[0] == 'call' and a_[1].endswith(('Vec::<T, A>::len', '[T]>::len')):
                        rv_unit = 'elements'
            if rv_unit is not None:
                unit = rv_unit
            elif ascii_only and any(n.endswith(('str>::len', 'String::len')) for n in names):
                unit = 'characters'
            elif any(any(n.endswith(b_) or b_ in n for b_ in BYTE_LEN) for n in names):
                unit = 'bytes'
            elif any(n.endswith('::chars') for n in names) and (any(n.endswith('::count') for n in names) or any(n.endswith(('Iterator>::next', 'Iterator::next')) for n in names)):
                unit = 'characters'     # chars().count(), or a loop that takes one step per character
            elif 'object::Object::as_vec' in names and any(n.endswith('Vec::<T, A>::len') or n.endswith('[T]>::len') for n in names):
                unit = 'elements'
            else:
                unit = '?'
            if found.get(vs[0], unit) != unit:
                unit = 'mixed'
            found[vs[0]] = unit
    rep.ob(found.get('String') == 'characters', 'R13.4', cl.path, 'string length unit', 'lengte of a string counts %s' % found.get('String'), cl.loc())
    rep.ob(found.get('Array') == 'elements', 'R13.4', cl.path, 'array length unit', 'lengte of an array counts %s' % found.get('Array'), cl.loc())

    # ---- R13.5 ---------------------------------------------------------------------------------
    for name in ('vm::index_get', 'vm::index_set'):
        fn = F.fn(name)
        ok = True
        seen = False
        for p in AbsInt(F, fn, max_paths=5000).run():
            names = [c[1] for c in p.calls]
            if 'object::Object::as_int' in names:
                seen = True
                i = names.index('object::Object::as_int')
                arg = p.calls[i][2][0]
                # a dominating tag test on the same value established Int
                from rules.unsafe_inv import tag_facts, canon, same
                facts = tag_facts(p)
                if not any(same(canon(p.env, arg), o_) and ty == 'Int' for o_, ty in facts):
                    ok = False
        # and the failing side returns a TypeError
        terr = any(st['k'] == 'assign' and st['rv']['k'] == 'aggregate' and st['rv'].get('variant') == 'TypeError' for b, si, st in fn.stmts())
        rep.ob(ok and seen and terr, 'R13.5', name, 'integer index test', 'index.tag() == Int is established before as_int(); otherwise a TypeError', fn.loc())

    check_aliasing(ctx, rep, 'R13.6')
    rep.rule('R13.9', 'text is made of characters everywhere, literals included: no single byte of a text is turned into a character unless it was tested to be ASCII')
    check_no_byte_chars(ctx, rep, 'R13.9')


def resolve_unit(fn, v):
    """unit of a length held in a local (e.g. `let strlen = s.chars().count()`)"""
    v = strip(v)
    if v[0] in ('mlocal',):
        for d in fn.defs().get(v[1], []):
            if d[0] == 'call':
                n = callee_name(d[2])
                s_ = str(sym(fn, d[2]['args'][0])) if d[2]['args'] else ''
                if n.endswith('::count') and 'chars' in s_:
                    return 'characters'
                for k, u in UNIT_OF_LEN:
                    if n.endswith(k):
                        return u
    if v[0] == 'cast':
        return resolve_unit(fn, v[1])
    return None


COPIES = ('::to_owned', '::to_string', '::clone', 'String::from', '::to_vec', '::collect')


def borrows_object_payload(v, depth=0):
    """does the value still borrow from an Object payload (as_str/as_vec) without an intervening copy"""
    if not isinstance(v, tuple) or depth > 14:
        return False
    if v and v[0] == 'call':
        if any(v[1].endswith(c) for c in COPIES):
            return False
        if v[1] in ('object::Object::as_str', 'object::Object::as_vec', 'object::Object::as_str_unchecked', 'object::Object::as_vec_unchecked'):
            return True
    return any(borrows_object_payload(x, depth + 1) for x in v if isinstance(x, tuple))


def _lookup_mode(F, fn):
    """(ok, why) when the routine finds its position by nth() on the characters of the text: one lookup from the front with
    `index as usize` under index >= 0, one from the back (`.rev()`) with `|index| - 1` under index < 0, and a path on which the
    lookup found nothing returns an IndexError; None when the routine does not use nth() at all"""
    nths = [(b, t) for b, t in fn.calls() if callee_name(t).endswith(('Iterator::nth', 'Iterator>::nth'))]
    if not nths:
        return None
    idx = None
    for i in range(1, fn.arg_count + 1):
        if fn.local_ty(i) in ('isize', 'i64'):
            idx = ('param', i)
    if idx is None:
        return False, 'no signed index parameter'
    seen = {'front': False, 'back': False}
    for b, t in nths:
        it = str(sym(fn, t['args'][0]))
        if 'chars' not in it and 'char_indices' not in it:
            return False, 'nth() on something that is not the characters of the text'
        back = '::rev' in it
        k = strip(sym(fn, t['args'][1]))
        facts = psc.facts_at(fn, b)
        neg = any(f[0] == 'Lt' and strip(f[1]) == idx and strip(f[2]) == ('int', 0) for f in facts)
        nonneg = any(f[0] == 'Ge' and strip(f[1]) == idx and strip(f[2]) == ('int', 0) for f in facts)
        if not back:
            if not (nonneg and k == idx):
                return False, 'the forward lookup must take `index as usize` under index >= 0 (got %s, guard %s)' % (show_s(k), nonneg)
            seen['front'] = True
        else:
            kk = k
            if kk[0] == 'field' and kk[2] == '0' and kk[1][0] == 'binop' and kk[1][1].endswith('WithOverflow'):
                kk = ('binop', kk[1][1][:-12], kk[1][2], kk[1][3])
            if kk[0] == 'checked':
                kk = ('binop', kk[1], kk[2], kk[3])
            okk = kk[0] == 'binop' and kk[1] == 'Sub' and strip(kk[3]) == ('int', 1) and strip(kk[2])[0] == 'call' and \
                strip(kk[2])[1].endswith(('::unsigned_abs', '::abs', '::wrapping_abs')) and strip(strip(kk[2])[2][0]) == idx
            if not (neg and okk):
                return False, 'the backward lookup must take `|index| - 1` under index < 0 (got %s, guard %s)' % (show_s(k), neg)
            seen['back'] = True
    if not (seen['front'] and seen['back']):
        return False, 'lookups found: %s' % seen
    # nothing found -> IndexError
    err_on_none = False
    for p in AbsInt(F, fn, max_paths=5000).run():
        r = simp(p.env.get('_0'))
        if p.exit == 'return' and r and r[0] == 'agg' and r[2] == 'Err' and 'IndexError' in str(r):
            for c in p.constraints:
                if c[0][0] == 'variant' and 'Option' in str(c[0][2]) and c[1] == 'None':
                    err_on_none = True
    if not err_on_none:
        return False, 'no path turns `not found` into an IndexError'
    return True, 'front: nth(index) under index >= 0; back: rev().nth(|index| - 1) under index < 0; None -> IndexError'


def _nth_none_is_index_error(F, fn):
    """the routine looks a character up with nth() (no unwrap) and a path on which nothing was found returns an IndexError"""
    nths = [(b, t) for b, t in fn.calls() if callee_name(t).endswith(('Iterator::nth', 'Iterator>::nth'))]
    if not nths:
        return False
    if any(callee_name(t).endswith(('::unwrap', '::expect')) and 'nth' in str(sym(fn, t['args'][0])) for b, t in fn.calls()):
        return False
    for p in AbsInt(F, fn, max_paths=5000).run():
        r = simp(p.env.get('_0'))
        if p.exit == 'return' and r and r[0] == 'agg' and r[2] == 'Err' and 'IndexError' in str(r):
            for c in p.constraints:
                if c[0][0] == 'variant' and 'Option' in str(c[0][2]) and c[1] == 'None' and len(c[0]) > 3 and 'nth' in str(c[0][3]):
                    return True
    return False


def show_s(v):
    try:
        return show(v)[:60]
    except Exception:
        return str(v)[:60]


def payload_views(f, reads):
    """locals of f that may hold a borrowed view of an Object payload (flow-insensitive; copies end the borrow by type)"""
    def can_borrow(l):
        ty = f.local_ty(l) or ''
        return '&' in ty or "'" in ty or '*const' in ty or '*mut' in ty
    views = set()
    for b, t in f.calls():
        if callee_name(t) in reads:
            views.add(t['dest']['local'])
    changed = True
    while changed:
        changed = False
        for b, si, st in f.stmts():
            if st['k'] == 'assign':
                d = st['place']['local']
                if d not in views and can_borrow(d) and (_shared.LocalFlow.locals_of(st['rv']) & views):
                    views.add(d)
                    changed = True
        for b, t in f.calls():
            d = t['dest']['local']
            if d in views or not can_borrow(d):
                continue
            if any(callee_name(t).endswith(c) for c in COPIES):
                continue
            if any(op_base_local(a) in views for a in t['args']):
                views.add(d)
                changed = True
    return views


def check_aliasing(ctx, rep, rule):
    """while a &mut obtained from as_string_mut/as_vec_mut/get_mut is live in a body, no other Object value is dereferenced
    (as_str/as_vec/Display...) unless it is provably a different object"""
    F = ctx.facts()
    MUTS = ('object::Object::as_string_mut', 'object::Object::as_vec_mut', 'object::Object::as_vec_unchecked_mut')
    READS = ('object::Object::as_str', 'object::Object::as_vec', 'object::Object::as_str_unchecked', 'object::Object::as_vec_unchecked', 'object::Object::as_f64')
    # functions that receive the &mut as a parameter and read another Object
    n = 0
    for f in F.all_fns:
        if f.crate != 'lib':
            continue
        mut_params = [i for i in range(1, f.arg_count + 1) if f.local_ty(i).startswith('&') and 'mut' in f.local_ty(i).split(' ')[0:2].__str__() and
                      ('alloc::string::String' in f.local_ty(i) or 'alloc::vec::Vec<object::Object>' in f.local_ty(i))]
        holds_mut = bool(mut_params)
        mut_calls = [(b, t) for b, t in f.calls() if callee_name(t) in MUTS]
        if not holds_mut and not mut_calls:
            continue
        if f.path.startswith('object::Object::'):
            continue
        reads = [(b, t) for b, t in f.calls() if callee_name(t) in READS]
        obj_params = [i for i in range(1, f.arg_count + 1) if f.local_ty(i) == 'object::Object']
        for b, t in reads:
            n += 1
            # the read object vs the mutated one: if the &mut is a parameter and the read object another parameter, they may alias
            # unless the mutation has not started and ... we require: the read happens before the first mutating call on every path
            MUTOPS = ('IndexMut<I>>::index_mut', '::replace_range', 'Vec::<T, A>::push', '::insert', '::clear', '::truncate', '::split_off', '::push_str', '::insert_str',
                      'String::remove', 'Vec::<T, A>::remove', '::drain', '::retain', 'String::pop', 'Vec::<T, A>::pop', '::swap_remove', '::extend', '::extend_from_slice', '::push')
            mut_blocks = [bb for bb, tt in f.calls() if any(callee_name(tt).endswith(m) for m in MUTOPS)]
            # where does the read value flow: into the mutating call's arguments? then source and target may be the same buffer
            flows = False
            for mb in mut_blocks:
                tt = f.term(mb)
                for a in tt['args']:
                    if borrows_object_payload(sym(f, a)):
                        flows = True
            # the same question over every definition of every local (a view chosen by a branch, wrapped in Cow::Borrowed / Some,
            # unwrapped again): a local holds a VIEW of a payload when it is computed from one and its type can still borrow
            # (a reference or a lifetime in it); `to_owned` and friends return a type that cannot
            views = payload_views(f, READS)
            for mb in mut_blocks:
                tt = f.term(mb)
                for a in tt['args'][1:]:
                    if op_base_local(a) in views:
                        flows = True
            # ... and the read itself must not come after the target has started to change: a copy taken then is a copy of the
            # half-changed text when both are the same object
            late = False
            for mb in mut_blocks:
                if b != mb and b in f.reachable(mb) and not f.path.startswith('builtins::'):
                    tt = f.term(mb)
                    # the mutation is of a payload obtained from an Object of this function (not of a local buffer being built)
                    r0 = str(sym(f, tt['args'][0])) if tt['args'] else ''
                    if any(m_.split('::')[-1] in r0 for m_ in MUTS) or (holds_mut and "('param'," in r0):
                        late = True
            rep.ob(not late, rule, f.path, 'read of another Object after the mutation began (%s)' % callee_name(t).split('::')[-1],
                   'every read of an Object that may be the one being modified happens before the first change to the target (`s[i] = s`: a copy taken after the target was cut is a copy of the cut text)',
                   span_loc(t['span']))
            rep.ob(not flows, rule, f.path, 'read of another Object while holding &mut (%s)' % callee_name(t).split('::')[-1],
                   'a borrowed view of an Object (which may be the very object being mutated: `s[0] = s`) is passed into the mutation; copy it first',
                   span_loc(t['span']))
    rep.count('alias_candidates', n)


def check_no_byte_chars(ctx, rep, rule):
    """text is a sequence of characters.  Turning a single byte of it into a character (`b as char`, char::from(b)) is right for
    ASCII only: every other character is several bytes, each of which would become a character of its own (`é` -> `Ã©`).  Every
    byte-to-char conversion in the library needs a dominating test that the byte is ASCII (or a constant operand)."""
    from rules.shared import int_of
    F = ctx.facts()
    n = 0
    for key in sorted(F.fns):
        fn = F.fns[key]
        if fn.crate != 'lib' or key.startswith(('parser::tests', 'lexer::tests')) or '::tests::' in key:
            continue
        sites = []
        for b, si, st in fn.stmts():
            if st['k'] == 'assign' and st['rv']['k'] == 'cast' and str(st['rv'].get('to')) == 'char' and str(st['rv'].get('from')) == 'u8':
                sites.append((b, st['rv']['op'], st['span'], '`as char`'))
        for b, t in fn.calls():
            nm = callee_name(t)
            if nm in ('<char as core::convert::From<u8>>::from', 'core::char::convert::<impl core::convert::From<u8> for char>::from') or \
                    (nm.endswith('::from') and 'From<u8>' in nm and 'char' in nm):
                sites.append((b, t['args'][0], t['span'], 'char::from'))
        for b, op, span, how in sites:
            n += 1
            if op.get('k') == 'const':
                rep.good(rule, key, 'byte to char#%d' % n, 'constant operand', span_loc(span), nontrivial=False)
                continue
            val = psc.strip(sym(fn, op))
            ok = False
            for f in psc.facts_at(fn, b):
                if f[0] in ('Lt', 'Le') and psc.strip(f[1]) == val and int_of(f[2]) is not None and int_of(f[2]) <= (128 if f[0] == 'Lt' else 127):
                    ok = True
                if f[0] == 'callbool' and f[1][1].endswith('::is_ascii') and f[2] is True and psc.strip(unref(f[1][2][0])) == val:
                    ok = True
            rep.ob(ok, rule, key, 'byte to char (%s)' % how, 'a byte becomes a character of its own only where it was tested to be ASCII: otherwise each byte of a multi-byte character turns into a separate (wrong) character', span_loc(span))
    if not n:
        rep.good(rule, 'crate', 'byte to char conversions', 'the library never turns a single byte into a character (0 conversions in %d functions)' % len([k for k in F.fns if F.fns[k].crate == 'lib']), None)
    rep.count('byte_to_char_conversions', n)
