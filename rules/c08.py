"""C08 — tokenisation and literals are faithful to the text (lexer/parser table rules, E2 + E1)."""
import re
from mirlib import *
from synlib import *
from rules import tables
from rules.psc import sym, strip

META = {
    'title': 'Tokenisation and literals are faithful to the text',
    'explanation': 'Clauses read off the MIR of the lexer by constant propagation with the first two input characters held constant (a finite decision table: which token, how many characters consumed) and off the scan predicates as truth tables, plus structural rules on the string decoder: two-character operators give their own token and consume exactly two characters, no other second character changes or joins a one-character token, the keyword table is the documented one and is applied to the whole identifier slice, identifier/number/string/comment scan predicates, the skipped set is exactly Pattern_White_Space, token text is sliced only at offsets produced by bump(), the escape flag of the string scanner has parity (4-cell truth table of one loop iteration), the decoder is a single left-to-right pass over the same escape set with the documented values, and the end-of-input sentinel is not a token the lexer can produce.'
                   ' R08.9 the token stream ends only where the text ends (an unterminated literal is not the end of the program). R08.10 the program ends only where the tokens end (parse answers Ok only at the end-of-input token).',
    'not_decided': ['token-stream equality for all inputs as an input-output relation', "Unicode classification (char::is_alphabetic) is std's"],
}
META['explanation'] += ' R08.11 no branch of the parser (the decoding of a literal included) depends on tokenizer state besides the tokens. R08.12 no single byte of a text becomes a character unless tested to be ASCII.'

KEYWORDS = ['als', 'anders', 'antwoord', 'functie', 'zolang', 'stel', 'ja', 'nee', 'stop', 'volgende']
TWO_CHAR = ['==', '!=', '<=', '>=', '&&', '||']
ESCAPES = {'"': '"', '\\': '\\', 'n': '\n', 't': '\t'}
PATTERN_WHITE_SPACE = [0x09, 0x0A, 0x0B, 0x0C, 0x0D, 0x20, 0x85, 0x200E, 0x200F, 0x2028, 0x2029]
LEX = 'src/lexer.rs'


def pred_atoms(e):
    """boolean combination -> ('or'|'and'|'not'|'atom', ...) with atoms rendered"""
    k = e.get('k')
    if k == 'binary' and e['op'] in ('||', '&&'):
        return ('or' if e['op'] == '||' else 'and', pred_atoms(e['l']), pred_atoms(e['r']))
    if k == 'unary' and e['op'] == '!':
        return ('not', pred_atoms(e['expr']))
    return ('atom', render(e))


def flatten(p, op):
    if p[0] == op:
        return flatten(p[1], op) + flatten(p[2], op)
    return [p]


def slice_boundaries_ok(ctx):
    """R08.3 as a predicate (used by PSC-D3)"""
    F = ctx.facts()
    T = "lexer::Tokenizer::<'a>::"
    writers = set()
    for f in F.all_fns:
        for b, si, st in f.stmts():
            if st['k'] == 'assign' and place_fields(st['place'])[:1] == ['pos'] and any(
                    isinstance(e, dict) and e.get('of') == 'lexer::Tokenizer' for e in st['place']['proj']):
                writers.add(f.path)
    tkf = [f_['name'] for f_ in F.adt('lexer::Tokenizer')['variants'][0]['fields']]
    no_pos = 'pos' not in tkf
    ok_w = writers <= {T + 'bump', T + 'new'}
    # bump: pos += len_utf8(c) with c the char just taken from chars
    bump = F.fn(T + 'bump')
    okb = False
    for b, si, st in bump.stmts():
        if st['k'] == 'assign' and place_fields(st['place'])[:1] == ['pos']:
            v = sym(bump, st['rv']['op']) if st['rv']['k'] == 'use' else None
            s_ = str(v)
            okb = 'len_utf8' in s_ and 'Add' in s_
    if no_pos:
        # no counter: offset() is derived from what the character iterator still covers, which always starts on a character boundary
        okb = True
    # read_str arguments
    bad = []
    for f, b, t in F.callers_of(lambda p: p == T + 'read_str'):
        for a in t['args'][1:]:
            v = strip(sym(f, a))
            s_ = str(v)
            form_ok = False
            if v[0] == 'call' and v[1] == T + 'offset':
                form_ok = True
            elif v[0] == 'binop' and v[1] in ('Add', 'Sub') and strip(v[3]) == ('int', 1) and strip(v[2])[0] in ('call', 'mlocal') and ('offset' in s_ or True):
                form_ok = 'offset' in s_ or strip(v[2])[0] == 'mlocal'
            elif v[0] == 'binop' and v[1] == 'Sub' and strip(v[2])[0] == 'call' and strip(v[2])[1] == T + 'offset' and strip(v[3])[0] == 'call' \
                    and strip(v[3])[1].endswith('char::methods::<impl char>::len_utf8') and 'bump' in str(strip(v[3])[2]):
                # offset() - c.len_utf8() with c a character bump() handed out: the boundary in front of that character
                form_ok = True
            elif v[0] == 'mlocal' or v[0] == 'param':
                # `start`: a value of offset() saved earlier
                ds = f.defs().get(v[1], []) if v[0] == 'mlocal' else []
                form_ok = True
                for d in ds:
                    if d[0] == 'call' and callee_name(d[2]) != T + 'offset':
                        form_ok = False
            if not form_ok:
                bad.append('%s arg %s' % (f.path, s_[:60]))
    # `offset() - 1` steps back over the closing quote: that quote must have been consumed.  On the text `"` (a string that is
    # opened as the last character) no path may get as far as cutting the token text out: the bounds would cross (start + 1 > offset() - 1)
    _, ps_, model_, trunc_ = tables.lex_run(F, ['"', None])
    if trunc_ or any(T + 'read_str' in [c[1] for c in p_.calls] for p_ in ps_):
        bad.append('on a string literal that is still open at the end of the text read_str(start + 1, offset() - 1) is reached with crossed bounds')
    ok = ok_w and okb and not bad
    why = 'Tokenizer.pos is written only by new/bump (+= len_utf8 of the consumed char); read_str is called with offset() values (±1 around the one-byte quote)'
    if not ok:
        why = 'writers of pos: %s; bump adds len_utf8: %s; read_str arguments not derived from offset(): %s' % (sorted(writers), okb, bad)
    return ok, why


def float_token_shape_ok(ctx):
    """the Float token is [0-9]+ '.' [0-9]* (accepted by f64::from_str): the number scan accepts ASCII digits and at most one
    '.', remembered in a flag that decides Int / Float.  Read from the scan closure's MIR as a truth table."""
    def build():
        F = ctx.facts()
        fn, ps, clos = scan_paths(ctx, '5', 'a')
        if len(set(clos)) != 1:
            return False, 'number scan: expected one skip_while predicate on the path of a digit, found %d' % len(set(clos))
        tb = closure_table(F, clos[0], ['0', '5', '9', '.', 'a', ' ', '-', 'e', '_', '\u0665', '\u00b2', '\u00bd', '\uff11'], flags=(0, 1), captured=(0, 1))
        bad = []
        for (ch, fl, cap), (res, after) in sorted(tb.items()):
            if ch in '0123456789':
                want = (1, cap)
            elif ch == '.':
                want = (1, 1) if cap == 0 else (0, 1)
            else:
                want = (0, cap)
            if (res, after) != want:
                bad.append('%r with dot-seen=%d: accepts=%s dot-seen\'=%s (expected %s)' % (ch, cap, res, after, want))
        # the flag decides the token kind
        L = None

        def through_copies(l, depth=0):
            # `_a = move _b` / `_a = copy _b` chains of temporaries, down to the variable itself
            ds = fn.defs().get(l, [])
            if depth < 8 and len(ds) == 1 and ds[0][0] == 'assign' and ds[0][3]['k'] == 'use' and ds[0][3]['op'].get('k') in ('copy', 'move') \
                    and not ds[0][3]['op']['place']['proj']:
                return through_copies(ds[0][3]['op']['place']['local'], depth + 1)
            return l
        for b, si, st in fn.stmts():
            if st['k'] == 'assign' and st['rv']['k'] == 'aggregate' and st['rv'].get('closure') == clos[0] and st['rv']['ops']:
                o0 = st['rv']['ops'][0]
                if o0.get('k') in ('copy', 'move') and not o0['place']['proj']:
                    r_ = through_copies(o0['place']['local'])
                    ds = fn.defs().get(r_, [])
                    if len(ds) == 1 and ds[0][0] == 'assign' and ds[0][3]['k'] in ('ref', 'rawptr') and not ds[0][3]['place']['proj']:
                        L = ds[0][3]['place']['local']
        kinds = {}
        from rules import psc as _psc
        for b, si, st in fn.stmts():
            if st['k'] == 'assign' and st['rv']['k'] == 'aggregate' and st['rv'].get('adt') == tables.TOKEN and st['rv'].get('variant') in ('Int', 'Float'):
                for cond, vs, d, tb_, t_ in _psc.guards(fn, b):
                    o_ = t_['op']
                    if L is not None and o_.get('k') in ('copy', 'move') and not o_['place']['proj'] and through_copies(o_['place']['local']) == L:
                        kinds[st['rv']['variant']] = _psc.bool_truth(vs, t_)
        okk = L is not None and kinds.get('Float') is True and kinds.get('Int') is False
        ok = not bad and okk
        return ok, 'number scan accepts ASCII digits and one `.` (remembered in a flag that selects Float): %s; flag selects token: %s' % (bad[:2] or 'table as expected', kinds)
    return tables._memo(ctx, 'float_shape', build)


def render_tree(e):
    return render(e)


def check_stream_end(ctx, rep, rule, lf):
    """`No part of the input is silently dropped`: the parser takes the first None of the tokenizer for the end of the program.
    With the first characters of the input held constant (tables.lexer_outcomes: every printable ASCII character, the whitespace
    forms and some non-ASCII ones, alone and followed by a second character), next() may answer None only if all it consumed
    was whitespace, or a comment up to the end of the text; a None from inside a token (a string that is not closed) makes the
    rest of the text disappear without an error."""
    O = tables.lexer_outcomes(ctx)
    skipped = {chr(c) for c in lf['skipped']}
    by_start = {}
    n = 0
    for (c1, c2), res in sorted(O.items(), key=lambda kv: (kv[0][0], kv[0][1] or '')):
        if not any(r[0] == '<eof>' for r in res):
            continue
        n += 1
        rest = [c for c in (c1, c2) if c is not None]
        while rest and rest[0] in skipped:
            rest.pop(0)
        if not rest or (rest == ['/', '/'] and lf['comment']['skip']):
            continue
        by_start.setdefault(rest[0], []).append(''.join(c for c in (c1, c2) if c is not None))
    rep.count('stream_end_inputs', n)
    starts = sorted({k[0] for k in O if k[0] not in skipped})
    for c in starts:
        bad = by_start.get(c)
        rep.ob(not bad, rule, 'lexer::Tokenizer::next', 'end of stream after %r' % c,
               ('a text that starts with %r always yields a token first' % c) if not bad else
               'on the text %r (and %d more) next() answers None, which the parser takes for the end of the program: the unfinished token and everything after it '
               'are dropped without an error' % (bad[0], len(bad) - 1), 'src/lexer.rs')


def check_program_end(ctx, rep, rule):
    """every successful return of the top-level parse has, as its LAST test of the current token, found it equal to the
    end-of-input token (helpers that are new are spliced in, so a shared statement loop is seen where it is used)"""
    from rules import trm
    from rules.shared import deref, truth
    F = ctx.facts()
    fn = F.fn('parser::parse')
    eof = trm.sentinel_token(F)
    fields = [f['name'] for f in F.adt('parser::Parser')['variants'][0]['fields']]
    idx = fields.index('current_token') if 'current_token' in fields else None
    if idx is None:
        cand = [i for i, f in enumerate(F.adt('parser::Parser')['variants'][0]['fields']) if f['ty'].startswith('lexer::Token<')]
        if len(cand) != 1:
            raise CheckerError('%s: anchor not found: the field of Parser that holds the current token' % rule)
        idx = cand[0]
    suffix = '.f%d' % idx

    cur_name = F.adt('parser::Parser')['variants'][0]['fields'][idx]['name']

    def is_cur(v):
        if isinstance(v, tuple) and len(v) == 2 and v[0] in ('mem', 'ref') and isinstance(v[1], str) and v[1].endswith(suffix):
            return True
        # a copy of the field taken just before the test (`let next = self.current_token; if next == ..`)
        return isinstance(v, tuple) and len(v) == 3 and v[0] == 'field' and v[2] == cur_name
    n = 0
    # the list of statements produced by an iterator: `iter::from_fn(|| ..).collect()` - the standard library asks the closure for
    # the next statement until it answers None, which is then the only way the program ends: the closure's None paths are examined
    gen = None
    names_ = [callee_name(t) for b, t in fn.calls()]
    if any(n_.endswith('from_fn::from_fn') for n_ in names_) and any(n_.endswith('Iterator::collect') for n_ in names_):
        for b, t in fn.calls():
            if callee_name(t).endswith('from_fn::from_fn') and t['args']:
                d = fn.def_rvalue(t['args'][0])
                if d and d[0] == 'assign' and d[3]['k'] == 'aggregate' and d[3].get('closure') in F.fns:
                    gen = F.fns[d[3]['closure']]
    subject = gen or fn
    for p in AbsInt(F, subject, max_paths=20000).run():
        r = simp(p.env.get('_0'))
        ends = (r and r[0] == 'agg' and r[2] == 'None') if gen is not None else (r and r[0] == 'agg' and r[2] == 'Ok')
        if p.exit != 'return' or not ends:
            continue
        n += 1
        last = None
        for c in p.constraints:
            if c[0][0] == 'switch' and c[0][1][0] == 'call' and (c[0][1][1].endswith('::ne') or c[0][1][1].endswith('::eq')):
                args = [deref(p.env, a) for a in c[0][1][2]]
                if len(args) == 2 and any(is_cur(a) for a in args):
                    other = [a for a in args if not is_cur(a)]
                    is_ne = c[0][1][1].endswith('::ne')
                    t = truth(c)
                    equal = (t and not is_ne) or ((not t) and is_ne)
                    last = (other[0] if other else None, equal)
            elif c[0][0] == 'variant' and c[0][2] == tables.TOKEN and isinstance(c[0][1], str) and c[0][1].endswith(suffix):
                # a `match` on the current token: the arm taken names the token (an `otherwise` arm names none)
                last = (('enum', tables.TOKEN, c[1]), True) if not str(c[1]).startswith('otherwise') else (None, False)
        ok = last is not None and last[1] and last[0] == ('enum', tables.TOKEN, eof)
        rep.ob(ok, rule, fn.path, 'Ok return #%d' % n, 'the last test of the current token before the successful return found %s (%s)' % (
            'Token::' + eof if ok else 'something else', 'no test' if last is None else '%s %s' % ('==' if last[1] else '!=', show(last[0]) if last[0] else '?')), fn.loc())
    rep.count('parse_ok_paths', n)
    if n == 0:
        raise CheckerError('%s: no successful return path of parser::parse was found' % rule)


def run(ctx, rep):
    F = ctx.facts()
    S = ctx.syn()
    lt = tables.lexer_table(ctx)
    rep.rule('R08.1', 'maximal munch: two-character operators are tested first and consume exactly two characters')
    rep.rule('R08.2', 'keyword table is the documented one, applied to whole identifiers; identifier/whitespace/comment classes')
    rep.rule('R08.3', 'token text is always a slice between character boundaries')
    rep.rule('R08.4', 'the escape flag of the string scanner has parity')
    rep.rule('R08.5', 'string literals are decoded in one left-to-right pass over the escape set \\" \\\\ \\n \\t')
    rep.rule('R08.6', 'end of input and an illegal character are distinguishable; numeric token shapes')
    rep.rule('R08.7', 'whitespace and comments are skipped and never produce a token')
    nxt = lt['fn']
    loc = 'src/lexer.rs:%d' % nxt['line']
    fnp = 'lexer::Tokenizer::next'
    rep.count('lexer_arms', len(lt['arms']))

    # ---- R08.1 -------------------------------------------------------------------------------
    # read from the lexer's MIR with the first two characters held constant (tables.lexer_outcomes): what matters is which
    # token comes out and how many characters were consumed, not how the tests are spelled or which helper performs them
    O = lt['outcomes']
    unit = lt['unit_tokens']
    c2s = sorted({k[1] for k in O if k[1] is not None})
    two = {lx: tok for lx, tok in lt['table'].items() if len(lx) == 2}
    rep.table('two_char_tokens', two)
    for lx in TWO_CHAR:
        r = O.get((lx[0], lx[1]), [])
        single = len(r) == 1
        tok = r[0][0] if single else None
        rep.ob(single and tok in unit and tok != 'Illegal' and tok != (O[(lx[0], None)][0][0] if len(O[(lx[0], None)]) == 1 else None), 'R08.1', fnp, 'lexeme %s' % lx,
               'the two characters give one token of their own (token %s), not the one-character token followed by another' % tok, loc)
        rep.ob(single and r[0][1] == 2, 'R08.1', fnp, 'second character of %s' % lx, 'recognising %s consumes exactly two characters (consumed: %s)' % (tok, r[0][1] if single else r), loc)
    for lx in two:
        rep.ob(lx in TWO_CHAR, 'R08.1', fnp, 'lexeme %s' % lx, 'only the documented two-character operators are munched', loc)
    # every other (first, second) pair: the second character does not change the token and is not consumed
    for (c1, c2), r in sorted(O.items(), key=lambda kv: (kv[0][0], kv[0][1] or '')):
        if c2 is None or c1 + c2 in TWO_CHAR or c1 + c2 == '//':
            continue
        alone = O[(c1, None)]
        if len(alone) != 1 or alone[0][0] not in unit or 'skip_while' in alone[0][2] or alone[0][1] != 1:
            continue        # identifiers, numbers, strings read on by themselves (also when the text ends inside one)
        okp = len(r) == 1 and r[0][0] == alone[0][0] and r[0][1] == 1
        if not okp:
            rep.bad('R08.1', fnp, 'lexeme %s before %r' % (c1, c2), 'a one-character token must not depend on or consume the character after it: alone %s, followed by %r: %s' % (alone, c2, r), loc)
    rep.good('R08.1', fnp, 'one-character tokens', '%d (first, second) character pairs: the second character neither changes nor joins a one-character token' % len(O), loc)
    # one-character prefixes still exist
    for lx in ('=', '!', '<', '>'):
        rep.ob(lx in lt['table'], 'R08.1', fnp, 'lexeme %s' % lx, 'the one-character form is still produced (%s)' % lt['table'].get(lx), loc)
    # docs of Token variants agree with the lexer table
    en = S.enum(LEX, 'Token')
    docs = {}
    for v in en['variants']:
        for d in v['docs']:
            m = re.match(r'^\s*"(.+)"\s*$', d)
            if m:
                docs[v['name']] = m.group(1)
    mism = [(lx, t, docs.get(t)) for lx, t in lt['table'].items() if t in docs and len(lx) <= 2 and docs[t] != lx and not t.endswith('(..)')]
    rep.ob(not mism, 'R08.1', 'lexer::Token', 'variant docs vs lexer arms', 'operator tokens are produced for the lexeme their documentation names: %s' % mism, 'src/lexer.rs:%d' % en['line'])

    # ---- R08.2 keywords --------------------------------------------------------------------------
    kt = tables.keyword_table(ctx)
    kw = kt['keywords']
    readme = ctx.readme()
    rep.table('keywords', kw)
    for k in KEYWORDS:
        rep.ob(k in kw, 'R08.2', 'lexer::Token::from', 'keyword %s' % k, 'documented keyword maps to a keyword token (%s)' % kw.get(k), 'src/lexer.rs:%d' % kt['line'])
        if not re.search(r'(?<![\w])%s(?![\w])' % re.escape(k), readme):
            rep.note('keyword %s does not occur in README.md (oracle = property statement)' % k)
    for k in kw:
        rep.ob(k in KEYWORDS, 'R08.2', 'lexer::Token::from', 'keyword %s' % k, 'only documented words are keywords', 'src/lexer.rs:%d' % kt['line'])
    rep.ob(len(set(kw.values())) == len(kw), 'R08.2', 'lexer::Token::from', 'distinct tokens', 'every keyword has its own token', 'src/lexer.rs:%d' % kt['line'])
    rep.ob(kt['default'] is not None and kt['default'].startswith('Identifier('), 'R08.2', 'lexer::Token::from', 'default', 'every other word is an identifier: %s' % kt['default'], 'src/lexer.rs:%d' % kt['line'])
    # identifier: start class, continue class and the keyword lookup on the whole word — from the constant-propagated MIR
    O = lt['outcomes']
    starts = sorted(c1 for (c1, c2), r in O.items() if c2 is None and r and all(x[0].startswith('<call') or x[0] == 'Identifier' for x in r) and all('skip_while' in x[2] for x in r))
    want_starts = sorted(c1 for (c1, c2) in O if c2 is None and (c1.isalpha() or c1 == '_'))
    start_ok = starts == want_starts
    fnI, psI, closI = scan_paths(ctx, 'a', 'b')
    cont_ok = False
    if len(set(closI)) == 1:
        tbI = closure_table(F, closI[0], ['a', 'Z', '0', '9', '_', '\u00e9', ' ', '-', '.', '"', '(', '\n'])
        cont_ok = tbI is not None and all(v[0] == int(ch.isalnum() or ch == '_') for (ch, fl), v in tbI.items())
    # read_str(start, offset()) after the scan, start = offset() before the first character; the slice goes through Token::from
    conv_ok = whole = False
    for p_ in psI:
        names = [c_[1] for c_ in p_.calls]
        T_ = tables.TOK
        if T_ + 'read_str' in names and T_ + 'skip_while' in names:
            i_sw, i_rs = names.index(T_ + 'skip_while'), names.index(T_ + 'read_str')
            rs = p_.calls[i_rs]
            offs = [k for k, n_ in enumerate(names) if n_ == T_ + 'offset']
            first_bump = names.index(T_ + 'bump')
            a_from, a_to = rs[2][1], rs[2][2]
            # `start` is the offset() taken right before the character that starts the word: exactly one bump lies between that
            # call and the scan (whatever was skipped before it)
            k0 = max([k for k in offs if a_from[0] == 'call' and a_from[1] == T_ + 'offset' and p_.calls[k][0] == a_from[3] and k < i_sw], default=None)
            whole = k0 is not None and names[k0 + 1:i_sw].count(T_ + 'bump') == 1 and \
                a_to[0] == 'call' and a_to[1] == T_ + 'offset' and any(p_.calls[k][0] == a_to[3] and k > i_sw for k in offs)
            conv_ok = i_sw < i_rs and any(n_.startswith("<lexer::Token<'a> as core::convert::From") or n_.endswith('Into<U>>::into') or n_.endswith('::into') for n_ in names[i_rs:])
    ok = start_ok and cont_ok and conv_ok and whole
    rep.ob(ok, 'R08.2', fnp, 'identifier arm', 'start class alphabetic|_ (%s), continue class alphanumeric|_ (%s), keyword lookup on the whole slice start..offset() after the scan (%s, %s)'
           % (start_ok, cont_ok, conv_ok, whole), loc)
    # whitespace set
    lf = layout_facts(ctx)
    rep.ob(not lf['undecided'], 'R08.2', 'lexer::is_whitespace', 'pure table', 'for every code point examined the lexer decides skip / no skip from the character alone (undecided: %s)' % [hex(c) for c in lf['undecided']][:5], 'src/lexer.rs')
    rep.ob(lf['skipped'] == PATTERN_WHITE_SPACE, 'R08.2', 'lexer::is_whitespace', 'Pattern_White_Space', 'whitespace is exactly the 11 code points: %s' % [hex(c) for c in lf['skipped']][:14], 'src/lexer.rs')

    rep.rule('R08.8', 'the lexer primitives satisfy the contracts the table extraction assumes (peek, bump, offset, is_eof, new)')
    check_lexer_primitives(ctx, rep, 'R08.8')

    # ---- R08.3 -------------------------------------------------------------------------------
    ok, why = slice_boundaries_ok(ctx)
    rep.ob(ok, 'R08.3', 'lexer::Tokenizer', 'slice offsets', why, 'src/lexer.rs')

    # ---- R08.4 escape parity -----------------------------------------------------------------
    table, why_ = skip_while_delta(ctx)
    sw_fn = F.fn(tables.TOK + 'skip_while')
    want = {(False, '\\'): True, (False, 'x'): False, (True, '\\'): False, (True, 'x'): False}
    rep.table('escape_delta', {'%s,%s' % k: v for k, v in (table or {}).items()})
    for k in want:
        got = table.get(k) if table else None
        rep.ob(got == want[k], 'R08.4', 'lexer::Tokenizer::skip_while', 'delta(escaped=%s, c=%s)' % (k[0], 'backslash' if k[1] == '\\' else 'other'),
               'next escaped must be %s (an escaped backslash does not escape what follows); the code gives %s %s' % (want[k], got, why_), sw_fn.loc())
    # the string scan continues while the character is not an unescaped quote
    _, sps, sclos = scan_paths(ctx, '"', 'a')
    okp = False
    if len(set(sclos)) == 1:
        tb = closure_table(F, sclos[0], ['"', 'a', '\\', 'n', ' ', '\n'])
        okp = tb is not None and all(v[0] == (0 if (ch == '"' and fl == 0) else 1) for (ch, fl), v in tb.items())
        rep.table('string_scan_predicate', {'%r,%d' % k: v[0] for k, v in (tb or {}).items()})
    rep.ob(okp, 'R08.4', fnp, 'string scan predicate', 'scan continues while the character is not an unescaped quote', loc)

    # ---- R08.5 single-pass decode ------------------------------------------------------------
    # read from the MIR of the decoder (helpers it was split into are spliced in): no replace over decoded text, one
    # iterator over the raw text and one loop, the characters tested after a backslash and what each of them produces
    dec = F.fn("parser::Parser::<'a>::parse_string_expression")
    dloc = dec.loc()
    names = [callee_name(t_) for b, t_ in dec.calls()]
    reps = [n for n in names if n.endswith(('::replace', '::replacen', '::replace_range'))]
    rep.ob(not reps, 'R08.5', 'parser::Parser::parse_string_expression', 'post-pass replace', 'no replace() over already decoded text (it would re-interpret characters that came from an escaped backslash); found %d' % len(reps), dloc)
    iters = [n for n in names if n.endswith(('core::str::<impl str>::chars', 'core::str::<impl str>::char_indices', 'core::str::<impl str>::bytes', '::as_bytes'))]
    nloops = len(dec.natural_loops())
    rep.ob(len(iters) == 1 and nloops == 1, 'R08.5', 'parser::Parser::parse_string_expression', 'single pass', 'exactly one iterator over the raw text and one loop (found %d iterators, %d loops)' % (len(iters), nloops), dloc)
    tested = {}
    for b in sorted(dec.normal_blocks()):
        t_ = dec.term(b)
        if t_['k'] == 'switch' and t_.get('ty') == 'char':
            for val, tb in t_['targets']:
                tested.setdefault(chr(val), []).append(tb)
        for st_ in dec.blocks[b]['stmts']:
            if st_['k'] == 'assign' and st_['rv']['k'] == 'binop' and st_['rv']['op'] in ('Eq', 'Ne') and st_['rv'].get('lty') == 'char':
                for o_ in (st_['rv']['l'], st_['rv']['r']):
                    if o_.get('k') == 'const' and 'int' in o_:
                        tested.setdefault(chr(o_['int']), [])
    rep.ob(set(tested) == {'"', '\\', 'n', 't'}, 'R08.5', 'parser::Parser::parse_string_expression', 'escape set', 'decoder handles exactly \\" \\\\ \\n \\t: tests %s' % sorted(tested), dloc)
    produced = {}
    for ch, tbs in tested.items():
        for tb in tbs:
            # what THIS step of the loop produces for the character (a step that only notes the backslash produces nothing)
            for p_ in AbsInt(F, dec, {}, stop_blocks={h_ for h_, bd_ in dec.natural_loops()}, max_paths=64, loop_bound=1).run(tb):
                psh = [c_ for c_ in p_.calls if c_[1].endswith('String::push') and len(c_[2]) == 2]
                if psh:
                    v_ = uncast(psh[0][2][1])
                    produced.setdefault(ch, set()).add(chr(v_[1]) if v_[0] == 'int' else 'same')
    wantp = {'n': {'\n'}, 't': {'\t'}}
    okm = all(produced.get(k) == v for k, v in wantp.items()) and all(produced.get(k, {'same'}) <= {k, 'same'} for k in ('"', '\\'))
    rep.ob(okm, 'R08.5', 'parser::Parser::parse_string_expression', 'escape values', 'after a backslash: n gives a line feed, t a tab, quote and backslash themselves: %s' % {k: sorted(v) for k, v in produced.items()}, dloc)
    # a backslash must take the following character out of the normal path: either it is fetched in the same step (a second
    # next() in the loop) or a flag set on the backslash routes it (set true and false inside the loop)
    loop_blocks = set().union(*[set(bd) for h, bd in dec.natural_loops()]) if nloops else set()
    nexts = [b for b, t_ in dec.calls(loop_blocks) if callee_name(t_).endswith(('Iterator>::next', 'Iterator::next'))] if loop_blocks else []
    flag_sets = {}
    enum_sets = {}
    for b in loop_blocks:
        for st_ in dec.blocks[b]['stmts']:
            if st_['k'] == 'assign' and not st_['place']['proj'] and st_['rv']['k'] == 'use' and st_['rv']['op'].get('k') == 'const' and st_['rv']['op'].get('ty') == 'bool':
                flag_sets.setdefault(st_['place']['local'], set()).add(st_['rv']['op'].get('int'))
            # ... the flag as a two-state enum (`state = State::Backslash` / `state = State::Text`)
            if st_['k'] == 'assign' and not st_['place']['proj']:
                rv_ = st_['rv']
                var_ = None
                if rv_['k'] == 'aggregate' and rv_.get('variant') and not rv_.get('ops') and rv_.get('adt') in F.adts:
                    var_ = rv_['variant']
                elif rv_['k'] == 'use' and rv_['op'].get('k') == 'const' and rv_['op'].get('variant') and rv_['op'].get('ty') in F.adts:
                    var_ = rv_['op']['variant']
                if var_ is not None:
                    enum_sets.setdefault(st_['place']['local'], set()).add(var_)
    # an enum-valued state counts when the variable is one that is carried around the loop (read again in a later turn)
    single_consume = len(nexts) >= 2 or any(v == {0, 1} for v in flag_sets.values()) or any(len(v) >= 2 for v in enum_sets.values())
    rep.ob(single_consume, 'R08.5', 'parser::Parser::parse_string_expression', 'escape consumes next char',
           'handling a backslash takes the following character out of the normal path (second next() in the step, or a pending flag)', dloc)

    # ---- R08.6 sentinel ------------------------------------------------------------------------
    from rules import trm
    sentinel = trm.sentinel_token(F)
    produced = set()
    lexnext = F.fn("<lexer::Tokenizer<'a> as core::iter::traits::iterator::Iterator>::next")
    for b, si, st in lexnext.stmts():
        if st['k'] == 'assign' and st['rv']['k'] == 'aggregate' and st['rv'].get('adt') == tables.TOKEN:
            produced.add(st['rv']['variant'])
    conv = F.fn("<lexer::Token<'a> as core::convert::From<&'a str>>::from")
    for b, si, st in conv.stmts():
        if st['k'] == 'assign' and st['rv']['k'] == 'aggregate' and st['rv'].get('adt') == tables.TOKEN:
            produced.add(st['rv']['variant'])
    rep.table('lexer_produces', sorted(produced))
    rep.ob(sentinel not in produced, 'R08.6', 'parser::Parser::advance', 'sentinel Token::%s' % sentinel,
           'the token the parser substitutes for end of input must not be producible by the lexer on real input '
           '(otherwise text after an illegal character is silently dropped)', 'src/parser.rs')
    ok, why = float_token_shape_ok(ctx)
    rep.ob(ok, 'R08.6', fnp, 'numeric token shape', why, loc)

    # ---- R08.9 the stream ends only where the text ends ------------------------------------------
    rep.rule('R08.9', 'the token stream ends only at the end of the text: next() answers None only when everything it consumed was whitespace or a comment')
    check_stream_end(ctx, rep, 'R08.9', lf)
    rep.rule('R08.10', 'the program ends only where the tokens end: parse() answers Ok only after it found the end-of-input token (a stray `}` or any other token is not the end of the program)')
    check_program_end(ctx, rep, 'R08.10')
    rep.rule('R08.11', 'what a literal denotes is decided by its token alone: no branch of the parser (the decoding of a string literal included) depends on state of the tokenizer - a flag, a position - that has moved on to the next token by the time the parser looks')
    from rules import c07 as _c07
    _c07.check_tokens_only(ctx, rep, 'R08.11')
    rep.rule('R08.12', 'a literal is decoded character by character: no single byte of the text is turned into a character unless it was tested to be ASCII')
    from rules import c13 as _c13
    _c13.check_no_byte_chars(ctx, rep, 'R08.12')

    # ---- R08.7 skipping ------------------------------------------------------------------------
    rep.ob(set(PATTERN_WHITE_SPACE) <= set(lf['skipped']), 'R08.7', fnp, 'whitespace arm', 'whitespace restarts the scan without a token', loc)
    cmt = lf['comment']
    rep.ob(cmt['skip'] and cmt['slash'] and cmt['pred'] is True, 'R08.7', fnp, 'comment arm', '`//` skips to (not past) the line feed and restarts; a single `/` is Slash', loc)
    # cross-check with MIR: number of Tokenizer::bump call sites in next()
    nb = sum(1 for b, t in lexnext.own_calls() if callee_name(t) == "lexer::Tokenizer::<'a>::bump")
    sb = len(find_all(nxt['body'], lambda n: n.get('k') == 'mcall' and n['method'] == 'bump' and path_of(n['recv']) == ['self']))
    if nb != sb:
        raise CheckerError('cross-check failed: %d bump() sites in the syntax tree of next(), %d in MIR' % (sb, nb))
    rep.count('bump_sites', nb)


def eval_delta(e, escaped, ch, lets=None):
    lets = lets or {}
    """evaluate the right-hand side of `escaped = <expr>` for a flag value and the character just consumed.
    Recognised vocabulary: self.bump() (the consumed char), Some('..'), ==, !=, &&, ||, !, escaped, literals."""
    k = e.get('k')
    if k == 'binary':
        op = e['op']
        if op in ('&&', '||'):
            l = eval_delta(e['l'], escaped, ch, lets)
            r = eval_delta(e['r'], escaped, ch, lets)
            if l is None or r is None:
                return None
            return (l and r) if op == '&&' else (l or r)
        if op in ('==', '!='):
            l = eval_delta(e['l'], escaped, ch, lets)
            r = eval_delta(e['r'], escaped, ch, lets)
            if l is None or r is None:
                return None
            return (l == r) if op == '==' else (l != r)
        return None
    if k == 'unary' and e['op'] == '!':
        v = eval_delta(e['expr'], escaped, ch, lets)
        return None if v is None else (not v)
    if k == 'path' and e['path'] == ['escaped']:
        return escaped
    if k == 'mcall' and e['method'] == 'bump':
        return ('some', ch)
    if k == 'call' and path_of(e['func']) == ['Some'] and len(e['args']) == 1:
        v = eval_delta(e['args'][0], escaped, ch, lets)
        return ('some', v)
    if k == 'lit' and e.get('lit') == 'char':
        return e['value']
    if k == 'lit' and e.get('lit') == 'bool':
        return e['value']
    if k == 'path' and len(e['path']) == 1 and e['path'][0] in lets:
        return eval_delta(lets[e['path'][0]], escaped, ch, lets)
    if k == 'path' and e['path'] == ['c']:
        return ch
    if k == 'macro' and e['name'] == 'matches' and e.get('scrutinee'):
        s_ = eval_delta(e['scrutinee'], escaped, ch, lets)
        p = e['pat']
        if p['k'] == 'p_tuple_struct' and p['path'] == ['Some'] and p['elems'][0]['k'] == 'p_lit':
            return s_ == ('some', p['elems'][0]['lit']['value'])
        return None
    return None


def closure_table(F, cname, chars, flags=(0, 1), captured=None):
    """{(char, flag): (result, captured bool after the call)} of a scan predicate closure |c, esc| -> bool, by constant
    propagation through its MIR; `captured` = initial value of the (single) variable it captures by reference, if any"""
    g = F.fns.get(cname)
    out = {}
    if g is None:
        return None
    for ch in chars:
        for fl in flags:
            for cap in ((None,) if captured is None else captured):
                env = {'_2': ('int', ord(ch), 'char'), '_3': ('int', fl, 'bool')}
                if cap is not None:
                    env['_1.*.f0'] = ('ref', '$cap')
                    env['$cap'] = ('int', cap, 'bool')
                ps = AbsInt(F, g, env, max_paths=8, decide_call=lambda n, a, t_: tables.char_pred(n, a, t_) or (tables.eval_pure(F, n, a) if n in F.fns else None)).run()
                rets = [(p.env.get('_0'), p.env.get('$cap')) for p in ps if p.exit == 'return']
                if len(ps) == 1 and len(rets) == 1 and rets[0][0] and rets[0][0][0] == 'int':
                    after = rets[0][1][1] if rets[0][1] and rets[0][1][0] == 'int' else None
                    out[(ch, fl) if cap is None else (ch, fl, cap)] = (rets[0][0][1], after)
                else:
                    out[(ch, fl) if cap is None else (ch, fl, cap)] = (None, None)
    return out


def scan_paths(ctx, c1, c2):
    """the paths of Tokenizer::next on input c1 c2.. (constant first two characters), with the closures handed to skip_while"""
    F = ctx.facts()
    fn, ps, model, trunc = tables.lex_run(F, [c1, c2])
    return fn, ps, model.closures


def skip_while_delta(ctx):
    """{(escaped, char): escaped'} — the update of the escape flag over one iteration of Tokenizer::skip_while, by constant
    propagation through the loop body (the flag is the bool handed to the predicate together with the character)"""
    F = ctx.facts()
    T = tables.TOK
    fn = F.fn(T + 'skip_while')
    loops = fn.natural_loops()
    if len(loops) != 1:
        return None, 'skip_while: expected one loop, found %d' % len(loops)
    header, body = loops[0]
    flag = None
    for b, t_ in fn.calls(body):
        n = callee_name(t_)
        if n.endswith(('FnMut<Args>>::call_mut', 'FnMut::call_mut', 'FnOnce::call_once', 'Fn::call')) and len(t_['args']) == 2:
            tv = sym(fn, t_['args'][1])
            if tv[0] == 'tuple' and len(tv[1]) == 2 and strip(tv[1][1])[0] == 'mlocal':
                flag = strip(tv[1][1])[1]
    if flag is None:
        return None, 'skip_while: the predicate call (char, flag) was not found'
    table = {}
    for esc in (0, 1):
        for ch in ('\\', 'x'):
            def decide(name, argvals, t_, ch=ch):
                if name in (T + 'peek', T + 'bump'):
                    return ('agg', 'core::option::Option', 'Some', (('int', ord(ch), 'char'),))
                if name == T + 'is_eof':
                    return ('int', 0, 'bool')
                if name.endswith(('call_mut', 'call_once', '::call')):
                    return ('int', 1, 'bool')
                return tables.char_pred(name, argvals, t_)
            ps = AbsInt(F, fn, {'_%d' % flag: ('int', esc, 'bool')}, stop_blocks={header}, decide_call=decide, max_paths=16).run(header)
            backs = [p for p in ps if p.exit == 'stop']
            vals = {p.env.get('_%d' % flag) for p in backs}
            v = next(iter(vals)) if len(vals) == 1 else None
            table[(bool(esc), ch)] = bool(v[1]) if v and v[0] == 'int' else None
    return table, ''


def skip_while_step(ctx):
    """{(eof, escaped, predicate answer): (what one turn of skip_while's loop does, characters consumed, predicate asked)} by
    constant propagation; the scan rules (comment, string, number, identifier) read the closures handed to skip_while on the
    assumption that it consumes a character exactly when the predicate accepts it"""
    F = ctx.facts()
    T = tables.TOK
    fn = F.fn(T + 'skip_while')
    loops = fn.natural_loops()
    if len(loops) != 1:
        return None
    header, body = loops[0]
    table, _ = skip_while_delta(ctx)
    flag = None
    for b, t_ in fn.calls(body):
        n = callee_name(t_)
        if n.endswith(('FnMut<Args>>::call_mut', 'FnMut::call_mut', 'FnOnce::call_once', 'Fn::call')) and len(t_['args']) == 2:
            tv = sym(fn, t_['args'][1])
            if tv[0] == 'tuple' and len(tv[1]) == 2 and strip(tv[1][1])[0] == 'mlocal':
                flag = strip(tv[1][1])[1]
    if flag is None:
        return None
    out = {}
    for eof in (0, 1):
        for esc in (0, 1):
            for pr in (0, 1):
                def decide(name, argvals, t_, eof=eof, pr=pr):
                    if name in (T + 'peek', T + 'bump'):
                        return ('agg', 'core::option::Option', 'None', ()) if eof else ('agg', 'core::option::Option', 'Some', (('int', ord('x'), 'char'),))
                    if name == T + 'is_eof':
                        return ('int', eof, 'bool')
                    if name.endswith(('call_mut', 'call_once', '::call')):
                        return ('int', pr, 'bool')
                    return tables.char_pred(name, argvals, t_)
                ai = AbsInt(F, fn, {'_%d' % flag: ('int', esc, 'bool')}, stop_blocks={header}, decide_call=decide, max_paths=16)
                ps = ai.run(header)
                res = set()
                for p in ps:
                    names = [c[1] for c in p.calls]
                    asked = any(n.endswith(('call_mut', 'call_once', '::call')) for n in names)
                    res.add(('again' if p.exit == 'stop' else p.exit, names.count(T + 'bump'), asked))
                out[(eof, esc, pr)] = sorted(res) if not ai.truncated else None
    return out


def _skips_first(F, ps, model):
    """does every path of next() on this input drop the first character without making a token of it: the scan restarts
    (recursive next() after exactly that one character) or goes on to lex the `a` that follows as the start of a word"""
    T = tables.TOK
    if not ps:
        return None
    kinds = set()
    for p in ps:
        r = p.env.get('_0')
        names = [c[1] for c in p.calls]
        # (the scan that reads the word is the LAST one: a run-of-blanks scan before it stops at the `a` without consuming it)
        last_scan = max((i for i, n_ in enumerate(names) if n_ == T + 'skip_while'), default=None)
        nb_before_scan = names[:last_scan].count(T + 'bump') if last_scan is not None else None
        if p.exit == 'return' and r and r[0] == 'call' and r[1] == tables.LEXNEXT and (T + 'skip_while') not in names and names.count(T + 'bump') == 1:
            kinds.add('skip')
        elif p.exit == 'return' and nb_before_scan == 2 and r and r[0] == 'agg' and r[2] == 'Some':
            kinds.add('skip')       # the word starting at the second character
        else:
            kinds.add('other')
    return True if kinds == {'skip'} else (False if 'skip' not in kinds else None)


def _len_of_field(p, v, name, self_field):
    v = uncast(v)
    if not (v[0] == 'call' and v[1].endswith('::len') and v[2]):
        return False
    a = v[2][0]
    a = p.env.get(a[1][:-2], a) if a[0] == 'ref' and a[1].endswith('.*') else a
    return self_field(a, name)


def _len_of_rest(p, v, self_field):
    v = uncast(v)
    if not (v[0] == 'call' and v[1].endswith('::len') and v[2]):
        return False
    a = v[2][0]
    a = p.env.get(a[1][:-2], p.env.get(a[1], a)) if a[0] == 'ref' else a
    return a[0] == 'call' and 'Chars' in a[1] and a[1].endswith('::as_str') and self_field(a[2][0], 'chars')


def check_lexer_primitives(ctx, rep, rule):
    """the table extraction treats peek / bump / offset / is_eof as *the next character / consume it / the byte position /
    nothing left*; these contracts are read from their MIR (the same way CSA's emit primitives are, R02.8)"""
    F = ctx.facts()
    T = tables.TOK
    tk = F.adt('lexer::Tokenizer')
    fields = [f['name'] for f in tk['variants'][0]['fields']]
    fi = {n: i for i, n in enumerate(fields)}

    def self_field(v, name):
        v = uncast(v)
        return name in fi and v in (('ref', '_1.*.f%d' % fi[name]), ('field', ('deref', ('local', 1)), name))

    # the byte counter, whatever it is called: the one field of the tokenizer that is a usize
    usz = [f['name'] for f in tk['variants'][0]['fields'] if f['ty'].replace(' ', '') == 'usize']
    POS = 'pos' if 'pos' in fi else (usz[0] if len(usz) == 1 else 'pos')
    stored_pos = POS in fi
    # two representations of `how far are we`: a byte counter kept by bump (pos), or none at all - the position is then the part
    # of `input` the character iterator no longer covers (input.len() - chars.as_str().len())
    # peek: a clone of the character iterator is advanced, self is not written
    fn = F.fn(T + 'peek')
    ps = [p for p in AbsInt(F, fn).run() if p.exit == 'return']
    ok = len(ps) == 1
    if ok:
        p = ps[0]
        names = [c[1] for c in p.calls if c[1] != 'drop']
        cl = [c for c in p.calls if c[1].endswith('Clone>::clone') or c[1].endswith('::clone')]
        nx = [c for c in p.calls if c[1].endswith(('Iterator>::next', 'Iterator::next'))]
        r = p.env.get('_0')
        ok = len(cl) == 1 and self_field(cl[0][2][0], 'chars') and len(nx) == 1 and r == ('call', nx[0][1], nx[0][2], nx[0][0]) and \
            'Chars' in nx[0][1] and not [w for w in p.writes if w[1].startswith('_1.*')] and len(names) == 2
        if ok:
            a = nx[0][2][0]
            ok = a[0] == 'ref' and p.env.get(a[1]) == ('call', cl[0][1], cl[0][2], cl[0][0])
    rep.ob(ok, rule, fn.path, 'contract', 'peek() = the next character of a clone of the character iterator (whole characters, nothing consumed)', fn.loc())
    # bump: chars.next(); on Some(c) pos += c.len_utf8(); returns that character
    fn = F.fn(T + 'bump')
    ps = [p for p in AbsInt(F, fn).run() if p.exit == 'return']
    somes = 0
    ok = bool(ps)
    for p in ps:
        nx = [c for c in p.calls if c[1].endswith(('Iterator>::next', 'Iterator::next')) and 'Chars' in c[1]]
        if len(nx) != 1 or not self_field(nx[0][2][0], 'chars'):
            ok = False
            continue
        r = simp(p.env.get('_0'))
        posw = [w for w in p.writes if w[1] == '_1.*.f%d' % fi.get(POS, -1)]
        if not stored_pos:
            # no counter to keep: bump is exactly the iterator's next()
            somes += 1
            ok = ok and p.env.get('_0') == ('call', nx[0][1], nx[0][2], nx[0][0]) and not [w for w in p.writes if w[1].startswith('_1.*')]
            continue
        if r and r[0] == 'agg' and r[2] == 'Some':
            somes += 1
            c = r[3][0]
            got = c[0] == 'okval' and c[1] == ('call', nx[0][1], nx[0][2], nx[0][0])
            adv = False
            if len(posw) == 1:
                v = uncast(posw[0][2])
                if v[0] == 'field' and v[1][0] == 'binop':
                    v = v[1]
                s_ = show(v)
                adv = v[0] == 'binop' and v[1] in ('Add', 'AddWithOverflow') and 'len_utf8' in s_ and ('.' + POS) in s_
            ok = ok and got and adv and len([w for w in p.writes if w[1].startswith('_1.*')]) == 1
        else:
            ok = ok and not posw
    rep.ob(ok and somes >= 1, rule, fn.path, 'contract', 'bump() = the next character of the iterator itself, with pos advanced by its UTF-8 length', fn.loc())
    # offset: the byte position
    fn = F.fn(T + 'offset')
    ps = [p for p in AbsInt(F, fn).run() if p.exit == 'return']
    if stored_pos:
        ok = len(ps) == 1 and not ps[0].calls and uncast(ps[0].env.get('_0')) == ('field', ('deref', ('local', 1)), POS)
    else:
        ok = len(ps) == 1
        if ok:
            r = uncast(ps[0].env.get('_0'))
            if r[0] == 'field' and r[2] == '0' and r[1][0] == 'binop' and r[1][1] == 'SubWithOverflow':
                r = ('binop', 'Sub', r[1][2], r[1][3])
            ok = r[0] == 'binop' and r[1] == 'Sub' and _len_of_field(ps[0], r[2], 'input', self_field) and _len_of_rest(ps[0], r[3], self_field)
    rep.ob(ok, rule, fn.path, 'contract', 'offset() = pos' if stored_pos else 'offset() = input.len() - (what the character iterator still covers).len()', fn.loc())
    # is_eof (when the lexer has it): offset() >= input.len()
    if (T + 'is_eof') in F.fns:
        fn = F.fn(T + 'is_eof')
        ps = [p for p in AbsInt(F, fn).run() if p.exit == 'return']
        ok = len(ps) == 1
        if ok:
            r = uncast(ps[0].env.get('_0'))
            if r[0] == 'call' and r[1].endswith('::is_empty') and r[2]:
                # nothing left in the character iterator
                a_ = r[2][0]
                a_ = ps[0].env.get(a_[1][:-2], ps[0].env.get(a_[1], a_)) if a_[0] == 'ref' else a_
                ok = a_[0] == 'call' and 'Chars' in a_[1] and a_[1].endswith('::as_str') and self_field(a_[2][0], 'chars')
                rep.ob(ok, rule, fn.path, 'contract', 'is_eof() = chars.as_str().is_empty()', fn.loc())
                ok = None
            else:
                ok = r[0] == 'binop' and r[1] in ('Ge', 'Eq') and ('offset(' in show(r[2]) or ('.' + POS) in show(r[2]))
            if ok:
                ln = uncast(r[3])
                ok = ln[0] == 'call' and ln[1].endswith('::len') and bool(ln[2])
                if ok:
                    a = ln[2][0]
                    a = ps[0].env.get(a[1][:-2], a) if a[0] == 'ref' and a[1].endswith('.*') else a
                    ok = self_field(a, 'input')
        if ok is not None:
            rep.ob(ok, rule, fn.path, 'contract', 'is_eof() = offset() >= input.len()', fn.loc())
    # the character iterator is the input's own: Tokenizer::new builds chars from the same text it stores
    fn = F.fn('lexer::Tokenizer::<\'_>::new') if 'lexer::Tokenizer::<\'_>::new' in F.fns else next((f for f in F.all_fns if f.path.startswith('lexer::Tokenizer') and f.path.endswith('::new')), None)
    ok = False
    if fn is not None:
        for p in AbsInt(F, fn).run():
            r = p.env.get('_0')
            if p.exit == 'return' and r and r[0] == 'agg' and len(r[3]) == len(fields):
                vals = dict(zip(fields, r[3]))
                ch = vals.get('chars')
                is_in = lambda x: uncast(x) in (('local', 1), ('ref', '_1.*'))
                ok = vals.get(POS, ('int', 0, 'usize')) == ('int', 0, 'usize') and is_in(vals.get('input')) and ch[0] == 'call' and ch[1].endswith('::chars') and is_in(ch[2][0])
    rep.ob(ok, rule, 'lexer::Tokenizer::new', 'contract', 'a tokenizer starts at position 0 with the character iterator of the text it stores', fn.loc() if fn else 'src/lexer.rs')


def layout_facts(ctx):
    """which characters the lexer skips as whitespace, and what the comment scan does — by constant propagation through the MIR
    of Tokenizer::next for every code point below U+3001 (+ a few beyond), independent of how the tests are written"""
    def build():
        F = ctx.facts()
        cps = [c for c in range(0, 0x3001)] + [0xFEFF, 0x1680, 0x180E, 0x202F, 0x205F, 0xE000, 0x10000, 0x1F600]
        skipped = []
        undecided = []
        for cp in cps:
            if 0xD800 <= cp <= 0xDFFF:
                continue
            fn, ps, model, trunc = tables.lex_run(F, [chr(cp), 'a'], max_paths=16)
            v = None if trunc else _skips_first(F, ps, model)
            if v is True:
                skipped.append(cp)
            elif v is None:
                undecided.append(cp)
        # the comment scan: the closure handed to skip_while after `//`; a `/` followed by anything else is Slash
        comment = {'skip': False, 'slash': False, 'pred': None}
        fn, ps, model, trunc = tables.lex_run(F, ['/', '/', 'x'])
        T = tables.TOK
        outs = set()
        for p in ps:
            r = p.env.get('_0')
            names = [c[1] for c in p.calls]
            tok_from_slashes = p.exit == 'return' and r and r[0] == 'agg' and r[2] == 'Some'
            outs.add(((T + 'skip_while') in names, bool(tok_from_slashes)))
        comment['skip'] = bool(ps) and not trunc and outs == {(True, False)}
        O = tables.lexer_outcomes(ctx)
        comment['slash'] = all(len(O[('/', c2)]) == 1 and O[('/', c2)][0][0] == 'Slash' and O[('/', c2)][0][1] == 1 for c2 in [k[1] for k in O if k[0] == '/' and k[1] != '/'])
        clos = model.closures
        if len(set(clos)) == 1:
            cn = clos[0]
            verdicts = {}
            for ch in ['\n', '\r', ' ', 'a', '/', '"', '\\', '\t', '\u2028', '0']:
                for esc in (0, 1):
                    v = tables.eval_pure(F, cn, [('int', 0, 'env'), ('int', ord(ch), 'char'), ('int', esc, 'bool')])
                    verdicts[(ch, esc)] = v[1] if v else None
            comment['pred'] = all(verdicts[(ch, esc)] == (0 if ch == '\n' else 1) for (ch, esc) in verdicts)
            comment['pred_table'] = {'%r,%d' % k: v for k, v in verdicts.items()}
        return {'skipped': skipped, 'undecided': undecided, 'comment': comment, 'n': len(cps)}
    return tables._memo(ctx, 'layout_facts', build)


def check_layout(ctx, rep, rule):
    """the lexer skips exactly the 11 Pattern_White_Space code points; `//` skips to the line feed; both restart the scan"""
    lf = layout_facts(ctx)
    loc = 'src/lexer.rs'
    rep.ob(lf['skipped'] == PATTERN_WHITE_SPACE and not lf['undecided'], rule, 'lexer::is_whitespace', 'whitespace table',
           'of %d code points examined the lexer skips exactly the 11 Pattern_White_Space ones: skipped %s%s' % (
               lf['n'], [hex(c) for c in lf['skipped']][:14], (', undecided %s' % [hex(c) for c in lf['undecided']][:5]) if lf['undecided'] else ''), loc)
    rep.ob(set(PATTERN_WHITE_SPACE) <= set(lf['skipped']), rule, 'lexer::Tokenizer::next', 'whitespace arm', 'whitespace restarts the scan without producing a token', loc)
    st = skip_while_step(ctx)
    want = {}
    for esc in (0, 1):
        want[(1, esc, 0)] = want[(1, esc, 1)] = 'ends'
        want[(0, esc, 1)] = 'takes one'
        want[(0, esc, 0)] = 'ends'
    bad = []
    for k, w in sorted(want.items()):
        got = (st or {}).get(k)
        if not got or len(got) != 1:
            bad.append('%s: %s' % (k, got))
            continue
        kind, nb, asked = got[0]
        if w == 'takes one':
            ok_ = kind == 'again' and nb == 1 and asked
        else:
            ok_ = kind == 'return' and nb == 0 and (asked or k[0] == 1)
        if not ok_:
            bad.append('at end=%d flag=%d predicate=%d: %s, %d consumed, predicate %s' % (k[0], k[1], k[2], kind, nb, 'asked' if asked else 'not asked'))
    rep.ob(not bad, rule, 'lexer::Tokenizer::skip_while', 'scan step', 'a scan consumes a character exactly when there is one and the predicate accepts it (flag value irrelevant): %s' % (bad[:3] or 'all 8 cases'), loc)
    c = lf['comment']
    rep.ob(c['skip'] and c['slash'] and c['pred'] is True, rule, 'lexer::Tokenizer::next', 'comment arm',
           '`//` skips exactly to the next line feed (predicate true for every character but the line feed, with or without the escape flag: %s) and restarts; a single `/` is Slash (%s)' % (c['pred'], c['slash']), loc)
