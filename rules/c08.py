"""C08 — tokenisation and literals are faithful to the text (lexer/parser table rules, E2 + E1)."""
import re
from mirlib import *
from synlib import *
from rules import tables
from rules.psc import sym, strip

META = {
    'title': 'Tokenisation and literals are faithful to the text',
    'explanation': 'Structural clauses read off the syntax tree of the lexer and of parse_string_expression, cross-checked with MIR: '
                   'two-character operators are tested before their prefixes and consume exactly two characters (set of tokens '
                   'returned under a peek test = set of tokens that get the extra bump), the keyword table is the documented one and '
                   'is applied to the whole identifier slice, identifier/whitespace classes, token text is sliced only at offsets '
                   'produced by bump(), the escape flag of the string scanner has parity (4-cell truth table), the decoder is a single '
                   'left-to-right pass over the same escape set, and the end-of-input sentinel is not a token the lexer can produce.',
    'not_decided': ['token-stream equality for all inputs as an input-output relation', "Unicode classification (char::is_alphabetic) is std's"],
}

KEYWORDS = ['als', 'anders', 'antwoord', 'functie', 'zolang', 'stel', 'ja', 'nee', 'stop', 'volgende']
TWO_CHAR = ['==', '!=', '<=', '>=', '&&', '||']
ESCAPES = {'"': '"', '\\': '\\', 'n': '\n', 't': '\t'}
PATTERN_WHITE_SPACE = [0x09, 0x0A, 0x0B, 0x0C, 0x0D, 0x20, 0x85, 0x200E, 0x200F, 0x2028, 0x2029]
LEX = 'src/lexer.rs'


def pred_atoms(e):
    """boolean combination -> ('or'|'and'|'not'|'atom', ...) with atoms rendered"""
    k = e.get('k')
    if k == 'binary' and e['op'] in ('||', '&&'):
        return ('or' if e['op'] == '||' else 'and', pred_atoms(e['l']), pred_atoms(e['r']))
    if k == 'unary' and e['op'] == '!':
        return ('not', pred_atoms(e['expr']))
    return ('atom', render(e))


def flatten(p, op):
    if p[0] == op:
        return flatten(p[1], op) + flatten(p[2], op)
    return [p]


def slice_boundaries_ok(ctx):
    """R08.3 as a predicate (used by PSC-D3)"""
    F = ctx.facts()
    T = "lexer::Tokenizer::<'a>::"
    writers = set()
    for f in F.all_fns:
        for b, si, st in f.stmts():
            if st['k'] == 'assign' and place_fields(st['place'])[:1] == ['pos'] and any(
                    isinstance(e, dict) and e.get('of') == 'lexer::Tokenizer' for e in st['place']['proj']):
                writers.add(f.path)
    ok_w = writers <= {T + 'bump', T + 'new'}
    # bump: pos += len_utf8(c) with c the char just taken from chars
    bump = F.fn(T + 'bump')
    okb = False
    for b, si, st in bump.stmts():
        if st['k'] == 'assign' and place_fields(st['place'])[:1] == ['pos']:
            v = sym(bump, st['rv']['op']) if st['rv']['k'] == 'use' else None
            s_ = str(v)
            okb = 'len_utf8' in s_ and 'Add' in s_
    # read_str arguments
    bad = []
    for f, b, t in F.callers_of(lambda p: p == T + 'read_str'):
        for a in t['args'][1:]:
            v = strip(sym(f, a))
            s_ = str(v)
            form_ok = False
            if v[0] == 'call' and v[1] == T + 'offset':
                form_ok = True
            elif v[0] == 'binop' and v[1] in ('Add', 'Sub') and strip(v[3]) == ('int', 1) and strip(v[2])[0] in ('call', 'mlocal') and ('offset' in s_ or True):
                form_ok = 'offset' in s_ or strip(v[2])[0] == 'mlocal'
            elif v[0] == 'mlocal' or v[0] == 'param':
                # `start`: a value of offset() saved earlier
                ds = f.defs().get(v[1], []) if v[0] == 'mlocal' else []
                form_ok = True
                for d in ds:
                    if d[0] == 'call' and callee_name(d[2]) != T + 'offset':
                        form_ok = False
            if not form_ok:
                bad.append('%s arg %s' % (f.path, s_[:60]))
    ok = ok_w and okb and not bad
    why = 'Tokenizer.pos is written only by new/bump (+= len_utf8 of the consumed char); read_str is called with offset() values (±1 around the one-byte quote)'
    if not ok:
        why = 'writers of pos: %s; bump adds len_utf8: %s; read_str arguments not derived from offset(): %s' % (sorted(writers), okb, bad)
    return ok, why


def numeric_arm(ctx):
    lt = tables.lexer_table(ctx)
    for a in lt['arms']:
        if a['kind'] == 'range' and a.get('range') == ('0', '9'):
            return a
    return None


def float_token_shape_ok(ctx):
    """the Float token is [0-9]+ '.' [0-9]* (accepted by f64::from_str): digits, and at most one '.' guarded by a flag"""
    a = numeric_arm(ctx)
    if a is None:
        return False, 'numeric arm of the lexer not found'
    cl = find_all(a['body'], lambda n: n.get('k') == 'closure')
    if len(cl) != 1:
        return False, 'numeric arm: expected one skip_while predicate'
    body = cl[0]['body']
    txt = render_tree(body)
    digits = bool(find_all(body, lambda n: n.get('k') == 'mcall' and n['method'] == 'is_ascii_digit'))
    dot = find_all(body, lambda n: n.get('k') == 'binary' and n['op'] == '&&' and 'decimal' in render(n) and "'.'" in render(n) and '!' in render(n))
    sets = find_all(body, lambda n: n.get('k') == 'assign' and render(n['l']) == 'decimal' and n['r'].get('value') is True)
    rets = find_all(body, lambda n: n.get('k') == 'return')
    ok = digits and len(dot) == 1 and len(sets) == 1
    return ok, 'number scan accepts ASCII digits and one `.` (flag `decimal` set once): digits=%s dot-guard=%d flag-sets=%d' % (digits, len(dot), len(sets))


def render_tree(e):
    return render(e)


def run(ctx, rep):
    F = ctx.facts()
    S = ctx.syn()
    lt = tables.lexer_table(ctx)
    rep.rule('R08.1', 'maximal munch: two-character operators are tested first and consume exactly two characters')
    rep.rule('R08.2', 'keyword table is the documented one, applied to whole identifiers; identifier/whitespace/comment classes')
    rep.rule('R08.3', 'token text is always a slice between character boundaries')
    rep.rule('R08.4', 'the escape flag of the string scanner has parity')
    rep.rule('R08.5', 'string literals are decoded in one left-to-right pass over the escape set \\" \\\\ \\n \\t')
    rep.rule('R08.6', 'end of input and an illegal character are distinguishable; numeric token shapes')
    rep.rule('R08.7', 'whitespace and comments are skipped and never produce a token')
    nxt = lt['fn']
    loc = 'src/lexer.rs:%d' % nxt['line']
    fnp = 'lexer::Tokenizer::next'
    rep.count('lexer_arms', len(lt['arms']))

    # ---- R08.1 -------------------------------------------------------------------------------
    A = {}
    for a in lt['arms']:
        for lx, tok, first in a['outcomes']:
            if len(lx) == 2 and tok not in ('<skip>', '<complex>'):
                A[lx] = (tok, first)
    B = lt['extra_bump'] or set()
    rep.table('two_char_tokens', {k: v[0] for k, v in A.items()})
    rep.table('extra_bump', sorted(B))
    for lx in TWO_CHAR:
        tok = A.get(lx, (None, None))[0]
        rep.ob(tok is not None and A[lx][1], 'R08.1', fnp, 'lexeme %s' % lx, 'recognised under a peek test placed before the one-character alternative (token %s)' % tok, loc)
        rep.ob(tok in B, 'R08.1', fnp, 'second character of %s' % lx, 'token %s is in the set that consumes the second character' % tok, loc)
    for lx, (tok, _) in A.items():
        rep.ob(lx in TWO_CHAR, 'R08.1', fnp, 'lexeme %s' % lx, 'only the documented two-character operators are munched', loc)
    for tok in sorted(B):
        rep.ob(tok in {v[0] for v in A.values()}, 'R08.1', fnp, 'extra bump for %s' % tok, 'only tokens recognised from two characters consume a second character', loc)
    # one-character prefixes still exist
    for lx in ('=', '!', '<', '>'):
        rep.ob(lx in lt['table'], 'R08.1', fnp, 'lexeme %s' % lx, 'the one-character form is still produced (%s)' % lt['table'].get(lx), loc)
    # docs of Token variants agree with the lexer table
    en = S.enum(LEX, 'Token')
    docs = {}
    for v in en['variants']:
        for d in v['docs']:
            m = re.match(r'^\s*"(.+)"\s*$', d)
            if m:
                docs[v['name']] = m.group(1)
    mism = [(lx, t, docs.get(t)) for lx, t in lt['table'].items() if t in docs and len(lx) <= 2 and docs[t] != lx and not t.endswith('(..)')]
    rep.ob(not mism, 'R08.1', 'lexer::Token', 'variant docs vs lexer arms', 'operator tokens are produced for the lexeme their documentation names: %s' % mism, 'src/lexer.rs:%d' % en['line'])

    # ---- R08.2 keywords --------------------------------------------------------------------------
    kt = tables.keyword_table(ctx)
    kw = kt['keywords']
    readme = ctx.readme()
    rep.table('keywords', kw)
    for k in KEYWORDS:
        rep.ob(k in kw, 'R08.2', 'lexer::Token::from', 'keyword %s' % k, 'documented keyword maps to a keyword token (%s)' % kw.get(k), 'src/lexer.rs:%d' % kt['line'])
        if not re.search(r'(?<![\w])%s(?![\w])' % re.escape(k), readme):
            rep.note('keyword %s does not occur in README.md (oracle = property statement)' % k)
    for k in kw:
        rep.ob(k in KEYWORDS, 'R08.2', 'lexer::Token::from', 'keyword %s' % k, 'only documented words are keywords', 'src/lexer.rs:%d' % kt['line'])
    rep.ob(len(set(kw.values())) == len(kw), 'R08.2', 'lexer::Token::from', 'distinct tokens', 'every keyword has its own token', 'src/lexer.rs:%d' % kt['line'])
    rep.ob(kt['default'] is not None and kt['default'].startswith('Identifier('), 'R08.2', 'lexer::Token::from', 'default', 'every other word is an identifier: %s' % kt['default'], 'src/lexer.rs:%d' % kt['line'])
    # identifier arm: class + whole-word conversion
    ident = [a for a in lt['arms'] if a['kind'] == 'class' and 'is_alphabetic' in (a['guard'] or '')]
    ok = len(ident) == 1
    if ok:
        a = ident[0]
        g = pred_atoms(a['class_guard'])
        atoms = sorted(x[1] for x in flatten(g, 'or'))
        start_ok = atoms == sorted(["c.is_alphabetic()", "c == '_'"])
        cl = find_all(a['body'], lambda n: n.get('k') == 'closure')
        cont_ok = False
        if len(cl) == 1:
            c_atoms = sorted(x[1] for x in flatten(pred_atoms(cl[0]['body']), 'or'))
            cont_ok = c_atoms == sorted(["c.is_alphanumeric()", "c == '_'"])
        # the keyword conversion is applied to read_str(start, offset()) after the scan
        calls = [n for n in find_all(a['body'], lambda n: n.get('k') == 'mcall')]
        order = [n['method'] for n in calls if n['method'] in ('skip_while', 'read_str', 'into')]
        conv_ok = order[:2] == ['skip_while', 'read_str'] and 'into' in order
        rs = [n for n in calls if n['method'] == 'read_str']
        whole = bool(rs) and render(rs[0]['args'][0]) == 'start' and render(rs[0]['args'][1]) == 'self.offset()'
        ok = start_ok and cont_ok and conv_ok and whole
        rep.ob(ok, 'R08.2', fnp, 'identifier arm', 'start class alphabetic|_ (%s), continue class alphanumeric|_ (%s), keyword lookup on the whole slice start..offset() after the scan (%s, %s)'
               % (start_ok, cont_ok, conv_ok, whole), 'src/lexer.rs:%d' % a['line'])
    else:
        rep.bad('R08.2', fnp, 'identifier arm', 'identifier arm not found', loc)
    # whitespace set
    ws = S.func(LEX, 'is_whitespace')
    chars = sorted(set(n['code'] for n in find_all(ws['body'], lambda n: n.get('k') == 'lit' and n.get('lit') == 'char')))
    stm = ws['body']['stmts']
    pure = len(stm) == 1 and stm[0]['k'] == 's_expr' and stm[0]['expr'].get('k') in ('macro', 'match') and \
        (stm[0]['expr'].get('name') == 'matches' or stm[0]['expr'].get('k') == 'match')
    rep.ob(pure, 'R08.2', 'lexer::is_whitespace', 'pure table', 'the whitespace predicate is a single table lookup over character literals '
           '(any other control flow in front of the table can take code points out of it)', 'src/lexer.rs:%d' % ws['line'])
    rep.ob(chars == PATTERN_WHITE_SPACE, 'R08.2', 'lexer::is_whitespace', 'Pattern_White_Space', 'whitespace is exactly the 11 code points: %s' % [hex(c) for c in chars], 'src/lexer.rs:%d' % ws['line'])

    # ---- R08.3 -------------------------------------------------------------------------------
    ok, why = slice_boundaries_ok(ctx)
    rep.ob(ok, 'R08.3', 'lexer::Tokenizer', 'slice offsets', why, 'src/lexer.rs')

    # ---- R08.4 escape parity -----------------------------------------------------------------
    sw = S.method(LEX, 'Tokenizer', 'skip_while')
    wl = find_all(sw['body'], lambda n: n.get('k') == 'while')
    asg = find_all(sw['body'], lambda n: n.get('k') == 'assign' and render(n['l']) == 'escaped')
    table = None
    if len(wl) == 1 and len(asg) == 1:
        table = {}
        lets = {}
        for st_ in find_all(wl[0]['body'], lambda n: n.get('k') == 's_let'):
            if st_['pat'].get('k') == 'p_ident' and st_.get('init'):
                lets[st_['pat']['name']] = st_['init']
        for esc in (False, True):
            for ch in ('\\', 'x'):
                table[(esc, ch)] = eval_delta(asg[0]['r'], esc, ch, lets)
    want = {(False, '\\'): True, (False, 'x'): False, (True, '\\'): False, (True, 'x'): False}
    rep.table('escape_delta', {'%s,%s' % k: v for k, v in (table or {}).items()})
    for k in want:
        got = table.get(k) if table else None
        rep.ob(got == want[k], 'R08.4', 'lexer::Tokenizer::skip_while', 'delta(escaped=%s, c=%s)' % (k[0], 'backslash' if k[1] == '\\' else 'other'),
               'next escaped must be %s (an escaped backslash does not escape what follows); the code gives %s' % (want[k], got), 'src/lexer.rs:%d' % sw['line'])
    # the string arm uses the flag: predicate `c != '"' || esc`
    strarm = [a for a in lt['arms'] if a.get('char') == '"']
    okp = False
    if strarm:
        cl = find_all(strarm[0]['body'], lambda n: n.get('k') == 'closure')
        if cl:
            atoms = sorted(x[1] for x in flatten(pred_atoms(cl[0]['body']), 'or'))
            okp = atoms == sorted(["c != '\"'", 'esc'])
    rep.ob(okp, 'R08.4', fnp, 'string scan predicate', 'scan continues while the character is not an unescaped quote', loc)

    # ---- R08.5 single-pass decode ------------------------------------------------------------
    pse = S.method('src/parser.rs', 'Parser', 'parse_string_expression')
    reps = find_all(pse['body'], lambda n: n.get('k') == 'mcall' and n['method'] in ('replace', 'replacen', 'replace_range'))
    rep.ob(not reps, 'R08.5', 'parser::Parser::parse_string_expression', 'post-pass replace', 'no replace() over already decoded text (it would re-interpret characters that came from an escaped backslash); found %d' % len(reps),
           'src/parser.rs:%d' % pse['line'])
    loops = find_all(pse['body'], lambda n: n.get('k') in ('for', 'while', 'loop'))
    rep.ob(len(loops) == 1, 'R08.5', 'parser::Parser::parse_string_expression', 'single pass', 'exactly one loop over the raw text (found %d)' % len(loops), 'src/parser.rs:%d' % pse['line'])
    # escape set handled by the decoder: char literals compared/matched in the function
    lits = sorted(set(n['value'] for n in find_all(pse['body'], lambda n: n.get('k') == 'lit' and n.get('lit') == 'char')))
    strs = sorted(set(n['value'] for n in find_all(pse['body'], lambda n: n.get('k') == 'lit' and n.get('lit') == 'str')))
    handled = set()
    for c in lits:
        if c in ('"', '\\', 'n', 't'):
            handled.add(c)
    for s_ in strs:
        if s_ in ('\\n', '\\t'):
            handled.add(s_[1])
    rep.ob(handled == set(ESCAPES), 'R08.5', 'parser::Parser::parse_string_expression', 'escape set', 'decoder handles exactly \\" \\\\ \\n \\t: %s' % sorted(handled), 'src/parser.rs:%d' % pse['line'])
    # in the single pass, a backslash consumes the following character in the same step
    consume = find_all(pse['body'], lambda n: n.get('k') == 'mcall' and n['method'] == 'next') if loops else []
    single_consume = bool(loops) and loops[0]['k'] in ('while', 'loop') and len(consume) >= 2
    rep.ob(single_consume or (not reps and False), 'R08.5', 'parser::Parser::parse_string_expression', 'escape consumes next char',
           'handling a backslash takes the following character from the same iterator in the same step', 'src/parser.rs:%d' % pse['line'])

    # ---- R08.6 sentinel ------------------------------------------------------------------------
    from rules import trm
    sentinel = trm.sentinel_token(F)
    produced = set()
    lexnext = F.fn("<lexer::Tokenizer<'a> as core::iter::traits::iterator::Iterator>::next")
    for b, si, st in lexnext.stmts():
        if st['k'] == 'assign' and st['rv']['k'] == 'aggregate' and st['rv'].get('adt') == tables.TOKEN:
            produced.add(st['rv']['variant'])
    conv = F.fn("<lexer::Token<'a> as core::convert::From<&'a str>>::from")
    for b, si, st in conv.stmts():
        if st['k'] == 'assign' and st['rv']['k'] == 'aggregate' and st['rv'].get('adt') == tables.TOKEN:
            produced.add(st['rv']['variant'])
    rep.table('lexer_produces', sorted(produced))
    rep.ob(sentinel not in produced, 'R08.6', 'parser::Parser::advance', 'sentinel Token::%s' % sentinel,
           'the token the parser substitutes for end of input must not be producible by the lexer on real input '
           '(otherwise text after an illegal character is silently dropped)', 'src/parser.rs')
    ok, why = float_token_shape_ok(ctx)
    rep.ob(ok, 'R08.6', fnp, 'numeric token shape', why, loc)

    # ---- R08.7 skipping ------------------------------------------------------------------------
    wsarm = [a for a in lt['arms'] if a['kind'] == 'class' and 'is_whitespace' in (a['guard'] or '')]
    rep.ob(len(wsarm) == 1 and [o[1] for o in wsarm[0]['outcomes']] == ['<skip>'], 'R08.7', fnp, 'whitespace arm', 'whitespace restarts the scan without a token', loc)
    cm = [a for a in lt['arms'] if a.get('char') == '/']
    okc = False
    if cm:
        outs = {lx: tok for lx, tok, _ in cm[0]['outcomes']}
        okc = outs.get('//') == '<skip>' and outs.get('/') == 'Slash'
        cl = find_all(cm[0]['body'], lambda n: n.get('k') == 'closure')
        okc = okc and len(cl) == 1 and render(cl[0]['body']) == "c != '\\n'" or (okc and len(cl) == 1 and "'\\n'" in repr(render(cl[0]['body'])))
    rep.ob(okc, 'R08.7', fnp, 'comment arm', '`//` skips to (not past) the line feed and restarts; a single `/` is Slash', loc)
    # cross-check with MIR: number of Tokenizer::bump call sites in next()
    nb = sum(1 for b, t in lexnext.own_calls() if callee_name(t) == "lexer::Tokenizer::<'a>::bump")
    sb = len(find_all(nxt['body'], lambda n: n.get('k') == 'mcall' and n['method'] == 'bump' and path_of(n['recv']) == ['self']))
    if nb != sb:
        raise CheckerError('cross-check failed: %d bump() sites in the syntax tree of next(), %d in MIR' % (sb, nb))
    rep.count('bump_sites', nb)


def eval_delta(e, escaped, ch, lets=None):
    lets = lets or {}
    """evaluate the right-hand side of `escaped = <expr>` for a flag value and the character just consumed.
    Recognised vocabulary: self.bump() (the consumed char), Some('..'), ==, !=, &&, ||, !, escaped, literals."""
    k = e.get('k')
    if k == 'binary':
        op = e['op']
        if op in ('&&', '||'):
            l = eval_delta(e['l'], escaped, ch, lets)
            r = eval_delta(e['r'], escaped, ch, lets)
            if l is None or r is None:
                return None
            return (l and r) if op == '&&' else (l or r)
        if op in ('==', '!='):
            l = eval_delta(e['l'], escaped, ch, lets)
            r = eval_delta(e['r'], escaped, ch, lets)
            if l is None or r is None:
                return None
            return (l == r) if op == '==' else (l != r)
        return None
    if k == 'unary' and e['op'] == '!':
        v = eval_delta(e['expr'], escaped, ch, lets)
        return None if v is None else (not v)
    if k == 'path' and e['path'] == ['escaped']:
        return escaped
    if k == 'mcall' and e['method'] == 'bump':
        return ('some', ch)
    if k == 'call' and path_of(e['func']) == ['Some'] and len(e['args']) == 1:
        v = eval_delta(e['args'][0], escaped, ch, lets)
        return ('some', v)
    if k == 'lit' and e.get('lit') == 'char':
        return e['value']
    if k == 'lit' and e.get('lit') == 'bool':
        return e['value']
    if k == 'path' and len(e['path']) == 1 and e['path'][0] in lets:
        return eval_delta(lets[e['path'][0]], escaped, ch, lets)
    if k == 'path' and e['path'] == ['c']:
        return ch
    if k == 'macro' and e['name'] == 'matches' and e.get('scrutinee'):
        s_ = eval_delta(e['scrutinee'], escaped, ch, lets)
        p = e['pat']
        if p['k'] == 'p_tuple_struct' and p['path'] == ['Some'] and p['elems'][0]['k'] == 'p_lit':
            return s_ == ('some', p['elems'][0]['lit']['value'])
        return None
    return None


def check_layout(ctx, rep, rule):
    """whitespace predicate is the pure 11-code-point table; whitespace and `//` arms restart the scan"""
    S = ctx.syn()
    lt = tables.lexer_table(ctx)
    ws = S.func(LEX, 'is_whitespace')
    chars = sorted(set(n['code'] for n in find_all(ws['body'], lambda n: n.get('k') == 'lit' and n.get('lit') == 'char')))
    stm = ws['body']['stmts']
    pure = len(stm) == 1 and stm[0]['k'] == 's_expr' and (stm[0]['expr'].get('name') == 'matches' or stm[0]['expr'].get('k') == 'match')
    rep.ob(pure and chars == PATTERN_WHITE_SPACE, rule, 'lexer::is_whitespace', 'whitespace table', 'a single table lookup over exactly the 11 Pattern_White_Space code points (pure=%s, %d code points)' % (pure, len(chars)), 'src/lexer.rs:%d' % ws['line'])
    wsarm = [a for a in lt['arms'] if a['kind'] == 'class' and 'is_whitespace' in (a['guard'] or '')]
    rep.ob(len(wsarm) == 1 and [o[1] for o in wsarm[0]['outcomes']] == ['<skip>'], rule, 'lexer::Tokenizer::next', 'whitespace arm', 'whitespace restarts the scan without producing a token', 'src/lexer.rs')
    cm = [a for a in lt['arms'] if a.get('char') == '/']
    okc = False
    if cm:
        outs = {lx: tok for lx, tok, _ in cm[0]['outcomes']}
        okc = outs.get('//') == '<skip>' and outs.get('/') == 'Slash'
        cl = find_all(cm[0]['body'], lambda n: n.get('k') == 'closure')
        okc = okc and len(cl) == 1 and render(cl[0]['body']) == "c != '\\n'"
    rep.ob(okc, rule, 'lexer::Tokenizer::next', 'comment arm', '`//` skips exactly to the next line feed (the predicate is `c != \'\\n\'`, independent of escapes) and restarts', 'src/lexer.rs')
