"""C08 — tokenisation and literals are faithful to the text (lexer/parser table rules, E2 + E1)."""
import re
from mirlib import *
from synlib import *
from rules import tables
from rules.psc import sym, strip

META = {
    'title': 'Tokenisation and literals are faithful to the text',
    'explanation': 'Structural clauses read off the syntax tree of the lexer and of parse_string_expression, cross-checked with MIR: '
                   'two-character operators are tested before their prefixes and consume exactly two characters (set of tokens '
                   'returned under a peek test = set of tokens that get the extra bump), the keyword table is the documented one and '
                   'is applied to the whole identifier slice, identifier/whitespace classes, token text is sliced only at offsets '
                   'produced by bump(), the escape flag of the string scanner has parity (4-cell truth table), the decoder is a single '
                   'left-to-right pass over the same escape set, and the end-of-input sentinel is not a token the lexer can produce.',
    'not_decided': ['token-stream equality for all inputs as an input-output relation', "Unicode classification (char::is_alphabetic) is std's"],
}

KEYWORDS = ['als', 'anders', 'antwoord', 'functie', 'zolang', 'stel', 'ja', 'nee', 'stop', 'volgende']
TWO_CHAR = ['==', '!=', '<=', '>=', '&&', '||']
ESCAPES = {'"': '"', '\\': '\\', 'n': '\n', 't': '\t'}
PATTERN_WHITE_SPACE = [0x09, 0x0A, 0x0B, 0x0C, 0x0D, 0x20, 0x85, 0x200E, 0x200F, 0x2028, 0x2029]
LEX = 'src/lexer.rs'


def pred_atoms(e):
    """boolean combination -> ('or'|'and'|'not'|'atom', ...) with atoms rendered"""
    k = e.get('k')
    if k == 'binary' and e['op'] in ('||', '&&'):
        return ('or' if e['op'] == '||' else 'and', pred_atoms(e['l']), pred_atoms(e['r']))
    if k == 'unary' and e['op'] == '!':
        return ('not', pred_atoms(e['expr']))
    return ('atom', render(e))


def flatten(p, op):
    if p[0] == op:
        return flatten(p[1], op) + flatten(p[2], op)
    return [p]


def slice_boundaries_ok(ctx):
    """R08.3 as a predicate (used by PSC-D3)"""
    F = ctx.facts()
    T = "lexer::Tokenizer::<'a>::"
    writers = set()
    for f in F.all_fns:
        for b, si, st in f.stmts():
            if st['k'] == 'assign' and place_fields(st['place'])[:1] == ['pos'] and any(
                    isinstance(e, dict) and e.get('of') == 'lexer::Tokenizer' for e in st['place']['proj']):
                writers.add(f.path)
    ok_w = writers <= {T + 'bump', T + 'new'}
    # bump: pos += len_utf8(c) with c the char just taken from chars
    bump = F.fn(T + 'bump')
    okb = False
    for b, si, st in bump.stmts():
        if st['k'] == 'assign' and place_fields(st['place'])[:1] == ['pos']:
            v = sym(bump, st['rv']['op']) if st['rv']['k'] == 'use' else None
            s_ = str(v)
            okb = 'len_utf8' in s_ and 'Add' in s_
    # read_str arguments
    bad = []
    for f, b, t in F.callers_of(lambda p: p == T + 'read_str'):
        for a in t['args'][1:]:
            v = strip(sym(f, a))
            s_ = str(v)
            form_ok = False
            if v[0] == 'call' and v[1] == T + 'offset':
                form_ok = True
            elif v[0] == 'binop' and v[1] in ('Add', 'Sub') and strip(v[3]) == ('int', 1) and strip(v[2])[0] in ('call', 'mlocal') and ('offset' in s_ or True):
                form_ok = 'offset' in s_ or strip(v[2])[0] == 'mlocal'
            elif v[0] == 'mlocal' or v[0] == 'param':
                # `start`: a value of offset() saved earlier
                ds = f.defs().get(v[1], []) if v[0] == 'mlocal' else []
                form_ok = True
                for d in ds:
                    if d[0] == 'call' and callee_name(d[2]) != T + 'offset':
                        form_ok = False
            if not form_ok:
                bad.append('%s arg %s' % (f.path, s_[:60]))
    ok = ok_w and okb and not bad
    why = 'Tokenizer.pos is written only by new/bump (+= len_utf8 of the consumed char); read_str is called with offset() values (±1 around the one-byte quote)'
    if not ok:
        why = 'writers of pos: %s; bump adds len_utf8: %s; read_str arguments not derived from offset(): %s' % (sorted(writers), okb, bad)
    return ok, why


def numeric_arm(ctx):
    lt = tables.lexer_table(ctx)
    for a in lt['arms']:
        if a['kind'] == 'range' and a.get('range') == ('0', '9'):
            return a
    return None


def float_token_shape_ok(ctx):
    """the Float token is [0-9]+ '.' [0-9]* (accepted by f64::from_str): digits, and at most one '.' guarded by a flag"""
    a = numeric_arm(ctx)
    if a is None:
        return False, 'numeric arm of the lexer not found'
    cl = find_all(a['body'], lambda n: n.get('k') == 'closure')
    if len(cl) != 1:
        return False, 'numeric arm: expected one skip_while predicate'
    body = cl[0]['body']
    txt = render_tree(body)
    digits = bool(find_all(body, lambda n: n.get('k') == 'mcall' and n['method'] == 'is_ascii_digit'))
    dot = find_all(body, lambda n: n.get('k') == 'binary' and n['op'] == '&&' and 'decimal' in render(n) and "'.'" in render(n) and '!' in render(n))
    sets = find_all(body, lambda n: n.get('k') == 'assign' and render(n['l']) == 'decimal' and n['r'].get('value') is True)
    rets = find_all(body, lambda n: n.get('k') == 'return')
    ok = digits and len(dot) == 1 and len(sets) == 1
    return ok, 'number scan accepts ASCII digits and one `.` (flag `decimal` set once): digits=%s dot-guard=%d flag-sets=%d' % (digits, len(dot), len(sets))


def render_tree(e):
    return render(e)


def run(ctx, rep):
    F = ctx.facts()
    S = ctx.syn()
    lt = tables.lexer_table(ctx)
    rep.rule('R08.1', 'maximal munch: two-character operators are tested first and consume exactly two characters')
    rep.rule('R08.2', 'keyword table is the documented one, applied to whole identifiers; identifier/whitespace/comment classes')
    rep.rule('R08.3', 'token text is always a slice between character boundaries')
    rep.rule('R08.4', 'the escape flag of the string scanner has parity')
    rep.rule('R08.5', 'string literals are decoded in one left-to-right pass over the escape set \\" \\\\ \\n \\t')
    rep.rule('R08.6', 'end of input and an illegal character are distinguishable; numeric token shapes')
    rep.rule('R08.7', 'whitespace and comments are skipped and never produce a token')
    nxt = lt['fn']
    loc = 'src/lexer.rs:%d' % nxt['line']
    fnp = 'lexer::Tokenizer::next'
    rep.count('lexer_arms', len(lt['arms']))

    # ---- R08.1 -------------------------------------------------------------------------------
    # read from the lexer's MIR with the first two characters held constant (tables.lexer_outcomes): what matters is which
    # token comes out and how many characters were consumed, not how the tests are spelled or which helper performs them
    O = lt['outcomes']
    unit = lt['unit_tokens']
    c2s = sorted({k[1] for k in O if k[1] is not None})
    two = {lx: tok for lx, tok in lt['table'].items() if len(lx) == 2}
    rep.table('two_char_tokens', two)
    for lx in TWO_CHAR:
        r = O.get((lx[0], lx[1]), [])
        single = len(r) == 1
        tok = r[0][0] if single else None
        rep.ob(single and tok in unit and tok != 'Illegal' and tok != (O[(lx[0], None)][0][0] if len(O[(lx[0], None)]) == 1 else None), 'R08.1', fnp, 'lexeme %s' % lx,
               'the two characters give one token of their own (token %s), not the one-character token followed by another' % tok, loc)
        rep.ob(single and r[0][1] == 2, 'R08.1', fnp, 'second character of %s' % lx, 'recognising %s consumes exactly two characters (consumed: %s)' % (tok, r[0][1] if single else r), loc)
    for lx in two:
        rep.ob(lx in TWO_CHAR, 'R08.1', fnp, 'lexeme %s' % lx, 'only the documented two-character operators are munched', loc)
    # every other (first, second) pair: the second character does not change the token and is not consumed
    for (c1, c2), r in sorted(O.items(), key=lambda kv: (kv[0][0], kv[0][1] or '')):
        if c2 is None or c1 + c2 in TWO_CHAR or c1 + c2 == '//':
            continue
        alone = O[(c1, None)]
        if len(alone) != 1 or alone[0][0] not in unit:
            continue        # identifiers, numbers, strings read on by themselves
        okp = len(r) == 1 and r[0][0] == alone[0][0] and r[0][1] == 1
        if not okp:
            rep.bad('R08.1', fnp, 'lexeme %s before %r' % (c1, c2), 'a one-character token must not depend on or consume the character after it: alone %s, followed by %r: %s' % (alone, c2, r), loc)
    rep.good('R08.1', fnp, 'one-character tokens', '%d (first, second) character pairs: the second character neither changes nor joins a one-character token' % len(O), loc)
    # one-character prefixes still exist
    for lx in ('=', '!', '<', '>'):
        rep.ob(lx in lt['table'], 'R08.1', fnp, 'lexeme %s' % lx, 'the one-character form is still produced (%s)' % lt['table'].get(lx), loc)
    # docs of Token variants agree with the lexer table
    en = S.enum(LEX, 'Token')
    docs = {}
    for v in en['variants']:
        for d in v['docs']:
            m = re.match(r'^\s*"(.+)"\s*$', d)
            if m:
                docs[v['name']] = m.group(1)
    mism = [(lx, t, docs.get(t)) for lx, t in lt['table'].items() if t in docs and len(lx) <= 2 and docs[t] != lx and not t.endswith('(..)')]
    rep.ob(not mism, 'R08.1', 'lexer::Token', 'variant docs vs lexer arms', 'operator tokens are produced for the lexeme their documentation names: %s' % mism, 'src/lexer.rs:%d' % en['line'])

    # ---- R08.2 keywords --------------------------------------------------------------------------
    kt = tables.keyword_table(ctx)
    kw = kt['keywords']
    readme = ctx.readme()
    rep.table('keywords', kw)
    for k in KEYWORDS:
        rep.ob(k in kw, 'R08.2', 'lexer::Token::from', 'keyword %s' % k, 'documented keyword maps to a keyword token (%s)' % kw.get(k), 'src/lexer.rs:%d' % kt['line'])
        if not re.search(r'(?<![\w])%s(?![\w])' % re.escape(k), readme):
            rep.note('keyword %s does not occur in README.md (oracle = property statement)' % k)
    for k in kw:
        rep.ob(k in KEYWORDS, 'R08.2', 'lexer::Token::from', 'keyword %s' % k, 'only documented words are keywords', 'src/lexer.rs:%d' % kt['line'])
    rep.ob(len(set(kw.values())) == len(kw), 'R08.2', 'lexer::Token::from', 'distinct tokens', 'every keyword has its own token', 'src/lexer.rs:%d' % kt['line'])
    rep.ob(kt['default'] is not None and kt['default'].startswith('Identifier('), 'R08.2', 'lexer::Token::from', 'default', 'every other word is an identifier: %s' % kt['default'], 'src/lexer.rs:%d' % kt['line'])
    # identifier arm: class + whole-word conversion
    ident = [a for a in lt['arms'] if a['kind'] == 'class' and 'is_alphabetic' in (a['guard'] or '')]
    ok = len(ident) == 1
    if ok:
        a = ident[0]
        g = pred_atoms(a['class_guard'])
        atoms = sorted(x[1] for x in flatten(g, 'or'))
        start_ok = atoms == sorted(["c.is_alphabetic()", "c == '_'"])
        cl = find_all(a['body'], lambda n: n.get('k') == 'closure')
        cont_ok = False
        if len(cl) == 1:
            c_atoms = sorted(x[1] for x in flatten(pred_atoms(cl[0]['body']), 'or'))
            cont_ok = c_atoms == sorted(["c.is_alphanumeric()", "c == '_'"])
        # the keyword conversion is applied to read_str(start, offset()) after the scan
        calls = [n for n in find_all(a['body'], lambda n: n.get('k') == 'mcall')]
        order = [n['method'] for n in calls if n['method'] in ('skip_while', 'read_str', 'into')]
        conv_ok = order[:2] == ['skip_while', 'read_str'] and 'into' in order
        rs = [n for n in calls if n['method'] == 'read_str']
        whole = bool(rs) and render(rs[0]['args'][0]) == 'start' and render(rs[0]['args'][1]) == 'self.offset()'
        ok = start_ok and cont_ok and conv_ok and whole
        rep.ob(ok, 'R08.2', fnp, 'identifier arm', 'start class alphabetic|_ (%s), continue class alphanumeric|_ (%s), keyword lookup on the whole slice start..offset() after the scan (%s, %s)'
               % (start_ok, cont_ok, conv_ok, whole), 'src/lexer.rs:%d' % a['line'])
    else:
        rep.bad('R08.2', fnp, 'identifier arm', 'identifier arm not found', loc)
    # whitespace set
    lf = layout_facts(ctx)
    rep.ob(not lf['undecided'], 'R08.2', 'lexer::is_whitespace', 'pure table', 'for every code point examined the lexer decides skip / no skip from the character alone (undecided: %s)' % [hex(c) for c in lf['undecided']][:5], 'src/lexer.rs')
    rep.ob(lf['skipped'] == PATTERN_WHITE_SPACE, 'R08.2', 'lexer::is_whitespace', 'Pattern_White_Space', 'whitespace is exactly the 11 code points: %s' % [hex(c) for c in lf['skipped']][:14], 'src/lexer.rs')

    # ---- R08.3 -------------------------------------------------------------------------------
    ok, why = slice_boundaries_ok(ctx)
    rep.ob(ok, 'R08.3', 'lexer::Tokenizer', 'slice offsets', why, 'src/lexer.rs')

    # ---- R08.4 escape parity -----------------------------------------------------------------
    sw = S.method(LEX, 'Tokenizer', 'skip_while')
    wl = find_all(sw['body'], lambda n: n.get('k') == 'while')
    asg = find_all(sw['body'], lambda n: n.get('k') == 'assign' and render(n['l']) == 'escaped')
    table = None
    if len(wl) == 1 and len(asg) == 1:
        table = {}
        lets = {}
        for st_ in find_all(wl[0]['body'], lambda n: n.get('k') == 's_let'):
            if st_['pat'].get('k') == 'p_ident' and st_.get('init'):
                lets[st_['pat']['name']] = st_['init']
        for esc in (False, True):
            for ch in ('\\', 'x'):
                table[(esc, ch)] = eval_delta(asg[0]['r'], esc, ch, lets)
    want = {(False, '\\'): True, (False, 'x'): False, (True, '\\'): False, (True, 'x'): False}
    rep.table('escape_delta', {'%s,%s' % k: v for k, v in (table or {}).items()})
    for k in want:
        got = table.get(k) if table else None
        rep.ob(got == want[k], 'R08.4', 'lexer::Tokenizer::skip_while', 'delta(escaped=%s, c=%s)' % (k[0], 'backslash' if k[1] == '\\' else 'other'),
               'next escaped must be %s (an escaped backslash does not escape what follows); the code gives %s' % (want[k], got), 'src/lexer.rs:%d' % sw['line'])
    # the string arm uses the flag: predicate `c != '"' || esc`
    strarm = [a for a in lt['arms'] if a.get('char') == '"']
    okp = False
    if strarm:
        cl = find_all(strarm[0]['body'], lambda n: n.get('k') == 'closure')
        if cl:
            atoms = sorted(x[1] for x in flatten(pred_atoms(cl[0]['body']), 'or'))
            okp = atoms == sorted(["c != '\"'", 'esc'])
    rep.ob(okp, 'R08.4', fnp, 'string scan predicate', 'scan continues while the character is not an unescaped quote', loc)

    # ---- R08.5 single-pass decode ------------------------------------------------------------
    pse = S.method('src/parser.rs', 'Parser', 'parse_string_expression')
    reps = find_all(pse['body'], lambda n: n.get('k') == 'mcall' and n['method'] in ('replace', 'replacen', 'replace_range'))
    rep.ob(not reps, 'R08.5', 'parser::Parser::parse_string_expression', 'post-pass replace', 'no replace() over already decoded text (it would re-interpret characters that came from an escaped backslash); found %d' % len(reps),
           'src/parser.rs:%d' % pse['line'])
    loops = find_all(pse['body'], lambda n: n.get('k') in ('for', 'while', 'loop'))
    rep.ob(len(loops) == 1, 'R08.5', 'parser::Parser::parse_string_expression', 'single pass', 'exactly one loop over the raw text (found %d)' % len(loops), 'src/parser.rs:%d' % pse['line'])
    # escape set handled by the decoder: char literals compared/matched in the function
    lits = sorted(set(n['value'] for n in find_all(pse['body'], lambda n: n.get('k') == 'lit' and n.get('lit') == 'char')))
    strs = sorted(set(n['value'] for n in find_all(pse['body'], lambda n: n.get('k') == 'lit' and n.get('lit') == 'str')))
    handled = set()
    for c in lits:
        if c in ('"', '\\', 'n', 't'):
            handled.add(c)
    for s_ in strs:
        if s_ in ('\\n', '\\t'):
            handled.add(s_[1])
    rep.ob(handled == set(ESCAPES), 'R08.5', 'parser::Parser::parse_string_expression', 'escape set', 'decoder handles exactly \\" \\\\ \\n \\t: %s' % sorted(handled), 'src/parser.rs:%d' % pse['line'])
    # in the single pass, a backslash consumes the following character in the same step
    consume = find_all(pse['body'], lambda n: n.get('k') == 'mcall' and n['method'] == 'next') if loops else []
    single_consume = bool(loops) and loops[0]['k'] in ('while', 'loop') and len(consume) >= 2
    rep.ob(single_consume or (not reps and False), 'R08.5', 'parser::Parser::parse_string_expression', 'escape consumes next char',
           'handling a backslash takes the following character from the same iterator in the same step', 'src/parser.rs:%d' % pse['line'])

    # ---- R08.6 sentinel ------------------------------------------------------------------------
    from rules import trm
    sentinel = trm.sentinel_token(F)
    produced = set()
    lexnext = F.fn("<lexer::Tokenizer<'a> as core::iter::traits::iterator::Iterator>::next")
    for b, si, st in lexnext.stmts():
        if st['k'] == 'assign' and st['rv']['k'] == 'aggregate' and st['rv'].get('adt') == tables.TOKEN:
            produced.add(st['rv']['variant'])
    conv = F.fn("<lexer::Token<'a> as core::convert::From<&'a str>>::from")
    for b, si, st in conv.stmts():
        if st['k'] == 'assign' and st['rv']['k'] == 'aggregate' and st['rv'].get('adt') == tables.TOKEN:
            produced.add(st['rv']['variant'])
    rep.table('lexer_produces', sorted(produced))
    rep.ob(sentinel not in produced, 'R08.6', 'parser::Parser::advance', 'sentinel Token::%s' % sentinel,
           'the token the parser substitutes for end of input must not be producible by the lexer on real input '
           '(otherwise text after an illegal character is silently dropped)', 'src/parser.rs')
    ok, why = float_token_shape_ok(ctx)
    rep.ob(ok, 'R08.6', fnp, 'numeric token shape', why, loc)

    # ---- R08.7 skipping ------------------------------------------------------------------------
    rep.ob(set(PATTERN_WHITE_SPACE) <= set(lf['skipped']), 'R08.7', fnp, 'whitespace arm', 'whitespace restarts the scan without a token', loc)
    cmt = lf['comment']
    rep.ob(cmt['skip'] and cmt['slash'] and cmt['pred'] is True, 'R08.7', fnp, 'comment arm', '`//` skips to (not past) the line feed and restarts; a single `/` is Slash', loc)
    # cross-check with MIR: number of Tokenizer::bump call sites in next()
    nb = sum(1 for b, t in lexnext.own_calls() if callee_name(t) == "lexer::Tokenizer::<'a>::bump")
    sb = len(find_all(nxt['body'], lambda n: n.get('k') == 'mcall' and n['method'] == 'bump' and path_of(n['recv']) == ['self']))
    if nb != sb:
        raise CheckerError('cross-check failed: %d bump() sites in the syntax tree of next(), %d in MIR' % (sb, nb))
    rep.count('bump_sites', nb)


def eval_delta(e, escaped, ch, lets=None):
    lets = lets or {}
    """evaluate the right-hand side of `escaped = <expr>` for a flag value and the character just consumed.
    Recognised vocabulary: self.bump() (the consumed char), Some('..'), ==, !=, &&, ||, !, escaped, literals."""
    k = e.get('k')
    if k == 'binary':
        op = e['op']
        if op in ('&&', '||'):
            l = eval_delta(e['l'], escaped, ch, lets)
            r = eval_delta(e['r'], escaped, ch, lets)
            if l is None or r is None:
                return None
            return (l and r) if op == '&&' else (l or r)
        if op in ('==', '!='):
            l = eval_delta(e['l'], escaped, ch, lets)
            r = eval_delta(e['r'], escaped, ch, lets)
            if l is None or r is None:
                return None
            return (l == r) if op == '==' else (l != r)
        return None
    if k == 'unary' and e['op'] == '!':
        v = eval_delta(e['expr'], escaped, ch, lets)
        return None if v is None else (not v)
    if k == 'path' and e['path'] == ['escaped']:
        return escaped
    if k == 'mcall' and e['method'] == 'bump':
        return ('some', ch)
    if k == 'call' and path_of(e['func']) == ['Some'] and len(e['args']) == 1:
        v = eval_delta(e['args'][0], escaped, ch, lets)
        return ('some', v)
    if k == 'lit' and e.get('lit') == 'char':
        return e['value']
    if k == 'lit' and e.get('lit') == 'bool':
        return e['value']
    if k == 'path' and len(e['path']) == 1 and e['path'][0] in lets:
        return eval_delta(lets[e['path'][0]], escaped, ch, lets)
    if k == 'path' and e['path'] == ['c']:
        return ch
    if k == 'macro' and e['name'] == 'matches' and e.get('scrutinee'):
        s_ = eval_delta(e['scrutinee'], escaped, ch, lets)
        p = e['pat']
        if p['k'] == 'p_tuple_struct' and p['path'] == ['Some'] and p['elems'][0]['k'] == 'p_lit':
            return s_ == ('some', p['elems'][0]['lit']['value'])
        return None
    return None


def layout_facts(ctx):
    """which characters the lexer skips as whitespace, and what the comment scan does — by constant propagation through the MIR
    of Tokenizer::next for every code point below U+3001 (+ a few beyond), independent of how the tests are written"""
    def build():
        F = ctx.facts()
        fn = F.fn(tables.LEXNEXT)
        T = tables.TOK
        cps = [c for c in range(0, 0x3001)] + [0xFEFF, 0x1680, 0x180E, 0x202F, 0x205F, 0xE000, 0x10000, 0x1F600]
        skipped = []
        undecided = []
        for cp in cps:
            if 0xD800 <= cp <= 0xDFFF:
                continue
            st = {'b': 0}

            def decide(name, argvals, t_, cp=cp, st=st):
                if name == T + 'bump':
                    st['b'] += 1
                    return ('agg', 'core::option::Option', 'Some', (('int', cp, 'char'),)) if st['b'] == 1 else None
                if name == T + 'peek':
                    return ('agg', 'core::option::Option', 'None', ())
                r = tables.char_pred(name, argvals)
                if r is not None:
                    return r
                if name in F.fns and name != tables.LEXNEXT and not name.startswith(T):
                    return tables.eval_pure(F, name, argvals)
                return None
            ps = AbsInt(F, fn, {}, decide_call=decide, max_paths=16).run()
            kinds = set()
            for p in ps:
                r = p.env.get('_0')
                names = [c[1] for c in p.calls]
                if p.exit == 'return' and r and r[0] == 'call' and r[1] == tables.LEXNEXT and (T + 'skip_while') not in names and names.count(T + 'bump') == 1:
                    kinds.add('skip')
                else:
                    kinds.add('other')
            if kinds == {'skip'}:
                skipped.append(cp)
            elif 'skip' in kinds:
                undecided.append(cp)
        # the comment scan: the closure handed to skip_while after `//`
        comment = {'skip': False, 'slash': False, 'pred': None}
        O = tables.lexer_outcomes(ctx)
        r = O.get(('/', '/'), [])
        comment['skip'] = len(r) == 1 and r[0][0] == '<skip>' and 'skip_while' in r[0][2]
        comment['slash'] = all(O.get(('/', c2)) and len(O[('/', c2)]) == 1 and O[('/', c2)][0][0] == 'Slash' and O[('/', c2)][0][1] == 1
                               for c2 in [k[1] for k in O if k[0] == '/' and k[1] not in (None, '/')] ) and \
            len(O.get(('/', None), [])) == 1 and O[('/', None)][0][0] == 'Slash'
        st = {'b': 0}
        clos = []

        def decide2(name, argvals, t_, st=st):
            if name == T + 'bump':
                st['b'] += 1
                return ('agg', 'core::option::Option', 'Some', (('int', ord('/'), 'char'),)) if st['b'] == 1 else None
            if name == T + 'peek':
                return ('agg', 'core::option::Option', 'Some', (('int', ord('/'), 'char'),))
            if name == T + 'skip_while':
                for a in argvals:
                    if isinstance(a, tuple) and a[0] == 'closure':
                        clos.append(a[1])
            r_ = tables.char_pred(name, argvals)
            if r_ is not None:
                return r_
            if name in F.fns and name != tables.LEXNEXT and not name.startswith(T):
                return tables.eval_pure(F, name, argvals)
            return None
        AbsInt(F, fn, {}, decide_call=decide2, max_paths=16).run()
        if len(set(clos)) == 1:
            cn = clos[0]
            verdicts = {}
            for ch in ['\n', '\r', ' ', 'a', '/', '"', '\\', '\t', '\u2028', '0']:
                for esc in (0, 1):
                    v = tables.eval_pure(F, cn, [('int', 0, 'env'), ('int', ord(ch), 'char'), ('int', esc, 'bool')])
                    verdicts[(ch, esc)] = v[1] if v else None
            comment['pred'] = all(verdicts[(ch, esc)] == (0 if ch == '\n' else 1) for (ch, esc) in verdicts)
            comment['pred_table'] = {'%r,%d' % k: v for k, v in verdicts.items()}
        return {'skipped': skipped, 'undecided': undecided, 'comment': comment, 'n': len(cps)}
    return tables._memo(ctx, 'layout_facts', build)


def check_layout(ctx, rep, rule):
    """the lexer skips exactly the 11 Pattern_White_Space code points; `//` skips to the line feed; both restart the scan"""
    lf = layout_facts(ctx)
    loc = 'src/lexer.rs'
    rep.ob(lf['skipped'] == PATTERN_WHITE_SPACE and not lf['undecided'], rule, 'lexer::is_whitespace', 'whitespace table',
           'of %d code points examined the lexer skips exactly the 11 Pattern_White_Space ones: skipped %s%s' % (
               lf['n'], [hex(c) for c in lf['skipped']][:14], (', undecided %s' % [hex(c) for c in lf['undecided']][:5]) if lf['undecided'] else ''), loc)
    rep.ob(set(PATTERN_WHITE_SPACE) <= set(lf['skipped']), rule, 'lexer::Tokenizer::next', 'whitespace arm', 'whitespace restarts the scan without producing a token', loc)
    c = lf['comment']
    rep.ob(c['skip'] and c['slash'] and c['pred'] is True, rule, 'lexer::Tokenizer::next', 'comment arm',
           '`//` skips exactly to the next line feed (predicate true for every character but the line feed, with or without the escape flag: %s) and restarts; a single `/` is Slash (%s)' % (c['pred'], c['slash']), loc)
