"""C03 — a value that is still reachable is never reclaimed (static clauses)."""
from mirlib import *
from rules import vmx, psc
from rules.psc import sym, strip, unref
from rules.shared import deref

META = {
    'title': 'A value that is still reachable is never reclaimed',
    'explanation': 'R03.1 every heap object is registered with a collector when created (who-may-call + must-pass-through GC::trace). R03.2 '
                   'at every collection point, every VM field and every live local whose type contains Object is in the root list handed '
                   'to GC::run (MIR liveness + backward slice of the roots argument). R03.3 marking recurses through arrays. R03.4 bitmap '
                   'typestate: the mark bitmap has exactly one bit per managed object whenever it is indexed or scanned, and the index '
                   'of an object is its position in the managed list (pointer-provenance check). R03.5 no &mut to a payload is live '
                   'while an aliasing Object is read. R03.6 nothing is freed except by the collector or free_recursive of an untraced result.'
                   ' R03.7 a &mut into a box is taken only by the constructor that has just allocated it or on the IndexSet path (reachable values stay unchanged, nothing is recycled).',
    'not_decided': ['that a particular heap graph survives (run-time reachability)', 'cyclic arrays in Display', 'cross-run lifetimes (C17)'],
}
META['explanation'] += ' R03.8 no object is released twice: free_recursive frees an object only after a set answered `first time` for it when it is taken from the work list (shared with R04.5); a work-list walk is left only when the list is empty.'
META['explanation'] += ' R03.5 also: no read of an Object that may alias the target is reachable from a mutation of the target; what a work list is built with has been entered in the visited set when objects are tested as they are queued.'
META['explanation'] += ' R03.9 the constant pool hands values out by value: a literal the program can change in place, or the caller can release, is copied by OpCode::Const; no other arm lets a pooled value out.'
GCN = 'gc::GC::'


def roots_of(fn, t):
    """(fields of self, locals) borrowed into the roots argument of a GC::run call: backward slice over the defining
    statements of the argument (refs, aggregates, as_slice calls, casts)"""
    fields, locs = set(), set()
    seen = set()

    def place(pl, depth):
        flds = place_fields(pl)
        if fn.alias_root(pl['local']) == 1 and flds:
            fields.add(flds[0])
            return
        local(pl['local'], depth)

    def operand(op, depth):
        if op and op.get('k') in ('copy', 'move'):
            place(op['place'], depth)

    def local(l, depth):
        if l in seen or depth > 14:
            return
        seen.add(l)
        locs.add(l)
        for d in fn.defs().get(l, []):
            if d[0] == 'call':
                n = callee_name(d[2])
                if n.endswith('::as_slice') or n.endswith('Deref>::deref') or n.endswith('::as_ref'):
                    for a in d[2]['args']:
                        operand(a, depth + 1)
                continue
            rv = d[3]
            k = rv['k']
            if k in ('use', 'cast'):
                operand(rv['op'], depth + 1)
            elif k in ('ref', 'rawptr'):
                place(rv['place'], depth + 1)
            elif k == 'aggregate':
                for o_ in rv['ops']:
                    operand(o_, depth + 1)
    operand(t['args'][1], 0)
    return fields, locs, None


IMMEDIATE_CTORS = ('object::Object::null', 'object::Object::bool', 'object::Object::int', 'object::Object::function')


def _rooted_on_every_path(ctx, f, b, t, l, opname):
    """path-sensitive form of `the local is a root`: on every path of the arm through the collection, the value the local holds
    is either one that needs no root (built by a constructor of an immediate: null, bool, int, function) or one of the values
    the roots argument contains on that path - an array of extra roots cut to a length the path decided (`&extra[..n]`) contains
    its first n elements"""
    from rules.shared import int_of
    arms = vmx.vmx(ctx)['arms']
    recs = arms.get(opname, {}).get('paths', [])
    seen = 0
    for r in recs:
        p = r.get('path')
        if p is None:
            continue
        for c in p.calls:
            if c[0] != b or c[1] != GCN + 'run' or len(c[2]) < 2:
                continue
            seen += 1
            val = deref(p.env, p.env.get('_%d' % l, ('local', l)))
            val = uncast(val)
            if isinstance(val, tuple) and val and val[0] == 'call' and val[1] in IMMEDIATE_CTORS:
                continue
            included = []

            def res(v):
                for _ in range(8):
                    v2 = uncast(v)
                    if isinstance(v2, tuple) and v2 and v2[0] == 'ref' and isinstance(v2[1], str) and v2[1].endswith('.*') and v2[1] not in p.env and v2[1][:-2] in p.env:
                        v2 = p.env[v2[1][:-2]]          # `&*r`: a reborrow of the reference r
                    elif isinstance(v2, tuple) and v2 and v2[0] == 'ref':
                        v2 = deref(p.env, v2)
                    if v2 == v:
                        break
                    v = v2
                return v

            def collect(v, depth=0):
                v = res(v)
                if not isinstance(v, tuple) or not v or depth > 8:
                    return
                if v[0] == 'agg' and str(v[1]).startswith(('Array', 'Tuple')):
                    for x in v[3]:
                        collect(x, depth + 1)
                    return
                if v[0] == 'call' and 'ops::index::Index' in v[1] and len(v[2]) == 2:
                    base = res(v[2][0])
                    rg = res(v[2][1])
                    if base[0] == 'agg' and str(base[1]).startswith('Array') and rg[0] == 'agg' and str(rg[1]).endswith('RangeTo') and rg[3] and int_of(res(rg[3][0])) is not None:
                        for x in base[3][:int_of(res(rg[3][0]))]:
                            included.append(res(x))
                    elif base[0] == 'agg' and str(base[1]).startswith('Array') and ((rg[0] == 'agg' and str(rg[1]).endswith('RangeFull')) or 'RangeFull' in str(rg)[:60]):
                        for x in base[3]:                 # `&extra[..]`: the whole array
                            included.append(res(x))
                    return
                if v[0] == 'call' and v[1].endswith(('::as_slice', 'Deref>::deref', '::as_ref')) and v[2]:
                    collect(v[2][0], depth + 1)
                    return
                included.append(v)
            collect(c[2][1])
            if isinstance(val, tuple) and val and val[0] == 'agg' and str(val[1]).startswith('Array'):
                # a local array of values: each element is an immediate or is among the roots
                for x in val[3]:
                    xv = res(x)
                    if isinstance(xv, tuple) and xv and xv[0] == 'call' and xv[1] in IMMEDIATE_CTORS:
                        continue
                    if xv not in included:
                        return False
                continue
            if val not in included:
                return False
    return seen > 0


def bitmap_state_check(F, fn, rep, rule, require_for):
    """typestate of mark_bitmap along every path: returns list of (what, state) problems"""
    problems = []
    npaths = 0
    for p in AbsInt(F, fn, max_paths=5000, loop_bound=2).run():
        if p.exit not in ('return', 'loopcut'):
            continue
        npaths += 1
        state = 'unknown'
        for c in p.calls:
            n = c[1]
            a0 = deref(p.env, c[2][0]) if c[2] else None
            on_bitmap = c[2] and ('f1' in str(c[2][0]) or 'mark_bitmap' in str(c[2][0]))
            if 'BitVec' in n and n.endswith('::clear'):
                state = '0'
            elif 'BitVec' in n and n.endswith('::resize'):
                ln = show(deref(p.env, c[2][1])) if len(c[2]) > 1 else ''
                state = '=' if 'len(' in ln else 'resized?'
            elif 'BitVec' in n and n.endswith('::truncate'):
                state = state if state in ('=', '0') else 'unknown'
            elif n == 'alloc::vec::Vec::<T, A>::push' and 'f0' in str(c[2][0]):
                state = '<' if state == '=' else state
            elif n in require_for:
                if state != '=':
                    problems.append((n.split('::')[-1], state))
    return problems, npaths


def check_payload_writers(ctx, rep, rule):
    """`stays allocated and unchanged`, `never observes a recycled object`: the content of a box changes only where the
    language says so.  The functions of the object layer that hand out a `&mut` into a box (found by return type) are reached
    (a) from other such accessors, (b) inside the object layer from a constructor, on the box it has just allocated, and
    (c) outside it only from code that runs in the IndexSet arm of the dispatch loop (the in-place element assignment)."""
    import re as _re
    F = ctx.facts()
    from rules import vmx as _vmx
    dfn, header, swb, arms, body = _vmx.find_dispatch(F)
    regions = {op: dfn.reachable(e, stop={header}) for op, e in arms.items()}

    def is_acc(f):
        return f.crate == 'lib' and f.path.startswith('object::') and _re.match(r"^&('\S+ )?mut ", f.local_ty(0)) is not None
    accs = {f.path for f in F.all_fns if is_acc(f)}

    def only_index_set(g, b, depth=0):
        """the call site (g, block b) executes only as part of the IndexSet instruction"""
        if g is dfn:
            inarm = sorted(op for op, r in regions.items() if b in r)
            return inarm == ['IndexSet'], 'in the %s arm' % '/'.join(inarm or ['(no)'])
        if depth > 4:
            return False, 'call chain too deep'
        sites = F.callers_of(lambda p, q=g.path: p == q)
        sites = [(h, hb, ht) for h, hb, ht in sites if h.crate == g.crate]
        if not sites:
            return False, 'reached from outside the dispatch loop (%s has no caller)' % g.path
        for h, hb, ht in sites:
            ok, why = only_index_set(h, hb, depth + 1)
            if not ok:
                return False, '%s <- %s' % (g.path, why)
        return True, 'only from the IndexSet arm'
    n = 0
    for f in F.all_fns:
        if f.crate != 'lib':
            continue
        for b, t in f.calls():
            cn = callee_name(t)
            if cn not in accs:
                continue
            n += 1
            inst = '&mut into a box (%s)' % cn.split('::')[-1]
            if f.path in accs:
                rep.good(rule, f.path, inst, 'an accessor built on another accessor', span_loc(t['span']), nontrivial=False)
            elif f.path.startswith('object::'):
                v = sym(f, t['args'][0]) if t['args'] else None
                s_ = str(v)
                fresh = 'object::allocate' in s_ and 'object::Object::with_type' in s_
                rep.ob(fresh, rule, f.path, inst, 'inside the object layer a box is written only by the constructor that has just allocated it: %s' % s_[:120], span_loc(t['span']))
            else:
                ok, why = only_index_set(f, b)
                rep.ob(ok, rule, f.path, inst, 'the content of an existing box is changed only by the in-place element assignment; this site runs %s' % why, span_loc(t['span']))
    rep.count('payload_mut_sites', n)


def run(ctx, rep):
    F = ctx.facts()
    rep.rule('R03.1', 'registration: allocate <- from_* <- public constructors, each passing GC::trace on the created object')
    rep.rule('R03.2', 'root completeness at every call site of GC::run')
    rep.rule('R03.3', 'mark / untrace recurse through array elements')
    rep.rule('R03.4', 'bitmap typestate and index provenance in the collector')
    rep.rule('R03.5', 'no aliasing &mut / & on one payload')
    rep.rule('R03.6', 'who frees: destroy <- Object::free <- {GC::sweep, free_recursive}; free_recursive unused inside the crate')
    rep.rule('R03.7', 'unchanged / never recycled: a &mut into a box is taken only by the constructor that allocated it or on the IndexSet path')
    check_payload_writers(ctx, rep, 'R03.7')
    rep.rule('R03.9', 'literals of the program stay what they are: what the constant pool holds is handed to the program by value - a value the program can change in place or the caller can release (a string, an array and what it holds) is copied by OpCode::Const, so neither reaches the pooled object')
    from rules import c10 as _c10
    _c10.check_pool_by_value(ctx, rep, 'R03.9')
    rep.rule('R03.8', 'no object is released twice: free_recursive (the caller releasing a result) frees an object only after a set answered `first time` for it, at the moment it is taken from the work list - an array can hold the same object in two elements')
    from rules import c04 as _c04
    _c04.check_free_recursive(ctx, rep, 'R03.8')
    # ---- R03.1 ---------------------------------------------------------------------------------
    alloc_callers = sorted({f.path for f, b, t in F.callers_of(lambda p: p == 'object::allocate')})
    priv = {'object::Float::from_f64', 'object::String::from_string', 'object::Array::from_vec'}
    rep.ob(set(alloc_callers) <= priv and alloc_callers, 'R03.1', 'object::allocate', 'callers', 'only the private box constructors allocate: %s' % alloc_callers, 'src/object.rs')
    ctors = set()
    for pc in sorted(priv | {'object::Array::from_slice'}):
        for f, b, t in F.callers_of(lambda p, pc=pc: p == pc):
            if f.path in priv or f.path == 'object::Array::from_slice':
                continue
            ctors.add(f.path)
            # must pass GC::trace(created) before returning
            fn = f
            ok = True
            for p in AbsInt(F, fn).run():
                if p.exit != 'return':
                    continue
                created = [c for c in p.calls if c[1] in priv or c[1] == 'object::Array::from_slice']
                traces = [c for c in p.calls if c[1] in (GCN + 'trace', GCN + 'maybe_trace')]
                if created:
                    cv = ('call', created[0][1], created[0][2], created[0][0])
                    if not any(deref(p.env, tc[2][1]) == cv for tc in traces):
                        ok = False
                    r = deref(p.env, p.env.get('_0'))
                    if r != cv:
                        ok = False
            rep.ob(ok, 'R03.1', f.path, 'trace on creation', 'every path from the box constructor to the return registers the new object with the collector and returns it', fn.loc())
    rep.count('heap_constructors', len(ctors))
    for cpath in sorted(ctors):
        fn = F.fn(cpath)
        has_gc = any('gc::GC' in fn.local_ty(i) for i in range(1, fn.arg_count + 1))
        rep.ob(has_gc, 'R03.1', cpath, 'needs a collector', 'a heap value cannot be built without handing in a &mut GC', fn.loc())
    for pc in sorted(priv):
        vis = F.fn(pc).j.get('vis', '')
        rep.ob('Public' not in vis or 'Restricted' in vis, 'R03.1', pc, 'private', 'box constructors are not callable from outside (vis=%s)' % vis, F.fn(pc).loc())

    # ---- R03.2 ---------------------------------------------------------------------------------
    sites = F.callers_of(lambda p: p == GCN + 'run')
    rep.count('gc_run_call_sites', len(sites))
    vmadt = F.adt('vm::VM')
    obj_fields = [f['name'] for f in vmadt['variants'][0]['fields'] if 'object::Object' in f['ty']]
    rep.table('vm_object_fields', obj_fields)
    ordn = 0
    for f, b, t in sites:
        ordn += 1
        inter = {l['i'] for l in f.locals if 'object::Object' in l['ty'] and not l['ty'].startswith('&') and not l['ty'].startswith('*')
                 and 'Result' not in l['ty'] and 'ControlFlow' not in l['ty'] and 'Option' not in l['ty'] and '[&' not in l['ty']}
        live = live_after_call(f, b, inter)
        fields, locs, v = roots_of(f, t)
        arm = [op for op, a in vmx.vmx(ctx)['arms'].items() if b in a['region']] if f.path == 'vm::VM::run' else []
        where = 'GC::run#%d%s' % (ordn, (' in OpCode::%s' % arm[0]) if arm else '')
        for fld in obj_fields:
            rep.ob(fld in fields, 'R03.2', f.path, '%s root VM.%s' % (where, fld), 'field `%s` (type contains Object) must be handed to the collector as a root' % fld, span_loc(t['span']))
        for l in sorted(live):
            # a live local is rooted if it is itself in the slice, or a copy of a rooted local
            rooted = l in locs
            if not rooted and arm:
                rooted = _rooted_on_every_path(ctx, f, b, t, l, arm[0])
            rep.ob(rooted, 'R03.2', f.path, '%s root local %s' % (where, f.local_name(l)),
                   'local `%s: %s` is still used after the collection and must be a root' % (f.local_name(l), f.local_ty(l)), span_loc(t['span']))
        rep.sample({'site': where, 'fields': sorted(fields), 'locals': sorted(f.local_name(l) for l in locs), 'live_after': sorted(f.local_name(l) for l in live)})
    for f, b, t in sites:
        rep.ob(f.path == 'vm::VM::run', 'R03.2', f.path, 'collection point', 'collections are started only from the dispatch loop', span_loc(t['span']))

    # ---- R03.3 ---------------------------------------------------------------------------------
    check_array_recursion(ctx, rep, 'R03.3')

    # ---- R03.4 ---------------------------------------------------------------------------------
    runfn = F.fn(GCN + 'run')
    probs, n = bitmap_state_check(F, runfn, rep, 'R03.4', {GCN + 'mark', GCN + 'sweep'})
    kinds = sorted(set(probs))
    rep.ob(not probs, 'R03.4', runfn.path, 'bitmap length before marking/sweeping',
           'the bitmap must be sized to objects.len() (all clear) after clear() and before mark()/sweep(): on some path it is %s' % kinds if probs else 'bitmap has one bit per object when mark/sweep run',
           runfn.loc())
    mark = F.fn(GCN + 'mark')
    offs = [(b, t) for b, t in mark.calls() if callee_name(t).endswith('::offset_from') or callee_name(t).endswith('::sub_ptr') or callee_name(t).endswith('offset_from_unsigned')]
    for b, t in offs:
        a0, a1 = str(sym(mark, t['args'][0])), str(sym(mark, t['args'][1]))
        same_base = ('as_ptr' in a0 and 'Vec' in a0) == ('as_ptr' in a1 and 'Vec' in a1) and ('object::Object::as_ptr' in a0) == ('object::Object::as_ptr' in a1)
        rep.ob(same_base, 'R03.4', mark.path, 'index = pointer difference',
               'the bitmap index is computed as the distance between the address stored IN the object word and the address OF the managed vector: '
               'different allocations, so the index is meaningless (and offset_from is UB)', span_loc(t['span']))
    idx_sources = [callee_name(t) for b, t in mark.calls() if callee_name(t).endswith('::position') or callee_name(t).endswith('::binary_search') or 'HashMap' in callee_name(t)]
    if not offs:
        rep.ob(bool(idx_sources), 'R03.4', mark.path, 'index provenance', 'the bitmap index of an object is found by locating it in the managed list: %s' % idx_sources, mark.loc())
    unch = [(b, t) for b, t in mark.calls() if 'unchecked' in callee_name(t) and 'bitvec' in callee_name(t)]
    for b, t in unch:
        facts = psc.facts_at(mark, b)
        idx = sym(mark, t['args'][1])
        bounded = any(f[0] == 'Lt' and strip(f[1]) == strip(idx) for f in facts)
        rep.ob(bounded, 'R03.4', mark.path, 'unchecked bitmap access %s' % callee_name(t).split('::')[-1],
               'get_unchecked/set_unchecked needs index < bitmap length established by a real (non-debug) test', span_loc(t['span']))
    # sweep scans the bitmap: every caller must establish state '='
    sweep_callers = sorted({f.path for f, b, t in F.callers_of(lambda p: p == GCN + 'sweep')})
    for c in sweep_callers:
        if c == GCN + 'run':
            continue
        fn = F.fn(c)
        probs2, _ = bitmap_state_check(F, fn, rep, 'R03.4', {GCN + 'sweep'})
        rep.ob(not probs2, 'R03.4', c, 'bitmap length before sweep',
               'sweep() frees the objects whose bit is clear: the bitmap must first be sized to objects.len(); here it is %s, so objects beyond its length are never freed' % sorted(set(probs2)),
               fn.loc())
    # a clear bit is the verdict `unreachable: free it`.  Only a collection cycle may create clear bits (GC::run sizes the bitmap,
    # marks, sweeps); every other function that touches the bitmap may only drop bits (truncate / clear / reserve capacity)
    GROW = ('::resize', '::push', '::extend', '::insert', '::fill', '::extend_from_bitslice', '::grow', '::set_elements', '::resize_with', '::append')
    ncreate = 0
    for f_ in F.all_fns:
        if f_.crate != 'lib':
            continue
        for b_, t_ in f_.calls():
            n_ = callee_name(t_)
            if 'bitvec' in n_ and n_.endswith(GROW) and t_['args'] and 'mark_bitmap' in str(sym(f_, t_['args'][0])):
                ncreate += 1
                rep.ob(f_.path == GCN + 'run', 'R03.4', f_.path, 'creates bitmap bits (%s)' % n_.split('::')[-1],
                       'bits of the mark bitmap are created outside a collection cycle: whatever they say about reachability was never computed, '
                       'and the next sweep (at the latest the one in GC::destroy) frees the objects they call unmarked', span_loc(t_['span']))
    rep.count('bitmap_bit_creations', ncreate)
    # sweep keeps list and bitmap in step
    sw = F.fn(GCN + 'sweep')
    tr = [t for b, t in sw.calls() if callee_name(t).endswith('::truncate') and 'BitVec' in callee_name(t)]
    rep.ob(len(tr) == 1 and 'len' in str(sym(sw, tr[0]['args'][1])), 'R03.4', sw.path, 'bitmap follows the list', 'after sweeping the bitmap is cut to objects.len()', sw.loc())

    # ---- R03.5 ---------------------------------------------------------------------------------
    from rules import c13
    c13.check_aliasing(ctx, rep, 'R03.5')

    # ---- R03.6 ---------------------------------------------------------------------------------
    check_who_frees(ctx, rep, 'R03.6')


def check_array_recursion(ctx, rep, rule, names=('mark', 'untrace')):
    """mark / untrace visit everything reachable: on arrays they call themselves for every element"""
    F = ctx.facts()
    # ---- R03.3 ---------------------------------------------------------------------------------
    for name in names:
        fn = F.fn(GCN + name)
        rec = False
        for p in AbsInt(F, fn, max_paths=5000).run():
            vs = [c for c in p.constraints if c[0][0] == 'switch']
            names = [c[1] for c in p.calls]
            if GCN + name in names and any(n.endswith('as_vec_unchecked') or n.endswith('as_vec') for n in names):
                # the recursive call sits inside the loop over the array's elements
                rec = True
        if not rec:
            # ... or the walk keeps its own list of what is still to visit: a loop pops the next object from a local list and,
            # on arrays, puts every element on that list (`pending.extend(elements)`)
            from rules.psc import sym as _sym, unref as _unref
            for h_, body_ in fn.natural_loops():
                pops_ = [t_ for b_, t_ in fn.calls(body_) if callee_name(t_).startswith('alloc::vec::Vec') and callee_name(t_).endswith('::pop')]
                for pt_ in pops_:
                    L_ = _unref(_sym(fn, pt_['args'][0]))
                    for b_, t_ in fn.calls(body_):
                        n_ = callee_name(t_)
                        if n_.endswith(('::extend', '::extend_from_slice', '::append')) and t_['args'] and _unref(_sym(fn, t_['args'][0])) == L_ \
                                and 'as_vec' in str(_sym(fn, t_['args'][1])):
                            rec = True
                            # the list is worked off to the end: the loop is left only where the list answered `empty`; an
                            # early `return` / `break` on another path (an object that is not found, say) abandons what is
                            # still on the list
                            early = []
                            for u_ in sorted(body_):
                                tu_ = fn.term(u_)
                                # leaving the loop towards a panic (an assertion that failed) is not an exit the walk can take and go on
                                outs_ = [v_ for v_ in fn.succ(u_) if v_ not in body_ and any(fn.term(x_)['k'] == 'return' for x_ in fn.reachable(v_))]
                                if not outs_:
                                    continue
                                dv_ = strip(_sym(fn, tu_['op'])) if tu_['k'] == 'switch' else None
                                if dv_ and dv_[0] == 'discr' and isinstance(dv_[1], tuple) and dv_[1][0] == 'call' and dv_[1][1].endswith('::pop'):
                                    continue
                                early.append(u_)
                            rep.ob(not early, rule, fn.path, 'work list emptied',
                                   'the loop that draws from the work list ends only when the list is empty: %s' % (
                                       'no other way out of it' if not early else 'it can also be left from block(s) %s, with objects still waiting on the list (their part of the result is never visited)' % early),
                                   span_loc(fn.term(early[0])['span']) if early and fn.term(early[0]).get('span') else fn.loc())
        if not rec:
            # ... or in the closure handed to for_each over those elements
            from rules.shared import for_each_over
            rec = for_each_over(F, fn, None, 'as_vec', (GCN + name,))
        rep.ob(rec, rule, fn.path, 'array recursion', 'on arrays, %s visits every element (recursive call inside the element loop)' % name, fn.loc())
        # the recursion is conditional on the tag being Array
        tagtest = any(callee_name(t) == 'object::Object::tag' for b, t in fn.calls())
        rep.ob(tagtest, rule, fn.path, 'array test', 'the element loop is guarded by a tag test', fn.loc())



def check_recursion_removes(ctx, rep, rule, name='untrace'):
    """untrace follows arrays into their elements.  What makes that walk end on an array that contains itself, and linear on
    shared sub-arrays, is that a step recurses only AFTER it has taken its own object out of the managed list (a second visit
    finds nothing and stops): every recursive call is dominated by the removal of the object this call was given."""
    F = ctx.facts()
    fn = F.fn(GCN + name)
    dom = fn.dominators()
    removals = [b for b, t in fn.calls() if callee_name(t) in ('alloc::vec::Vec::<T, A>::swap_remove', 'alloc::vec::Vec::<T, A>::remove')]
    n = 0
    for b, t in fn.calls():
        if callee_name(t) != fn.path:
            continue
        n += 1
        ok = any(fn.dominates(r, b) for r in removals)
        rep.ob(ok, rule, fn.path, 'recursive call#%d' % n, 'the walk into the elements happens only after this object was found in and removed from the managed list '
               '(otherwise an array that contains itself is walked forever and shared sub-arrays once per path)', span_loc(t['span']))
    rep.count('%s_recursive_calls' % name, n)


def check_no_static_values(ctx, rep, rule):
    """no item with static lifetime can hold a value of the language: such a value would outlive the collector that manages it
    (released under the static's feet, or never) and be shared between evaluations"""
    F = ctx.facts()
    st = [s for s in F.lib['statics'] if 'Object' in s.get('ty', '') or s.get('interior_mut') or s.get('mut')]
    rep.ob(not st, rule, 'crate', 'static items that can hold values', 'no static / thread_local item of the crate can hold an Object: %s' % [(s['path'], s.get('ty')) for s in st], None)


def check_who_frees(ctx, rep, rule):
    """memory goes back to the allocator only through the collector's sweep, or through free_recursive on a result the caller owns"""
    F = ctx.facts()
    # ---- R03.6 ---------------------------------------------------------------------------------
    destroyers = [d for d in ('object::Float::destroy', 'object::String::destroy', 'object::Array::destroy') if d in F.fns]
    for d in destroyers:
        cs = sorted({f.path for f, b, t in F.callers_of(lambda p, d=d: p == d)})
        rep.ob(cs == ['object::Object::free'], rule, d, 'callers', 'only Object::free destroys boxes: %s' % cs, 'src/object.rs')
    # wherever the release is written: memory goes back to the allocator only in the destroy functions or in Object::free itself
    deallocs = sorted({f.path for f, b, t in F.callers_of(lambda p: p == 'alloc::alloc::dealloc') if f.crate == 'lib'})
    rep.ob(bool(deallocs) and set(deallocs) <= set(destroyers) | {'object::Object::free'}, rule, 'alloc::alloc::dealloc', 'callers',
           'boxes are deallocated only by the destroy functions / Object::free: %s' % deallocs, 'src/object.rs')
    cs = sorted({f.path for f, b, t in F.callers_of(lambda p: p == 'object::Object::free')})
    rep.ob(set(cs) <= {GCN + 'sweep', 'object::Object::free_recursive'}, rule, 'object::Object::free', 'callers', 'only the sweep and free_recursive free objects: %s' % cs, 'src/object.rs')
    cs = sorted({f.path for f, b, t in F.callers_of(lambda p: p == 'object::Object::free_recursive')})
    rep.ob(not cs, rule, 'object::Object::free_recursive', 'callers', 'free_recursive is for the caller of eval (untraced results); nothing in the crate calls it: %s' % cs, 'src/object.rs')
    for n_ in ('core::mem::forget', 'alloc::boxed::Box::<T>::leak', 'core::mem::manually_drop::ManuallyDrop::<T>::new'):
        cs = sorted({f.path for f, b, t in F.callers_of(lambda p, n_=n_: p == n_) if f.crate == 'lib'})
        rep.ob(not cs, rule, n_, 'unused', 'no destructor suppression in the crate: %s' % cs, None)
