"""CSA state: abstract state of the *emitted code* while the compiler's source is interpreted."""
import copy


class H:
    """linear height: const + sum coeff*len(sym); None-like DEAD handled by State.reach"""
    __slots__ = ('c', 'terms')

    def __init__(self, c=0, terms=()):
        self.c = c
        self.terms = tuple(sorted((s, k) for s, k in terms if k != 0))

    def add(self, n):
        return H(self.c + n, self.terms)

    def add_sym(self, sym, k):
        d = dict(self.terms)
        d[sym] = d.get(sym, 0) + k
        return H(self.c, d.items())

    def sub(self, o):
        d = dict(self.terms)
        for s, k in o.terms:
            d[s] = d.get(s, 0) - k
        return H(self.c - o.c, d.items())

    def plus(self, o):
        d = dict(self.terms)
        for s, k in o.terms:
            d[s] = d.get(s, 0) + k
        return H(self.c + o.c, d.items())

    def is_const(self):
        return not self.terms

    def key(self):
        return (self.c, self.terms)

    def __eq__(self, o):
        return isinstance(o, H) and self.key() == o.key()

    def __hash__(self):
        return hash(self.key())

    def __repr__(self):
        s = str(self.c)
        for sym, k in self.terms:
            s += '%+d*len(%s)' % (k, sym)
        return s


class Label:
    __slots__ = ('id', 'h', 'frame', 'reach', 'boundary', 'pos', 'name', 'bound_live', 'stale')

    def __init__(self, id, h, frame, reach, boundary, pos, name=None):
        self.id, self.h, self.frame, self.reach, self.boundary, self.pos, self.name = id, h, frame, reach, boundary, pos, name
        self.bound_live = False
        self.stale = False


class LoopCtx:
    def __init__(self, start, frame):
        self.start = start          # Label
        self.breaks = []            # list of edges (h, frame, reach, what)
        self.frame = frame


class State:
    """abstract state at an emission point"""
    _ids = [0]

    def __init__(self):
        self.h = H(0)
        self.reach = True
        self.frame = 0              # flow frame id relative to node entry (0 = entry frame)
        self.frames = []            # stack of saved (frame id) for symbol contexts
        self.next_frame = 1
        self.last = '?'             # abstract Compiler.last_instruction: opcode name | 'None' | '?' (unknown at entry)
        self.pos = 0                # id of the current end-of-buffer position
        self.next_pos = 1
        self.cur = None             # instruction being assembled: dict(op, operands[], h_before, pos)
        self.bound = []             # edges bound to the current position
        self.pending = {}           # pos id -> dict(op, h (after own pops), frame, reach)
        self.instr_at = {}          # pos id -> opcode
        self.loops = []             # local loop contexts
        self.outer_loops = 'unknown'  # 'unknown' | 'empty'
        self.saved_loops = {}       # var -> (loops, outer)
        self.scopes = 0             # symbol scope depth relative to entry
        self.ctx_depth = 0          # symbol context depth relative to entry
        self.assume = {}            # context assumptions made on this path
        self.escapes = []           # (kind, dh H, frame_rel, reach)
        self.violations = []        # (oblig, construct, text)
        self.trace = []             # arm choices for reporting
        self.last_emit = None       # (pos_before, op, h_before, last_before)
        self.sym_scope = {}         # symbol id -> 'Local'|'Global' constraint
        self.facts = {}             # misc path facts (list non-empty, operator constraint, ...)
        self.emits = []             # emitted (op, operands prov) for evidence
        self.entry_frame_fn = None  # label id of function entry for frame
        self.fn_entries = {}        # frame id -> pos id where the frame's code starts
        self.in_function = None     # True/False/None(unknown) for the entry frame
        self.errstate = None
        self.labels = {}
        self.dirty = set()          # what a failed callee may have left behind (scopes, contexts, loops, code, last)
        self.fused = []
        self.code = []              # emitted instruction stream of this path (ops and summary blobs)
        self.emitted = False
        self.symops = []            # order of symbol-table operations and body compilations on this path (R09.5)
        self.fall_pending = None    # frame id of a function body whose symbol context was closed while its code could still run on
        self.defs0 = False          # a name was declared in the scope that was current at entry (not inside a scope / context opened since)

    def clone(self):
        s = copy.copy(self)
        s.frames = list(self.frames)
        s.bound = list(self.bound)
        s.pending = dict(self.pending)
        s.instr_at = dict(self.instr_at)
        s.loops = [copy.copy(l) for l in self.loops]
        for l, lo in zip(s.loops, self.loops):
            l.breaks = list(lo.breaks)
        s.saved_loops = dict(self.saved_loops)
        s.assume = dict(self.assume)
        s.escapes = list(self.escapes)
        s.violations = list(self.violations)
        s.trace = list(self.trace)
        s.sym_scope = dict(self.sym_scope)
        s.facts = dict(self.facts)
        s.emits = list(self.emits)
        s.fused = list(self.fused)
        s.dirty = set(self.dirty)
        s.symops = list(self.symops)
        s.code = [dict(c) for c in self.code]
        s.fn_entries = dict(self.fn_entries)
        s.labels = {k: copy.copy(v) for k, v in self.labels.items()}
        s.cur = dict(self.cur, operands=list(self.cur['operands'])) if self.cur else None
        return s

    def viol(self, oblig, text):
        self.violations.append((oblig, ' / '.join(self.trace) or '<entry>', text))

    def key(self):
        """identity of an exit state for summary purposes"""
        return (self.h.key() if self.reach else None, self.last, self.reach, self.frame)
