"""C05 — every failure is an error value: no input crashes or hangs the interpreter."""
import re as _re
from mirlib import *
from rules import psc
from rules.psc import sym, strip, facts_at, implies_lt, macro_of, guards, no_redef_between, mlocals

META = {
    'title': 'Every failure is an error value: no input crashes or hangs the interpreter',
    'explanation': 'PSC: every panic source (MIR Assert terminators for overflow / division / bounds, calls to unwrap/expect, core::panicking::*, Index::index and the panicking Vec/String/str methods) in every function reachable from the public entry points and the binary is collected and must be discharged by a checked local argument: a constant condition (D0), a dominating guard over the same places (D1), the same guard found on every enumerated path reaching the site (D1p, loops cut at two visits; helpers that are new with respect to the pinned tree are spliced into their callers first), a sign/size/field-range/countdown argument (D2), or a structural invariant established by another rule of this suite (D3, one named row per symbol). TRM: every loop of lexer/parser/compiler passes a strict consumer, a loop counter step or a shrinking-container step on every iteration and every recursion cycle consumes input. R05.3/R05.4: error values are propagated, the CLI does not unwrap them. R05.5 the number of call frames is bounded by a test with an error edge.',
    'not_decided': ['whether a debug_assert! that no rule proves can fail (accepted as an assumption when its condition has no side effect and the function has no unsafe operation; counted under discharge class DA)', 'termination of the VM loop for programs that loop by themselves (halting problem)', 'time/memory limits, host stack size'],
}

SIZE_SOURCES = ('::len', '::len_utf8', '::count', '::capacity')


def small_or_len(v):
    v = strip(v)
    if v[0] == 'len':
        return True
    if v[0] == 'int':
        return abs(v[1]) <= 64
    if v[0] == 'call' and any(v[1].endswith(s) for s in SIZE_SOURCES):
        return True
    if v[0] == 'cast':
        return small_or_len(v[1])
    return False


NARROW = ('u8', 'u16', 'u32', 'bool', 'char')


def field_bounded(F, adt, name, depth=0):
    """every value ever stored in field `name` of `adt` (assignments anywhere in the crate and struct literals) is a widened
    narrow unsigned integer or a small constant: the field never exceeds 2^32"""
    key = ('_fb', adt, name)
    cache = F.__dict__.setdefault('_fb_cache', {})
    if key in cache:
        return cache[key]
    cache[key] = False     # cycles: assume nothing
    a = F.adts.get(adt)
    if not a or a['kind'] != 'Struct':
        return False
    idx = next((i for i, f in enumerate(a['variants'][0]['fields']) if f['name'] == name), None)
    if idx is None:
        return False
    ok = True
    n = 0
    for f in F.all_fns:
        for b, si, st in f.stmts():
            if st['k'] != 'assign':
                continue
            pr = st['place']['proj']
            val = None
            if pr and isinstance(pr[-1], dict) and pr[-1].get('name') == name and pr[-1].get('of') == adt:
                if st['rv']['k'] == 'use':
                    val = sym(f, st['rv']['op'])
                elif st['rv']['k'] == 'cast':
                    val = ('cast', sym(f, st['rv']['op']), st['rv']['to'], st['rv'].get('from'))
                else:
                    ok = False
            elif st['rv']['k'] == 'aggregate' and st['rv'].get('adt') == adt and idx < len(st['rv']['ops']):
                val = sym(f, st['rv']['ops'][idx])
            elif st['rv']['k'] in ('ref', 'rawptr') and st['rv'].get('mut') and any(isinstance(e, dict) and e.get('name') == name and e.get('of') == adt for e in st['rv']['place']['proj']):
                ok = False      # a &mut to the field escapes
            if val is not None:
                n += 1
                if not bounded_small(F, f, val, depth + 1):
                    ok = False
        for b, t in f.calls():
            d = t['dest']['proj']
            if d and isinstance(d[-1], dict) and d[-1].get('name') == name and d[-1].get('of') == adt:
                n += 1
                if not bounded_small(F, f, sym_call(f, t), depth + 1):
                    ok = False
    cache[key] = ok and n > 0
    return cache[key]


def sym_call(fn, t):
    return ('call', callee_name(t), tuple(sym(fn, a) for a in t['args']))


def bounded_small(F, fn, v, depth=0):
    """the value is provably below 2^32 (so that sums of two such values cannot overflow a 64-bit usize)"""
    if depth > 4 or not isinstance(v, tuple) or not v:
        return False
    if v[0] == 'int':
        return 0 <= v[1] < (1 << 32)
    if v[0] == 'cast':
        if len(v) > 3 and v[3] in NARROW:
            return True
        return bounded_small(F, fn, v[1], depth + 1) if len(v) > 3 and v[3] in ('usize', 'u64') else False
    if v[0] == 'call' and v[1].endswith('::from') and any(('From<%s>' % n_) in v[1] for n_ in NARROW):
        return True
    if v[0] == 'field' and isinstance(v[1], tuple) and v[1][0] in ('deref', 'param', 'mlocal'):
        base = v[1][1] if v[1][0] == 'deref' else v[1]
        if isinstance(base, tuple) and base and base[0] in ('param', 'mlocal'):
            ty = fn.local_ty(base[1])
            ty = ty.replace("&'{erased} mut ", '').replace("&'{erased} ", '')
            return field_bounded(F, ty, v[2], depth + 1)
    return False


def narrow_unsigned(v):
    """value is a widening cast of a u8/u16/u32"""
    return isinstance(v, tuple) and v[0] == 'cast' and v[2] in ('usize', 'u64') and True


_BITS = {'u8': 8, 'u16': 16, 'u32': 32, 'u64': 64, 'usize': 64, 'i8': 8, 'i16': 16, 'i32': 32, 'i64': 64, 'isize': 64, 'bool': 1, 'char': 21}


def _ty_range(ty):
    n = _BITS.get(ty)
    if n is None:
        return None
    if ty.startswith('i'):
        return (-(1 << (n - 1)), (1 << (n - 1)) - 1)
    return (0, (1 << n) - 1)


def width_interval(fn, v, depth=0):
    """(lo, hi) of a value made of integer conversions, constants, shifts by constants, sums, masks: what the WIDTHS of the
    types it was converted from allow (`num as isize + ((ip as isize) << 16)` with num: u16, ip: u32 is at most 2^48)"""
    if depth > 10 or not isinstance(v, tuple) or not v:
        return None
    if v[0] == 'int':
        return (v[1], v[1])
    if v[0] == 'cast' and len(v) > 3 and isinstance(v[2], str) and isinstance(v[3], str):
        src, dst = _ty_range(v[3]), _ty_range(v[2])
        inner = width_interval(fn, v[1], depth + 1)
        if src is None or dst is None:
            return None
        r = src if inner is None else (max(src[0], inner[0]), min(src[1], inner[1]))
        if dst[0] <= r[0] and r[1] <= dst[1]:
            return r            # the conversion keeps the value
        return dst
    if v[0] == 'param':
        return _ty_range(fn.local_ty(v[1]))
    if v[0] == 'checked':
        v = ('binop', v[1], v[2], v[3])
    if v[0] == 'binop' and len(v) > 3:
        a, b = width_interval(fn, v[2], depth + 1), width_interval(fn, v[3], depth + 1)
        op = v[1].replace('WithOverflow', '')
        if op == 'BitAnd':
            for x in (a, b):
                if x is not None and x[0] == x[1] and x[0] >= 0:
                    return (0, x[0])
        if a is None or b is None:
            return None
        if op == 'Add':
            return (a[0] + b[0], a[1] + b[1])
        if op == 'Sub':
            return (a[0] - b[1], a[1] - b[0])
        if op == 'Mul' and a[0] >= 0 and b[0] >= 0:
            return (a[0] * b[0], a[1] * b[1])
        if op == 'Shl' and b[0] == b[1] and 0 <= b[0] < 64 and a[0] >= 0:
            return (a[0] << b[0], a[1] << b[0])
        if op == 'Shr' and b[0] == b[1] and 0 <= b[0] < 64 and a[0] >= 0:
            return (a[0] >> b[0], a[1] >> b[0])
        if op in ('BitOr', 'BitXor') and a[0] >= 0 and b[0] >= 0:
            return (0, (1 << max(a[1].bit_length(), b[1].bit_length())) - 1)
    return None


def discharge(F, site):
    fn = site['f']
    t = site['term']
    b = site['block']
    if site['kind'] == 'assert':
        cond = sym(fn, t['cond'])
        kind = t['msg']
        c = cond
        # D0: constant condition
        if c[0] == 'binop' and c[1] in ('Lt', 'Le') and strip(c[2])[0] == 'int' and strip(c[3])[0] == 'int':
            a, bb = strip(c[2])[1], strip(c[3])[1]
            if (a < bb) == t['expected'] or (c[1] == 'Le' and (a <= bb) == t['expected']):
                return 'D0', 'constant condition %s < %s' % (a, bb)
        if c[0] == 'overflowflag':
            op, a, bb, ty = c[1], c[2], c[3], c[4]
            if strip(a)[0] == 'int' and strip(bb)[0] == 'int':
                return 'D0', 'constant operands'
            facts = facts_at(fn, b)
            if op in ('Add', 'Sub', 'Mul') and _ty_range(ty) is not None:
                # what the operand types allow stays inside the result type
                w = width_interval(fn, ('binop', op, a, bb))
                tr = _ty_range(ty)
                if w is not None and tr[0] <= w[0] and w[1] <= tr[1]:
                    return 'D2', 'the operands are conversions of narrower integers: the result is between %d and %d, inside %s' % (w[0], w[1], ty)
            if op == 'Add' and ty in ('usize', 'u64'):
                if small_or_len(bb) or small_or_len(a):
                    return 'D2', 'usize counter plus a length/small constant cannot overflow (bounded by memory size)'
                if a[0] == 'cast' and bb[0] == 'cast' and a[2] == 'usize' and bb[2] == 'usize':
                    return 'D2', 'sum of two widened narrow integers'
                if bounded_small(F, fn, a) and bounded_small(F, fn, bb):
                    return 'D2', 'sum of two values that are widened narrow integers (fields: every store is one)'
            if op == 'Add' and ty in ('isize', 'i64'):
                # index += len as isize, guarded by index < 0
                for x, y in ((a, bb), (bb, a)):
                    if small_or_len(y):
                        for f in facts:
                            if f[0] == 'Lt' and strip(f[1]) == strip(x) and strip(f[2]) == ('int', 0):
                                return 'D2', 'negative value plus a length cannot overflow'
                    # the mutated local is read right after the guard: x is an mlocal compared `< 0`
            if op == 'Sub' and ty in ('usize', 'u64') and strip(bb) == ('int', 1) and strip(a)[0] == 'len':
                # X.len() - 1 right after X.push(..): a block that dominates this one pushed onto the same vector and the function
                # never shrinks it
                cont = strip(a)[1]
                shr = ('::pop', '::truncate', '::clear', '::remove', '::swap_remove', '::drain', '::split_off', '::retain', '::set_len')
                pushes = [pb for pb, pt in fn.calls() if callee_name(pt) == 'alloc::vec::Vec::<T, A>::push' and psc.unref(sym(fn, pt['args'][0])) == cont
                          and pb != b and fn.dominates(pb, b)]
                shrinks = [pb for pb, pt in fn.calls() if callee_name(pt).startswith('alloc::vec::Vec') and callee_name(pt).endswith(shr)
                           and pt['args'] and psc.unref(sym(fn, pt['args'][0])) == cont]
                if pushes and not shrinks:
                    return 'D2', 'len() - 1 after a push onto the same vector (which this function never shrinks)'
            if op == 'Sub' and ty in ('usize', 'u64', 'u16', 'u32') and strip(bb) == ('int', 1):
                # |x| - 1 under x < 0 (or x != 0): the magnitude of a non-zero number is at least 1
                a_ = strip(a)
                if a_[0] == 'call' and a_[1].endswith(('::unsigned_abs',)) and len(a_[2]) == 1:
                    x_ = strip(a_[2][0])
                    for f in facts:
                        if (f[0] in ('Lt', 'Ne') and strip(f[1]) == x_ and strip(f[2]) == ('int', 0)) or (f[0] == 'Gt' and strip(f[1]) == x_ and strip(f[2]) == ('int', 0)):
                            return 'D1', 'the magnitude of a value known to be non-zero is at least 1'
            if op == 'Sub' and ty in ('usize', 'u64', 'u16', 'u32'):
                # a - b guarded by b <= a / a >= b / a > b-1
                for f in facts:
                    if f[0] in ('Le', 'Lt') and strip(f[1]) == strip(bb) and strip(f[2]) == strip(a):
                        return 'D1', 'guarded by %s <= %s' % ('b', 'a')
                    if f[0] in ('Ge', 'Gt') and strip(f[1]) == strip(a) and strip(f[2]) == strip(bb):
                        return 'D1', 'guarded by a >= b'
                    # a - k with a constant k, guarded by a > k-1 / a >= k / (k = 1) a != 0
                    if strip(bb)[0] == 'int' and strip(f[1]) == strip(a) and strip(f[2])[0] == 'int':
                        k, n = strip(bb)[1], strip(f[2])[1]
                        if (f[0] == 'Gt' and n >= k - 1) or (f[0] == 'Ge' and n >= k) or (f[0] == 'Ne' and n == 0 and k == 1):
                            return 'D1', 'guarded by a %s %d' % ({'Gt': '>', 'Ge': '>=', 'Ne': '!='}[f[0]], n)
                    if strip(bb)[0] == 'int' and strip(f[2]) == strip(a) and strip(f[1])[0] == 'int':
                        k, n = strip(bb)[1], strip(f[1])[1]
                        if (f[0] == 'Lt' and n >= k - 1) or (f[0] == 'Le' and n >= k):
                            return 'D1', 'guarded by %d %s a' % (n, {'Lt': '<', 'Le': '<='}[f[0]])
            return None
        if kind == 'BoundsCheck' and c[0] == 'binop' and c[1] == 'Lt':
            facts = facts_at(fn, b)
            if implies_lt(facts, c[2], c[3]):
                return 'D1', 'index < len established by a dominating guard'
            # TABLE[kind as usize]: the index is the discriminant of a field-less enum, the table (an array of constant length) has
            # an entry for the largest one
            ix, ln = c[2], strip(c[3])
            while isinstance(ix, tuple) and ix and ix[0] == 'cast':
                ix = ix[1]
            if ln[0] == 'int' and isinstance(ix, tuple) and ix and ix[0] == 'discr' and len(ix) > 2:
                vs = F.enum_variants(ix[2]) if ix[2] in F.adts else []
                ds = [d for _, d in vs]
                if ds and all(isinstance(d, int) and 0 <= d < ln[1] for d in ds):
                    return 'D2', 'the index is a discriminant of %s (at most %d), the array has %d elements' % (ix[2], max(ds), ln[1])
            # len fact may be phrased on PtrMetadata/len of the same slice
            return None
        if kind in ('DivisionByZero', 'RemainderByZero'):
            facts = facts_at(fn, b)
            # cond is Eq(divisor, 0) expected false
            if c[0] == 'binop' and c[1] == 'Eq':
                d = strip(c[2])
                for f in facts:
                    if f[0] == 'Ne' and strip(f[1]) == d and strip(f[2]) == ('int', 0):
                        return 'D1', 'divisor != 0 established by a dominating guard'
            return None
        if kind == 'Overflow' and c[0] == 'binop' and c[1] == 'Lt':
            return None
        return None
    # calls
    n = site['what']
    args = [sym(fn, a) for a in t['args']]
    facts = facts_at(fn, b)
    if psc.is_index_call(n) and len(args) == 2:
        recv, idx = args
        r = psc.unref(recv)
        # v[v.len() - k ..]: the tail that starts k elements before the end (the subtraction is its own, separately discharged, site)
        ix = strip(idx)
        if ix[0] == 'agg' and str(ix[1]).endswith('RangeFrom') and ix[3]:
            st_ = strip(ix[3][0])
            if st_[0] == 'checked':
                st_ = ('binop', st_[1], st_[2], st_[3])
            if st_[0] == 'binop' and st_[1] == 'Sub' and strip(st_[2]) == ('len', r):
                return 'D2', 'the slice starts at len() - k of the same vector, hence within it'
        for f in facts:
            # idx < recv.len()  /  idx >= len -> return
            for lo, hi in (((f[1], f[2]) if f[0] == 'Lt' else (f[2], f[1]) if f[0] == 'Gt' else (None, None)),):
                if lo is None:
                    continue
                if strip(lo) == strip(idx) and strip(hi) == ('len', r):
                    return 'D1', 'index < len() of the same container established by a dominating guard'
        return None
    if n.endswith(('Vec::<T, A>::split_off', 'Vec::<T, A>::drain')) and len(args) == 2:
        # at = X.len() - k (the subtraction is its own, separately discharged, site): at <= X.len()
        recv, at = psc.unref(args[0]), args[1]
        if n.endswith('::drain'):
            at = strip(at)
            if at[0] == 'agg' and str(at[1]).endswith('RangeFrom') and at[3]:
                at = at[3][0]
            else:
                return None
        at = strip(at)
        if at[0] == 'binop' and at[1] == 'Sub' and strip(at[2]) == ('len', recv):
            return 'D2', 'the cut position is len() - k of the same vector, hence within it'
        # the cut position n is within the vector because a dominating guard says so: len() > n / len() >= n
        for f in facts:
            if f[0] in ('Gt', 'Ge') and strip(f[1]) == ('len', recv) and strip(f[2]) == at:
                return 'D1', 'cut position <= len() of the same vector established by a dominating guard'
            if f[0] in ('Lt', 'Le') and strip(f[2]) == ('len', recv) and strip(f[1]) == at:
                return 'D1', 'cut position <= len() of the same vector established by a dominating guard'
        return None
    if n.endswith('::unwrap') or n.endswith('::expect'):
        v = strip(args[0])
        # unwrap of x dominated by is_some(x) / is_ok(x)
        for f in facts:
            if f[0] == 'callbool' and f[2] and f[1][1].endswith(('is_some', 'is_ok')) and strip(f[1][2][0]) == v:
                return 'D1', 'dominated by is_some()/is_ok() on the same value'
        return None
    return None


# ---- D1p: path-sensitive guard discharge ---------------------------------------------------------
# The dominance argument of D1 needs the guard and the access to name the same single-definition temporaries.  After a
# helper has been spliced in (mirlib.inline_new_helpers) the guarded value travels through `Ok(..)` and `?`, which only a
# path-sensitive evaluation sees through.  D1p enumerates the paths of the body (loops cut at two visits), and requires on
# EVERY path reaching the site a branch taken earlier on that path whose condition, with the values of that path, states
# index < count of the same container, with no call in between that could change the container.
_NONMUT = ('::len', '::is_empty', 'Index<I>>::index', '::as_ptr', '::iter', '::chars', '::char_indices', 'Deref>::deref', '::as_str',
           '::count', '::nth', '::unwrap', '::get', '::first', '::last', 'IndexMut<I>>::index_mut', '::as_slice', '::as_bytes',
           'Iterator::next', '::into_iter', '::clone', 'object::Object::as_vec', 'object::Object::as_str')


def _pv_strip(v):
    while isinstance(v, tuple) and v and v[0] == 'cast' and v[1][0] in ('ref', 'cast'):
        v = v[1]
    return v


_VIEW = ('Deref>::deref', 'DerefMut>::deref_mut', '::as_slice', '::as_mut_slice', '::as_str', '::as_mut_str', '::as_mut')


def _container(v, env=None, depth=0):
    """identity of the container a reference designates: the place key, or the producing call.  A reference obtained through
    deref()/as_str() of X designates X's buffer."""
    v = _pv_strip(v)
    if depth > 8:
        return ('val', v)
    if isinstance(v, tuple) and v and v[0] == 'call' and v[1].endswith(_VIEW) and v[2]:
        return _container(v[2][0], env, depth + 1)
    if isinstance(v, tuple) and v and v[0] == 'ref':
        key = v[1]
        if env is not None and key.endswith('.*') and key[:-2] in env:
            inner = _pv_strip(env[key[:-2]])
            if isinstance(inner, tuple) and inner and (inner[0] == 'ref' or (inner[0] == 'call' and inner[1].endswith(_VIEW))):
                return _container(inner, env, depth + 1)
        return ('place', key)
    if isinstance(v, tuple) and v and v[0] == 'call':
        return ('val', v[1], tuple(_container(a, env, depth + 1) for a in v[2]))
    if isinstance(v, tuple) and len(v) == 2 and v[0] == 'local' and isinstance(v[1], int):
        # a reference held in a parameter / local designates what `&*_n` designates
        return ('place', '_%d.*' % v[1])
    return ('val', v)


def _count_of(v, env=None):
    """('count', unit, container) when v is a length/count of a container"""
    w = v
    while isinstance(w, tuple) and w and w[0] == 'cast' and w[3] in ('IntToInt',) and w[2] in ('usize', 'u64'):
        w = w[1]
    if isinstance(w, tuple) and w:
        if w[0] == 'call' and w[1] in psc.LEN_FNS and len(w[2]) == 1:
            return ('count', 'len', _container(w[2][0], env))
        if w[0] == 'unop' and w[1] == 'PtrMetadata':
            return ('count', 'len', _container(w[2], env))
        if w[0] == 'call' and w[1].endswith('::count') and w[2] and w[2][0][0] == 'call' and w[2][0][1].endswith('::chars'):
            return ('count', 'chars', _container(w[2][0][2][0], env))
    return None


def _path_data(F, fn, block):
    key = ('_d1p', fn.path, fn.crate, block)
    cache = F.__dict__.setdefault('_d1p_cache', {})
    if key not in cache:
        if len(fn.blocks) > 260:
            # the dispatch function: enumerate only the paths of the opcode arm the site belongs to (facts established
            # before the dispatch are not used)
            cache[key] = None
            try:
                from rules import vmx as _vmx
                dfn, header, swb, arms, loop_body = _vmx.find_dispatch(F)
                if dfn is fn:
                    for opname, entry in arms.items():
                        if block in fn.reachable(entry, stop={header}):
                            ai = AbsInt(F, fn, {}, stop_blocks={header}, max_paths=6000, watch={block})
                            ps = ai.run(entry)
                            cache[key] = None if ai.truncated else ps
                            break
            except CheckerError:
                pass
        else:
            ai = AbsInt(F, fn, max_paths=6000, watch={block})
            ps = ai.run()
            cache[key] = None if ai.truncated else ps
    return cache[key]


_FILTER_CACHE = {}


def filtered_facts(F, I, env):
    """[(op, a, b, call-block)] comparisons that hold of the value I because it is the payload that survived an
    `Option::filter(|&x| x < bound)`: I = okval / unwrap / `?` of ok_or(..) / ok_or_else(..) / the filter itself.  The closure's MIR is
    read: a body that returns one comparison between its argument and a captured value (`x < len`, `len > x`, `x <= last` ...);
    the captured value is what the closure was built with in the caller's environment."""
    v = simp(I)
    for _ in range(12):
        if not isinstance(v, tuple) or not v:
            return []
        if v[0] in ('okval', 'someval', 'cast') and len(v) > 1 and v[0] != 'cast':
            v = v[1]
        elif v[0] == 'call' and v[1].endswith(('Option::<T>::ok_or_else', 'Option::<T>::ok_or', 'Option::<T>::unwrap', 'Option::<T>::expect',
                                               'Result::<T, E>::unwrap', 'Result::<T, E>::expect', 'Option::<T>::unwrap_unchecked')) and v[2]:
            v = v[2][0]
        elif v[0] == 'field' and v[2] == '0' and v[1][0] == 'downcast' and v[1][2] in ('Some', 'Ok'):
            v = v[1][1]
        elif v[0] == 'call' and v[1].endswith('Option::<T>::filter') and len(v[2]) == 2:
            break
        else:
            return []
    else:
        return []
    clo = v[2][1]
    while isinstance(clo, tuple) and clo and clo[0] == 'ref' and env is not None and clo[1] in env:
        clo = env[clo[1]]
    if not (isinstance(clo, tuple) and clo and clo[0] == 'closure'):
        return []
    cpath, caps = clo[1], clo[2]
    cf = F.fns.get(cpath)
    if cf is None:
        return []
    if cpath not in _FILTER_CACHE:
        rets = []
        for p in AbsInt(F, cf, max_paths=200).run():
            if p.exit == 'return':
                rets.append(simp(p.env.get('_0')))
        _FILTER_CACHE[cpath] = rets
    rets = _FILTER_CACHE[cpath]
    if len(rets) != 1 or not (isinstance(rets[0], tuple) and rets[0] and rets[0][0] == 'binop' and rets[0][1] in ('Lt', 'Le', 'Gt', 'Ge')):
        return []
    r = rets[0]

    def subst(x):
        # the closure's own argument (`&x` or `x`, possibly through the pattern `|&x|`) is the filtered payload
        y = x
        nder = 0
        while isinstance(y, tuple) and y and y[0] in ('deref', 'cast'):
            y = y[1]
            nder += 1
        if y == ('local', 2):
            return I
        if isinstance(y, tuple) and y and y[0] == 'field' and isinstance(y[1], tuple) and y[1] in (('deref', ('local', 1)), ('local', 1)) and str(y[2]).isdigit():
            k = int(y[2])
            if k < len(caps):
                c = caps[k]
                for _ in range(4):
                    if isinstance(c, tuple) and c and c[0] == 'ref' and env is not None and c[1] in env:
                        c = env[c[1]]
                    else:
                        break
                return c
        return None
    a, b = subst(r[2]), subst(r[3])
    if a is None or b is None:
        return []
    return [(r[1], a, b, v[3] if len(v) > 3 else None)]


def closure_comparison(F, cpath):
    """(op, left, right) with left/right in {'arg', ('cap', k)} when the closure body is one comparison between its argument and a
    captured value, else None"""
    cf = F.fns.get(cpath)
    if cf is None:
        return None
    rets = [simp(p.env.get('_0')) for p in AbsInt(F, cf, max_paths=200).run() if p.exit == 'return']
    if len(rets) != 1 or not (isinstance(rets[0], tuple) and rets[0] and rets[0][0] == 'binop' and rets[0][1] in ('Lt', 'Le', 'Gt', 'Ge')):
        return None

    def cls(x):
        y = x
        while isinstance(y, tuple) and y and y[0] in ('deref', 'cast'):
            y = y[1]
        if y == ('local', 2):
            return 'arg'
        if isinstance(y, tuple) and y and y[0] == 'field' and y[1] in (('deref', ('local', 1)), ('local', 1)) and str(y[2]).isdigit():
            return ('cap', int(y[2]))
        return None
    a, b = cls(rets[0][2]), cls(rets[0][3])
    if a is None or b is None:
        return None
    return rets[0][1], a, b


def _lt_established(p, pos, I, want_count, env):
    """a constraint before position pos on path p that states I < want_count, not invalidated afterwards"""
    for (op, a, b, cb) in filtered_facts(p.F if hasattr(p, 'F') else _CUR_F[0], I, env):
        if op == 'Gt':
            a, b, op = b, a, 'Lt'
        if op == 'Lt' and a == I and _count_of(b, env) == want_count:
            # the bound was read before the filter ran; nothing between that call and the access may change the container
            frm = None
            for k, cl in enumerate(p.calls):
                if cl[1].endswith('Option::<T>::filter') and (cb is None or cl[0] == cb):
                    frm = p.callpos[k]
            lens = [p.callpos[k] for k, cl in enumerate(p.calls) if _count_of(('call', cl[1], cl[2]), env) == want_count and p.callpos[k] < pos]
            start = min(lens) if lens else frm
            if start is not None and _stable_after(p, start, pos, want_count[2], env):
                return True
    for ci, (what, val, cb) in enumerate(p.constraints):
        if p.cpos[ci] >= pos or what[0] != 'switch':
            continue
        c = what[1]
        truth = None if val is None else bool(val)
        if truth is None:
            truth = True      # the otherwise edge of a bool switch is `true`
        while isinstance(c, tuple) and c[0] == 'unop' and c[1] == 'Not':
            c = c[2]
            truth = not truth
        if not (isinstance(c, tuple) and c[0] == 'binop' and c[1] in ('Lt', 'Le', 'Gt', 'Ge')):
            continue
        op = c[1]
        if not truth:
            op = {'Lt': 'Ge', 'Le': 'Gt', 'Gt': 'Le', 'Ge': 'Lt'}[op]
        a, b = c[2], c[3]
        if op == 'Gt':
            a, b, op = b, a, 'Lt'
        if op == 'Ge':
            a, b, op = b, a, 'Le'
        if op == 'Le':
            # a + 1 <= b  is  a < b
            a1 = a
            while isinstance(a1, tuple) and a1[0] == 'cast':
                a1 = a1[1]
            if a1[0] == 'field' and a1[2] == '0' and a1[1][0] == 'binop' and a1[1][1] == 'AddWithOverflow':
                a1 = ('binop', 'Add', a1[1][2], a1[1][3], a1[1][4])
            if a1[0] == 'binop' and a1[1] == 'Add' and int_of(a1[3]) == 1:
                a, op = a1[2], 'Lt'
            elif a1[0] == 'binop' and a1[1] == 'Add' and int_of(a1[2]) == 1:
                a, op = a1[3], 'Lt'
        if op != 'Lt':
            continue
        if a != I or _count_of(b, env) != want_count:
            continue
        if _stable_after(p, p.cpos[ci], pos, want_count[2], env):
            return True
    # the index is a constant k and the path has established the count itself: `match X.len() { n => .. }` / `X.len() == n` with k < n
    k = int_of(I)
    if k is not None:
        for ci, (what, val, cb) in enumerate(p.constraints):
            if p.cpos[ci] >= pos or what[0] != 'switch':
                continue
            c = what[1]
            n = None
            if isinstance(val, int) and not isinstance(val, bool) and _count_of(c, env) == want_count:
                n = val                                   # switch on the count itself, arm of the value n
            elif isinstance(c, tuple) and c and c[0] == 'binop' and c[1] in ('Eq', 'Ne'):
                tv = True if val is None else bool(val)
                eq = tv if c[1] == 'Eq' else not tv
                for x, y in ((c[2], c[3]), (c[3], c[2])):
                    if eq and _count_of(x, env) == want_count and int_of(y) is not None:
                        n = int_of(y)
            if n is not None and k < n and _stable_after(p, p.cpos[ci], pos, want_count[2], env):
                return True
    # a resize(X, I + 1, ..) earlier on the path makes X.len() == I + 1
    if want_count[1] == 'len':
        for k, cl in enumerate(p.calls):
            if p.callpos[k] < pos and cl[1].endswith('Vec::<T, A>::resize') and len(cl[2]) >= 2 and _container(cl[2][0], env) == want_count[2]:
                n = cl[2][1]
                while isinstance(n, tuple) and n[0] == 'cast':
                    n = n[1]
                if n[0] == 'field' and n[2] == '0' and n[1][0] == 'binop' and n[1][1] == 'AddWithOverflow':
                    n = ('binop', 'Add', n[1][2], n[1][3], n[1][4])
                if n[0] == 'binop' and n[1] == 'Add' and ((n[2] == I and int_of(n[3]) == 1) or (n[3] == I and int_of(n[2]) == 1)):
                    if _stable_after(p, p.callpos[k], pos, want_count[2], env):
                        return True
    return False


def _stable_after(p, frm, pos, cont, env):
    """no call between positions frm and pos (exclusive) could change the length of the container"""
    for k, cl in enumerate(p.calls):
        if frm < p.callpos[k] < pos:
            if any(_container(x, env) == cont for x in cl[2] if isinstance(x, tuple)) and not any(cl[1].endswith(s) for s in _NONMUT):
                return False
    return True


def _yielded_index(I, env):
    """container X when I is an index the standard library yields for X: the counter of `X.iter().enumerate()` or the
    result of `X.iter().position(..)` / `rposition(..)`; such an index is below X.len()"""
    v = I
    while isinstance(v, tuple) and v and v[0] == 'cast':
        v = v[1]
    src = None
    # Some((i, _)) payload of Enumerate::next
    c = None
    if v[0] == 'field' and v[2] == '0' and v[1][0] == 'field' and v[1][2] == '0' and v[1][1][0] == 'downcast' and v[1][1][2] == 'Some':
        c = v[1][1][1]
    elif v[0] == 'field' and v[2] == '0' and v[1][0] == 'okval':
        c = v[1][1]
    if c is not None:
        if c[0] == 'call' and c[1].endswith(('Iterator>::next', 'Iterator::next')) and c[2]:
            it = c[2][0]
            it = env.get(it[1], it) if it[0] == 'ref' else it
            for _ in range(4):
                if it[0] == 'call' and it[1].endswith('IntoIterator>::into_iter') and it[2]:
                    it = it[2][0]
            if it[0] == 'call' and it[1].endswith('::enumerate') and it[2]:
                src = it[2][0]
    # Some(i) payload of position / rposition
    c = v[1][1] if (v[0] == 'field' and v[2] == '0' and v[1][0] == 'downcast' and v[1][2] == 'Some') else (v[1] if v[0] == 'okval' else None)
    if c is not None:
        if c[0] == 'call' and c[1].endswith(('::position', '::rposition')) and c[2]:
            src = c[2][0]
            src = env.get(src[1], src) if src[0] == 'ref' else src
    # Some(i) payload of `X.iter().enumerate().find_map(|(i, x)| cond.then_some(i))`: the counter of the element that was found
    fm = None
    if v[0] == 'field' and v[2] == '0' and v[1][0] == 'downcast' and v[1][2] == 'Some':
        fm = v[1][1]
    elif v[0] == 'okval':
        fm = v[1]
    if src is None and fm is not None and fm[0] == 'call' and fm[1].endswith('::find_map') and len(fm[2]) == 2:
        it = fm[2][0]
        it = env.get(it[1], it) if it[0] == 'ref' else it
        clo = fm[2][1]
        clo = env.get(clo[1], clo) if clo[0] == 'ref' else clo
        F_ = _CUR_F[0]
        if it[0] == 'call' and it[1].endswith('::enumerate') and it[2] and clo[0] == 'closure' and F_ is not None and clo[1] in F_.fns:
            yields_counter = True
            n_ret = 0
            for cp_ in AbsInt(F_, F_.fns[clo[1]], max_paths=50).run():
                if cp_.exit != 'return':
                    continue
                n_ret += 1
                r_ = simp(cp_.env.get('_0'))
                idx_ = None
                if r_[0] == 'call' and r_[1].endswith('then_some') and len(r_[2]) == 2:
                    idx_ = r_[2][1]
                elif r_[0] == 'agg' and r_[2] == 'Some' and r_[3]:
                    idx_ = r_[3][0]
                elif r_[0] == 'agg' and r_[2] == 'None':
                    continue
                while isinstance(idx_, tuple) and idx_ and idx_[0] in ('cast', 'deref'):
                    idx_ = idx_[1]
                if idx_ != ('field', ('local', 2), '0'):
                    yields_counter = False
            if yields_counter and n_ret:
                src = it[2][0]
    if src is None:
        return None
    for _ in range(4):
        if src[0] == 'call' and src[1].endswith(('::rev', 'IntoIterator>::into_iter')) and src[2]:
            src = src[2][0]
    if src[0] == 'call' and src[1].endswith(('::iter', '::iter_mut')) and src[2]:
        return _container(src[2][0], env)
    return None


def _stable_from_value(p, I, pos, cont, env):
    """the container is not changed between the call that produced I and the site"""
    blk = None
    for v in subtrees(I):
        if v[0] == 'call' and v[1].endswith(('Iterator>::next', 'Iterator::next', '::position', '::rposition', '::find_map')):
            blk = v[3]
    if blk is None:
        return False
    frm = max((p.callpos[k] for k, cl in enumerate(p.calls) if cl[0] == blk), default=None)
    return frm is not None and _stable_after(p, frm, pos, cont, env)


def _tag_atoms(p, env):
    """[(object, type, truth)] : every test of an Object's tag the path has taken, positive and negative"""
    from rules.unsafe_inv import canon, TYPE
    from rules.shared import deref, truth
    out = []
    for c in p.constraints:
        if c[0][0] == 'variant' and c[0][2] == TYPE and len(c[0]) > 3:
            v = c[0][3]
            if v and v[0] == 'call' and v[1] == 'object::Object::tag' and c[1]:
                if str(c[1]).startswith('otherwise:'):
                    for ty in str(c[1])[10:].split('|'):
                        pass
                    # the listed variants are the ones still possible: all others are excluded
                    possible = set(str(c[1])[10:].split('|'))
                    out.append((canon(env, v[2][0]), ('oneof', frozenset(possible)), True))
                else:
                    out.append((canon(env, v[2][0]), c[1], True))
        elif c[0][0] == 'switch':
            v = c[0][1]
            if v[0] == 'call' and v[1].endswith(('PartialEq::ne', 'PartialEq>::eq', 'PartialEq::eq', 'PartialEq>::ne')) and len(v[2]) == 2:
                equal = truth(c) != v[1].endswith('ne')
                a, b = [deref(env, x) for x in v[2]]
                for x, y in ((a, b), (b, a)):
                    if x[0] == 'call' and x[1] == 'object::Object::tag' and y[0] == 'enum':
                        out.append((canon(env, x[2][0]), y[2], equal))
            elif v[0] == 'binop' and v[1] in ('Eq', 'Ne') and truth(c) is not None:
                # the tag test written out: `self.0 as usize & TAG_MASK == Type::Float as usize`
                try:
                    import mirlib as _ml
                    F_ = _CTX[0].facts() if _CTX[0] is not None else _ml.CURRENT_FACTS
                    tm = (F_.consts.get('object::TAG_MASK') or {}).get('int')
                    names_ = {d_: n_ for n_, d_ in F_.enum_variants(TYPE)}
                    for x, y in ((v[2], v[3]), (v[3], v[2])):
                        y = strip(y)
                        x = strip(x)
                        if tm is None or y[0] != 'int' or y[1] not in names_ or not (isinstance(x, tuple) and x and x[0] == 'binop' and x[1] == 'BitAnd'):
                            continue
                        for w, m_ in ((x[2], x[3]), (x[3], x[2])):
                            if strip(m_) == ('int', tm) or (strip(m_)[0] == 'int' and strip(m_)[1] == tm):
                                w = strip(w)
                                while isinstance(w, tuple) and w and w[0] == 'cast':
                                    w = w[1]
                                if isinstance(w, tuple) and w and w[0] == 'field' and w[2] == '0':
                                    out.append((canon(env, w[1]), names_[y[1]], bool(truth(c)) == (v[1] == 'Eq')))
                except Exception:
                    pass
            elif v[0] == 'call' and v[1] == 'object::Object::is_heap_allocated' and len(v[2]) == 1 and truth(c) is not None and _CTX[0] is not None:
                # `if !self.is_heap_allocated() { return }`: the types that live in a heap box / those that do not
                try:
                    from rules import c15 as _c15
                    from rules.unsafe_inv import TYPE as _TY
                    heap_ = set(_c15.heap_types(_CTX[0]))
                    all_ = {n_ for n_, _d in _CTX[0].facts().enum_variants(_TY)}
                    out.append((canon(env, v[2][0]), ('oneof', frozenset(heap_ if truth(c) else all_ - heap_)), True))
                except Exception:
                    pass
            elif v[0] == 'call' and len(v[2]) == 1 and (v[1].startswith('object::Type::') or v[1].startswith('<object::Type')) and truth(c) is not None:
                # a predicate of Type (`tag.ordered()`, `tag.is_heap()`): the variants for which it answers what the path took
                a = deref(env, v[2][0])
                if a[0] == 'call' and a[1] == 'object::Object::tag':
                    tab = _type_predicate(v[1])
                    if tab is not None:
                        out.append((canon(env, a[2][0]), ('oneof', frozenset(k_ for k_, b_ in tab.items() if b_ == bool(truth(c)))), True))
    return out


_TYPE_PRED = {}


def _type_predicate(path):
    """{variant: bool} for a one-argument bool method of object::Type, evaluated for every variant (None when it is not a pure
    function of the variant)"""
    if path in _TYPE_PRED:
        return _TYPE_PRED[path]
    from rules import tables
    from rules.unsafe_inv import TYPE
    import mirlib as _ml
    F = _CTX[0].facts() if _CTX[0] is not None else _ml.CURRENT_FACTS
    res = None
    try:
        fn = F.fns.get(path) if F is not None else None
        if fn is not None and fn.arg_count == 1:
            by_ref = (fn.local_ty(1) or '').startswith('&')
            m = tables.enum_map(F, fn, 1, TYPE, by_ref)
            tab = {}
            for var, rs in m.items():
                r1 = tables.one(rs)
                if r1[0] == 'val' and isinstance(r1[1], tuple) and r1[1][0] == 'int':
                    tab[var] = bool(r1[1][1])
                else:
                    tab = None
                    break
            res = tab
    except Exception:
        res = None
    _TYPE_PRED[path] = res
    return res


def _contradictory(atoms):
    from rules.unsafe_inv import same
    for i, (o1, t1, v1) in enumerate(atoms):
        for (o2, t2, v2) in atoms[i + 1:]:
            if not same(o1, o2):
                continue
            s1 = t1[1] if isinstance(t1, tuple) else None
            s2 = t2[1] if isinstance(t2, tuple) else None
            if s1 is None and s2 is None:
                if (t1 == t2 and v1 != v2) or (t1 != t2 and v1 and v2):
                    return True
            elif s1 is not None and s2 is None and v2 and t2 not in s1:
                return True
            elif s2 is not None and s1 is None and v1 and t1 not in s2:
                return True
    return False


def otherwise_infeasible(F, site):
    """a panic that sits on the `otherwise` edge of a switch (`_ => unreachable!()` of an inner match) is unreachable when a
    dominating switch on the same value already restricted it to values the inner switch lists explicitly (the outer arm is an
    or-pattern of exactly those variants)"""
    fn = site['f']
    gs = guards(fn, site['block'])
    for i, (c2, vs2, d2, tb2, t2) in enumerate(gs):
        if vs2 != [None]:
            continue
        listed = {v for v, _ in t2['targets']}
        for (c1, vs1, d1, tb1, t1) in gs:
            if d1 == d2 or None in vs1 or not vs1:
                continue
            if strip(c1) == strip(c2) and set(vs1) <= listed and d1 in fn.dominators().get(d2, ()):
                if all(no_redef_between(fn, l, tb1, d2, d1) for l in mlocals(c1)):
                    return 'D1p', 'the catch-all arm is unreachable: an enclosing match already restricted the value to %d variants, all of which the inner match lists' % len(vs1)
    return None


def assertion_infeasible(F, site):
    """a failing assert!/debug_assert!: every path that reaches the panic has taken two tag tests on the same object that
    cannot both hold (the asserted tag was established by an earlier match arm or test), so the panic is unreachable"""
    fn = site['f']
    b = site['block']
    if not (site['kind'] == 'call' and site['what'].startswith('core::panicking::') and macro_of(site['span']) in
            ('assert', 'debug_assert', 'assert_eq', 'debug_assert_eq', 'assert_ne', 'debug_assert_ne', 'unreachable', 'panic')):
        return None
    ps = _path_data(F, fn, b)
    if ps is None:
        return None
    reached = 0
    for p in ps:
        for pos, sb, env in p.snaps:
            if sb != b:
                continue
            reached += 1
            if not _contradictory(_tag_atoms(p, env)):
                return None
    if not reached:
        return None
    if macro_of(site['span']) in ('unreachable', 'panic'):
        return 'D1p', 'the arm that panics contradicts a tag test taken earlier on each of the %d paths reaching it' % reached
    return 'D1p', 'the failing branch of the assertion contradicts a tag test taken earlier on each of the %d paths reaching it' % reached


_CUR_F = [None]
_ALL_SITES = [None]
_CTX = [None]
_OPEN = {}


def _unsafe_open_fns():
    """functions with an unsafe operation whose obligation no rule discharges (R02.7 inventory, unchecked bitmap accesses of the
    collector): there a debug assertion may be all that stands for the safety condition"""
    ctx = _CTX[0]
    if ctx is None:
        return set()
    key = id(ctx)
    if key not in _OPEN:
        from framework import Report
        from rules import unsafe_inv
        tmp = Report('tmp', 'quick')
        tmp.rule('X', 'x')
        try:
            unsafe_inv.check(ctx, tmp, 'X')
            bad = {o['key'].split('|')[1] for o in tmp.obs if not o['ok']}
        except CheckerError:
            bad = None
        F = ctx.facts()
        if bad is None:
            bad = {f.path for f in F.all_fns}
        for f in F.all_fns:
            if any('bitvec' in callee_name(t) and 'unchecked' in callee_name(t) for b, t in f.calls()):
                bad.add(f.path)
        _OPEN[key] = bad
    return _OPEN[key]


def path_discharge(F, site):
    _CUR_F[0] = F
    fn = site['f']
    t = site['term']
    b = site['block']
    n = site['what']
    kind = None
    if site['kind'] == 'call' and psc.is_index_call(n) and len(t['args']) == 2 and 'for str' in n:
        kind = 'strslice'
    elif site['kind'] == 'call' and (psc.is_index_call(n) or n.endswith(('Vec::<T, A>::swap_remove', 'Vec::<T, A>::remove'))) and len(t['args']) == 2:
        kind = 'index'
    elif site['kind'] == 'call' and n.endswith('Option::<T>::unwrap'):
        kind = 'nth'
    elif site['kind'] == 'assert' and t['msg'] == 'BoundsCheck':
        kind = 'bounds'
    if kind is None:
        return None
    ps = _path_data(F, fn, b)
    if ps is None:
        return None
    reached = 0
    for p in ps:
        for pos, sb, env in p.snaps:
            if sb != b:
                continue
            reached += 1
            ai = AbsInt(F, fn)
            if kind == 'strslice':
                # text[..at] / text[at + k..] / text[at..at + k] where `at` is what text.find(pattern) answered for THIS text (not
                # reassigned since) and k the length of that pattern: both ends are ends of a match, hence character boundaries
                # inside the text
                recv = ai.eval_op(env, t['args'][0])
                I = simp(ai.eval_op(env, t['args'][1]))
                if not (I[0] == 'agg' and str(I[1]).startswith('core::ops::range::Range')):
                    return None
                for bound in I[3]:
                    w = bound
                    if w[0] == 'field' and w[2] == '0' and w[1][0] == 'binop' and w[1][1] in ('AddWithOverflow', 'Add'):
                        w2, extra = w[1][2], w[1][3]
                        if not (int_of(extra) is not None or (extra[0] == 'call' and extra[1].endswith('str>::len'))):
                            return None
                        w = w2
                    if int_of(w) == 0:
                        continue
                    fc = None
                    if w[0] == 'field' and w[2] == '0' and w[1][0] == 'downcast' and w[1][2] == 'Some':
                        fc = w[1][1]
                    elif w[0] == 'okval':
                        fc = w[1]
                    if not (fc is not None and fc[0] == 'call' and fc[1].endswith(('str>::find', 'str>::rfind')) and fc[2] and fc[2][0] == recv):
                        return None
                    fb = fc[3] if len(fc) > 3 else None
                    fpos = max((p.callpos[k_] for k_, cl in enumerate(p.calls) if cl[0] == fb and cl[1] == fc[1] and p.callpos[k_] < pos), default=None)
                    if fpos is None:
                        return None
                    # the text variable is not assigned between the search and the slicing
                    base = recv[1].split('.')[0] if recv[0] == 'ref' and isinstance(recv[1], str) else None
                    if base is None or not base[1:].isdigit():
                        return None
                    bl_ = int(base[1:])
                    for q in p.blocks[fpos + 1:pos + 1]:
                        for st in fn.blocks[q]['stmts']:
                            if st['k'] == 'assign' and st['place']['local'] == bl_ and not st['place']['proj']:
                                return None
                strslice_ok = True
                continue
            if kind == 'index':
                recv = ai.eval_op(env, t['args'][0])
                I = ai.eval_op(env, t['args'][1])
                want = ('count', 'len', _container(recv, env))
            elif kind == 'nth':
                o = ai.eval_op(env, t['args'][0])
                if o[0] == 'call' and o[1].endswith('Option::<T>::map') and o[2]:
                    o = o[2][0]          # map() keeps None/Some
                if not (o[0] == 'call' and o[1].endswith('Iterator::nth') and len(o[2]) == 2):
                    return None
                it = o[2][0]
                it = env.get(it[1], it) if it[0] == 'ref' else it
                if not (it[0] == 'call' and it[1].endswith(('::chars', '::char_indices'))):
                    return None
                I = o[2][1]
                want = ('count', 'chars', _container(it[2][0], env))
            else:
                c = ai.eval_op(env, t['cond'])
                if not (c[0] == 'binop' and c[1] == 'Lt'):
                    return None
                I = c[2]
                want = _count_of(c[3], env)
                if want is None:
                    return None
            if not _lt_established(p, pos, I, want, env) and not (want[1] == 'len' and _yielded_index(I, env) == want[2] and _stable_from_value(p, I, pos, want[2], env)):
                return None
    if not reached:
        return None
    if kind == 'strslice':
        return 'D1p', 'on each of the %d paths reaching the site the slice bounds are the ends of a match that find() reported for this very text' % reached
    return 'D1p', 'on each of the %d paths reaching the site a branch taken earlier establishes index < %s of the same container' % (reached, 'chars().count()' if want[1] == 'chars' else 'len()')



# ---- D2c: countdown index ----------------------------------------------------------------------------
def _shared_root(fn, v, depth=0):
    """the container expression is reached from a `&T` (shared) parameter: nothing can change its length during the call"""
    while isinstance(v, tuple) and v and depth < 12:
        depth += 1
        if v[0] in ('ref', 'deref', 'cast'):
            v = v[1]
        elif v[0] in ('field', 'index', 'downcast'):
            v = v[1]
        elif v[0] == 'call' and v[1].endswith(('Deref>::deref', '::as_slice', '::as_str', 'Index<I>>::index')) and v[2]:
            v = v[2][0]
        elif v[0] == 'param':
            ty = fn.local_ty(v[1])
            return ty.startswith('&') and ' mut ' not in ty.split('>')[0][:24] and not ty.startswith('&mut')
        else:
            return False
    return False


def countdown_index(F, site):
    """X[v] where v starts at X.len(), is only ever decremented, and at least one decrement lies on every path from the
    initialisation to the access: then v < X.len() (the decrement itself is a checked subtraction, discharged separately)"""
    fn = site['f']
    t = site['term']
    if not (site['kind'] == 'call' and psc.is_index_call(site['what']) and len(t['args']) == 2):
        return None
    recv, idx = sym(fn, t['args'][0]), strip(sym(fn, t['args'][1]))
    if idx[0] != 'mlocal':
        return None
    l = idx[1]
    cont = psc.unref(recv)
    inits, decs = [], []
    for d in fn.defs().get(l, []):
        if d[0] == 'call':
            v = strip(sym_call(fn, d[2]))
        else:
            v = strip(psc.sym_rv(fn, d[3]))
        if v[0] == 'binop' and v[1] == 'Sub' and strip(v[2]) == ('mlocal', l) and strip(v[3])[0] == 'int' and strip(v[3])[1] >= 1:
            decs.append(d)
        elif v == ('len', cont):
            inits.append(d)
        else:
            return None
    if len(inits) != 1 or not decs:
        return None
    ib = inits[0][1]
    dec_blocks = {d[1] for d in decs}
    b = site['block']
    # every path from the initialisation to the access passes a decrement
    if ib == b or ib in dec_blocks or b in fn.reachable(ib, stop=dec_blocks):
        return None
    # the container is the same object at both points and cannot change length
    # (a redefinition that can only come back to the access through the initialisation re-establishes the relation)
    after = set()
    for s_ in fn.succ(ib):
        after |= fn.reachable(s_, stop={ib})
    for m_ in psc.mlocals(cont):
        for d in fn.defs().get(m_, []):
            if d[1] in after and b in fn.reachable(d[1], stop={ib}) and not (d[1] == b and d[0] == 'call'):
                return None
    if not _shared_root(fn, cont):
        return None
    return 'D2', 'index counts down from len() of the same (shared, unchanged) container and is decremented before every use'


def const_range_on_array(F, site):
    """`arr[..n]` / `arr[a..]` on a fixed-size array `[T; N]` where every value the bound can have is a constant not above N"""
    fn = site['f']
    t = site['term']
    n = site['what']
    if not (site['kind'] == 'call' and psc.is_index_call(n) and 'core::array::' in n and len(t['args']) == 2):
        return None
    l0 = op_base_local(t['args'][0])
    ty = fn.local_ty(l0) if l0 is not None else ''
    m = _re.search(r"; (\d+)(?:_usize)?\]", ty or "")
    if not m:
        return None
    N = int(m.group(1))
    if 'RangeFull' in str(t['args'][1].get('ty') or '') or 'RangeFull' in str(t['callee'].get('generic_args') or ''):
        return 'D2', 'the whole array is taken (`[..]`)'
    d = fn.def_rvalue(t['args'][1])
    if d and d[0] == 'assign' and d[3]['k'] == 'aggregate' and str(d[3].get('adt', '')).endswith('RangeFull'):
        return 'D2', 'the whole array is taken (`[..]`)'
    if not (d and d[0] == 'assign' and d[3]['k'] == 'aggregate' and str(d[3].get('adt', '')).split('::')[-1] in ('RangeTo', 'RangeFrom', 'RangeToInclusive') and len(d[3]['ops']) == 1):
        return None
    incl = str(d[3].get('adt', '')).endswith('RangeToInclusive')
    op = d[3]['ops'][0]
    ub = _upper_bound(sym(fn, op)) if op.get('k') != 'const' else None
    if ub is not None and ub + (1 if incl else 0) <= N:
        return 'D2', 'the bound of the range is at most %d whatever the path (constants and truth values read as 0 / 1 added up), the array has %d elements' % (ub, N)
    vals = []
    if op.get('k') == 'const' and op.get('int') is not None:
        vals = [op['int']]
    else:
        l = op_base_local(op)
        seen = set()
        work = [l]
        while work:
            x = work.pop()
            if x is None or x in seen:
                continue
            seen.add(x)
            ds = fn.defs().get(x, [])
            if not ds:
                return None
            for dd in ds:
                if dd[0] != 'assign':
                    return None
                rv = dd[3]
                if rv['k'] == 'use' and rv['op'].get('k') == 'const' and rv['op'].get('int') is not None:
                    vals.append(rv['op']['int'])
                elif rv['k'] == 'use' and rv['op'].get('k') in ('copy', 'move') and not rv['op']['place']['proj']:
                    work.append(rv['op']['place']['local'])
                else:
                    return None
    if vals and all(0 <= v + (1 if incl else 0) <= N for v in vals):
        return 'D2', 'the bound of the range is one of the constants %s on every path, the array has %d elements' % (sorted(set(vals)), N)
    return None


def _upper_bound(v, depth=0):
    """the largest value an unsigned expression built from constants, bools read as numbers and sums can have (None: unknown)"""
    if not isinstance(v, tuple) or not v or depth > 8:
        return None
    if v[0] == 'call' and len(v[2]) == 1 and psc._INT_FROM.search(v[1]):
        inner = _upper_bound(v[2][0], depth + 1)
        return inner
    if v[0] == 'int':
        return v[1]
    if v[0] == 'cast':
        if len(v) > 3 and v[3] == 'bool':
            return 1
        return _upper_bound(v[1], depth + 1)
    if v[0] == 'checked':
        v = ('binop', v[1], v[2], v[3])
    if v[0] == 'field' and v[2] == '0' and isinstance(v[1], tuple) and v[1][0] == 'binop' and v[1][1].endswith('WithOverflow'):
        v = ('binop', v[1][1][:-12], v[1][2], v[1][3])
    if v[0] == 'binop' and v[1] == 'Add':
        a, b = _upper_bound(v[2], depth + 1), _upper_bound(v[3], depth + 1)
        return None if a is None or b is None else a + b
    if v[0] == 'call' and v[1].endswith(('::is_some', '::is_none', '::is_ok', '::is_err')):
        return 1
    return None


def countup_index(F, site):
    """X[v] / X.swap_remove(v) where v starts at 0, is only ever incremented by one, every increment and the access itself
    happen under a test `v != X.len()` of the same iteration, and X cannot change length meanwhile: then v <= X.len() is
    an invariant of the counter and v < X.len() at the access"""
    fn = site['f']
    t = site['term']
    n = site['what']
    if not (site['kind'] == 'call' and (psc.is_index_call(n) or n.endswith(('Vec::<T, A>::swap_remove', 'Vec::<T, A>::remove'))) and len(t['args']) == 2):
        return None
    recv, idx = sym(fn, t['args'][0]), strip(sym(fn, t['args'][1]))
    if idx[0] != 'mlocal':
        return None
    l = idx[1]
    cont = psc.unref(recv)
    inits, incs = [], []
    for d in fn.defs().get(l, []):
        if d[0] == 'call':
            return None
        v = strip(psc.sym_rv(fn, d[3]))
        if v[0] == 'field' and v[2] == '0' and v[1][0] == 'binop' and v[1][1] == 'AddWithOverflow':
            v = ('binop', 'Add', v[1][2], v[1][3])
        if v[0] == 'binop' and v[1] == 'Add' and strip(v[2]) == ('mlocal', l) and strip(v[3]) == ('int', 1):
            incs.append(d)
        elif v == ('int', 0):
            inits.append(d)
        else:
            return None
    if len(inits) != 1 or not incs:
        return None
    ib, b = inits[0][1], site['block']

    def is_len(v):
        v = strip(v)
        return v == ('len', cont) or (v[0] == 'call' and v[1] in psc.LEN_FNS and len(v[2]) == 1 and psc.unref(v[2][0]) == cont)

    def differs(blk):
        for f in psc.facts_at(fn, blk):
            if f[0] == 'Ne' and ((strip(f[1]) == ('mlocal', l) and is_len(f[2])) or (strip(f[2]) == ('mlocal', l) and is_len(f[1]))):
                return True
            if f[0] == 'Lt' and strip(f[1]) == ('mlocal', l) and is_len(f[2]):
                return True
        return False
    def_blocks = {d[1] for d in inits + incs}

    def differs_on_entry(x):
        # (facts_at drops a fact whose variable is assigned anywhere in the block; the increment is such an assignment, so
        # for its block the fact is taken at the end of each predecessor)
        preds = [q for q in fn.normal_blocks() if x in fn.succ(q)]
        return differs(x) or (bool(preds) and all(differs(q) and q not in def_blocks for q in preds))
    if not differs(b) or not all(differs_on_entry(d[1]) and sum(1 for e in incs if e[1] == d[1]) == 1 for d in incs):
        return None
    # nothing between the initialisation and the access can change the container's length: no call there receives a `&mut`
    region = {x for x in fn.reachable(ib) if b in fn.reachable(x)} | {ib, b}
    for x in region:
        tx = fn.term(x)
        if tx['k'] == 'call' and not (x == b):
            for a in tx['args']:
                if a.get('k') in ('copy', 'move') and not a['place']['proj'] and _re.match(r"^&('\S+ )?mut ", fn.local_ty(a['place']['local'])):
                    return None
        for st in fn.blocks[x]['stmts']:
            if st['k'] == 'assign' and st['rv']['k'] == 'ref' and st['rv'].get('mut') and x != b:
                # a mutable borrow that is not the receiver of the access itself
                tgt = st['place']['local']
                used_by_site = any(a.get('k') in ('copy', 'move') and a['place']['local'] == tgt for a in t['args'])
                if not used_by_site:
                    return None
    return 'D2', 'index counts up from 0 by one; each increment and the access follow a test index != len() of the same unchanged container'


# ---- D3: structural invariants proved by other rules -------------------------------------------
def _csa_ok(ctx, obligs, construct_prefix=None):
    from rules import csa_run
    R = csa_run.analyse(ctx)
    for v in R['violations']:
        if v['oblig'] in obligs and (construct_prefix is None or any(v['construct'].startswith(p) for p in construct_prefix)):
            return False, '%s fails: %s' % (v['oblig'], v['construct'][:80])
    return True, ''


def _callers(F, path):
    return sorted({f.path for f, b, t in F.callers_of(lambda p: p == path)})


def param_tag_checked(F, f, idx, want, depth=0):
    """every caller of the private function f passes, as argument idx, a value whose tag was tested to be `want`"""
    from rules.unsafe_inv import tag_facts, canon, same
    if f.j.get('vis', '').startswith('Public') or depth > 2:
        return False
    callers = F.callers_of(lambda p: p == f.path)
    if not callers:
        return False
    for g, b, t in callers:
        if len(g.blocks) > 150:
            return False
        seen = False
        for p in AbsInt(F, g, max_paths=30000).run():
            for c in p.calls:
                if c[0] == b and c[4] is t:
                    seen = True
                    if idx - 1 >= len(c[2]):
                        return False
                    obj = canon(p.env, c[2][idx - 1])
                    # &mut returned by as_vec_mut(x)/as_string_mut(x) counts as x checked by that accessor
                    if not any(same(obj, o) and ty == want for o, ty in tag_facts(p)):
                        return False
        if not seen:
            return False
    return True


def promoted_type(fn, v):
    while isinstance(v, tuple) and v and v[0] in ('deref', 'ref'):
        v = v[1]
    if v[0] != 'promoted':
        return None
    for p in fn.j.get('promoted') or []:
        if p['i'] == v[1]:
            for bl in p['blocks']:
                for st in bl['stmts']:
                    if st['k'] == 'assign' and st['rv']['k'] == 'aggregate' and st['rv'].get('adt') == 'object::Type':
                        return st['rv']['variant']
    return None


def d3_table(ctx):
    """rows: (function, callee-or-assert suffix or None for any, supporting rule, verifier(ctx, site)->(ok, why))"""
    F = ctx.facts()
    from rules import tables

    def operator_domain(ctx, site):
        pt = tables.pratt_tables(ctx)
        of = tables.operator_from_token(ctx)['map']
        bad = [t for t in sorted(pt['infix_tokens'] | pt['prefix_tokens']) if str(of.get(t, '<')).startswith('<')]
        # the conversion is reached only from the infix / prefix parsers (directly, or through the small parse_operator wrapper),
        # which parse_expr enters only for the tokens of its dispatch tables
        allowed = {"parser::Parser::<'a>::parse_infix_expr", "parser::Parser::<'a>::parse_prefix_expr"}
        callers = set(_callers(F, "<ast::Operator as core::convert::From<lexer::Token<'_>>>::from"))
        wrapper = "parser::Parser::<'a>::parse_operator"
        if wrapper in callers:
            callers = (callers - {wrapper}) | set(_callers(F, wrapper))
        ok = not bad and bool(callers) and callers <= allowed
        return ok, 'Operator::from is total on the tokens the parser hands it (%s)' % (bad or 'all mapped')

    def compile_operator_domain(ctx, site):
        pt = tables.pratt_tables(ctx)
        cm = tables.compile_operator_map(ctx)['map']
        bad = [o for o in sorted(x for x in pt['infix_operators'] if x) if str(cm.get(o, '<')).startswith('<')]
        callers = _callers(F, 'compiler::Compiler::compile_operator')
        return (not bad and callers == ['compiler::Compiler::compile_expression']), 'compile_operator is total on the operators of Expr::Infix (%s)' % (bad or 'all mapped')

    def csa(*obligs, **kw):
        def v(ctx, site):
            return _csa_ok(ctx, obligs, kw.get('prefix'))
        return v

    def symbols_pairing(ctx, site):
        ok, why = _csa_ok(ctx, ('R09.1',))
        # constructors establish the base: SymbolTable::new pushes one context, Context::new one scope
        return ok, why or 'enter/leave and new/leave are paired on every path (R09.1)'

    def nonempty_stack(ctx, site):
        # last()/first()/split_last() of the context stack or of a context's scope stack: never empty (R09.1)
        a = str(sym(site['f'], site['term']['args'][0]))
        if any(m_ in a for m_ in ('::last', '::last_mut', '::first', '::first_mut', '::split_last', '::split_first', '::split_last_mut')) and \
                ("'contexts'" in a or "'symbols'" in a):
            return symbols_pairing(ctx, site)
        return False, 'not an access to the context / scope stack'

    def nonempty_cut(ctx, site):
        # contexts.drain(1..) / symbols.split_off(1) / ...: cutting the context or scope stack back to its first entry needs
        # that entry to exist (R09.1)
        fn = site['f']
        if len(site['term']['args']) != 2:
            return False, 'not covered'
        recv, at = str(sym(fn, site['term']['args'][0])), strip(sym(fn, site['term']['args'][1]))
        if at[0] == 'agg' and str(at[1]).endswith('RangeFrom') and at[3]:
            at = strip(at[3][0])
        if at == ('int', 1) and (recv.rstrip("')").endswith("'contexts") or recv.rstrip("')").endswith("'symbols")):
            return symbols_pairing(ctx, site)
        return False, 'not covered'

    def nonempty_case(ctx, site):
        # `[] => unreachable!()` of a slice pattern over the context / scope stack: the panic is reached only where the length of
        # that stack is 0 (or not >= 1), which the pairing invariant excludes (R09.1)
        fn = site['f']
        for f in facts_at(fn, site['block']):
            if f[0] in ('Eq', 'Lt', 'Le'):
                a, c_ = strip(f[1]), strip(f[2])
                if a[0] == 'len' and ("'contexts'" in str(a) or "'symbols'" in str(a)) and c_[0] == 'int' and \
                        ((f[0] == 'Eq' and c_[1] == 0) or (f[0] == 'Lt' and c_[1] <= 1) or (f[0] == 'Le' and c_[1] == 0)):
                    return symbols_pairing(ctx, site)
        return False, 'not covered'

    def nonempty_index0(ctx, site):
        # contexts[0] / symbols[0]: the global context and the outermost scope of a context always exist (R09.1)
        fn = site['f']
        if len(site['term']['args']) != 2:
            return False, 'not covered'
        recv, idx = str(sym(fn, site['term']['args'][0])), strip(sym(fn, site['term']['args'][1]))
        if idx == ('int', 0) and (recv.rstrip("')").endswith("'contexts") or recv.rstrip("')").endswith("'symbols")):
            return symbols_pairing(ctx, site)
        return False, 'not covered'

    def tag_checked_callers(ctx, site):
        from rules.unsafe_inv import tag_facts, canon, same
        fnpath = site['fn']
        want = {'object::Object::as_f64': 'Float', 'object::Object::as_str': 'String', 'object::Object::as_string_mut': 'String',
                'object::Object::as_vec': 'Array', 'object::Object::as_vec_mut': 'Array'}.get(fnpath)
        if want is None:
            return False, 'unknown accessor'
        bad = []
        for f, b, t in F.callers_of(lambda p: p == fnpath):
            if len(f.blocks) > 150:
                # large body (dispatch loop): use the dominating branches of the call block
                obj = psc.unref(sym(f, t['args'][0]))
                okc = False
                names = {d: n for n, d in F.enum_variants('object::Type')}
                for fa in facts_at(f, b):
                    if fa[0] == 'callbool' and ('PartialEq' in fa[1][1]):
                        is_ne = fa[1][1].endswith('ne')
                        equal = (fa[2] and not is_ne) or ((not fa[2]) and is_ne)
                        a0, a1 = [psc.unref(x) for x in fa[1][2]]
                        for x, y in ((a0, a1), (a1, a0)):
                            if x[0] == 'call' and x[1] == 'object::Object::tag' and psc.unref(x[2][0]) == obj:
                                ty = y[2] if y[0] in ('enum', 'agg') else (promoted_type(f, y) if y[0] in ('promoted', 'deref') else None)
                                if equal and ty == want:
                                    okc = True
                    elif fa[0] == 'variant' and fa[2] == 'object::Type':
                        src = psc.unref(fa[1])
                        if src[0] == 'call' and src[1] == 'object::Object::tag' and psc.unref(src[2][0]) == obj and [names.get(v) for v in fa[3]] == [want]:
                            okc = True
                if not okc:
                    bad.append('%s:%s' % (f.path, t['span']['line']))
                continue
            okc = False
            seen = False
            for p in AbsInt(F, f, max_paths=30000).run():
                for c in p.calls:
                    if c[0] == b and c[4] is t:
                        seen = True
                        obj = canon(p.env, c[2][0])
                        if any(same(obj, o) and ty == want for o, ty in tag_facts(p)):
                            okc = True
                        elif obj[:2] in (('obj', 'param'), ('obj', 'param*')) and param_tag_checked(F, f, obj[2], want):
                            okc = True
                        else:
                            okc = False
                            break
                if seen and not okc:
                    break
            if not (seen and okc):
                bad.append('%s:%s' % (f.path, t['span']['line']))
        return not bad, 'every caller passes a value whose tag was tested to be %s%s' % (want, (' — except ' + ', '.join(bad)) if bad else '')

    def position_arg(ctx, site):
        fn = site['f']
        a = sym(fn, site['term']['args'][1])
        return ('position' in str(a)), 'index comes from Iterator::position on the same vector'

    def always(why):
        return lambda ctx, site: (True, why)

    def r02_6(ctx, site):
        # a Local symbol names a slot of the frame of the function being compiled only if name lookup never reaches the
        # context of an enclosing function (R09.3)
        from framework import Report
        from rules import c09
        tmp = Report('tmp', 'quick')
        c09.check_visibility(ctx, tmp, 'R09.3')
        badv = [o for o in tmp.obs if not o['ok']]
        if badv:
            return False, 'name lookup consults more than the current and the global context (R09.3): a slot number of an enclosing function is used in the inner frame'
        # operands are read where the compiler wrote them only if a return resumes exactly after its call: the saved code
        # position is kept whole and restored from the right frame (R12.2 / R02.9)
        from rules import c12
        tmp2 = Report('tmp', 'quick')
        c12.frame_contracts(ctx, tmp2, 'R12.2')
        if [o for o in tmp2.obs if not o['ok']]:
            return False, 'a return does not resume at the saved code position (R12.2): the machine then decodes operands at the wrong place'
        # a compiler that is kept after a failed line starts the next line in the global context again (R17.2): otherwise top-level
        # names become locals of a function that is not running
        ok, why = _csa_ok(ctx, ('O8', 'O8-scope', 'R02.6', 'R17.2'))
        return ok, why or 'operand indices come from add_constant / the symbol table (R02.6, O8)'

    def frames_inv(ctx, site):
        ok, why = _csa_ok(ctx, ('O6',), ('<entry>', 'Stmt::Return'))
        if not ok:
            return ok, why
        from rules import c17
        ok2, why2 = c17.frames_reset_ok(ctx)
        return ok2, why2 or 'Return* only inside function bodies entered by Call (O6); frames reset to length 1 by run() (R17.1)'

    def float_shape(ctx, site):
        from rules import c08
        return c08.float_token_shape_ok(ctx)

    def lexer_boundaries(ctx, site):
        from rules import c08
        return c08.slice_boundaries_ok(ctx)

    def offset_slice(ctx, site):
        # input[offset()..] / input[a..offset()]: every bound is a value of offset(), which bump() keeps on a character boundary
        fn = site['f']
        if len(site['term']['args']) != 2:
            return False, 'not covered'
        rng = sym(fn, site['term']['args'][1])
        s_ = str(rng)
        if 'Range' in s_ and "Tokenizer::<'a>::offset" in s_ and 'binop' not in s_:
            return lexer_boundaries(ctx, site)
        return False, 'not covered'

    def offset_difference(ctx, site):
        # input.len() - chars.as_str().len(): the character iterator always covers a suffix of `input` (it is created from it in
        # Tokenizer::new and only ever advanced: R08.8), so the difference cannot underflow
        fn = site['f']
        c_ = sym(fn, site['term']['cond'])
        if c_[0] == 'overflowflag' and c_[1] == 'Sub':
            a_, b_ = str(c_[2]), str(c_[3])
            if "'input'" in a_ and 'len' in a_ and 'as_str' in b_ and "'chars'" in b_ and 'len' in b_:
                from framework import Report
                from rules import c08
                tmp = Report('tmp', 'quick')
                c08.check_lexer_primitives(ctx, tmp, 'R08.8')
                bad = [o for o in tmp.obs if not o['ok']]
                return not bad, 'the character iterator covers a suffix of the input (R08.8)%s' % ((' - but: ' + bad[0]['fn']) if bad else '')
        return False, 'not covered'

    def nth_guard(ctx, site):
        fn = site['f']
        a = sym(fn, site['term']['args'][0])
        s = str(a)
        facts = facts_at(fn, site['block'])
        # unwrap(nth(iter over chars/char_indices of S, k)) guarded by k < count(chars(S))
        for f in facts:
            if f[0] == 'Lt' and 'count' in str(f[2]) and 'chars' in str(f[2]):
                return True, 'index < chars().count() of the same string'
        return False, 'the element index is not bounded by the character count of the same string'

    def read_u16_slice(ctx, site):
        fn = site['f']
        s = str(sym(fn, site['term']['cond']))
        return ('get_unchecked' in s and 'Range' in s), 'the slice is instructions[start..start+2]'

    def print_guard(ctx, site):
        fn = site['f']
        for f in facts_at(fn, site['block']):
            if f[0] == 'callbool' and f[1][1].endswith('is_empty') and f[2] is False:
                return True, 'first next() of an iterator over a slice tested to be non-empty'
        return False, 'no dominating !is_empty() test'

    def constants_index(ctx, site):
        fn = site['f']
        a = str(sym(fn, site['term']['args'][0]))
        if 'constants' in a:
            return r02_6(ctx, site)
        if 'frames' in a:
            return frames_inv(ctx, site)
        return False, 'index into %s is not covered by a structural invariant' % a[:60]

    def constants_bounds(ctx, site):
        # constants[operand] on a slice view of the constant pool (a bounds-check assertion instead of an Index call)
        fn = site['f']
        c_ = sym(fn, site['term']['cond'])
        if not (c_[0] == 'binop' and c_[1] == 'Lt'):
            return False, 'not covered'
        idx, ln = strip(c_[2]), str(c_[3])
        from_operand = idx[0] == 'call' and idx[1] in ('vm::VM::read_u16', 'vm::VM::read_u8')
        pool = 'constants' in ln or any((fn.locals[l_].get('name') == 'constants') for l_ in psc.mlocals(c_[3]) | _locals_in(c_[3]))
        if from_operand and pool:
            return r02_6(ctx, site)
        return False, 'not covered'

    def _locals_in(v, acc=None):
        acc = set() if acc is None else acc
        if isinstance(v, tuple):
            if v and v[0] in ('param', 'mlocal') and isinstance(v[1], int):
                acc.add(v[1])
            for x in v:
                _locals_in(x, acc)
        return acc

    def cmp_callers(ctx, site):
        bad = []
        for f in F.all_fns:
            for b, t in f.calls():
                c = t['callee']
                if c.get('trait') == 'core::cmp::PartialOrd' and c.get('self_ty') == 'object::Object':
                    ok = False
                    for fa in facts_at(f, b):
                        if fa[0] == 'callbool' and fa[1][1].endswith('PartialEq::ne') and fa[2] is False and str(fa[1][2]).count('object::Object::tag') == 2:
                            ok = True
                    if not ok:
                        bad.append(f.path)
        return not bad, 'ordering of Objects is requested only after a tag equality test%s' % ((' — except in ' + ', '.join(bad)) if bad else '')

    def call_arm_stack(ctx, site):
        fn = site['f']
        s_ = str(sym(fn, site['term']['cond']))
        from rules import vmx
        arms = vmx.vmx(ctx)['arms']
        arm = next((nm for nm, a in arms.items() if site['block'] in a['region']), None)
        c_ = sym(fn, site['term']['cond'])
        lhs = strip(c_[2]) if c_[0] == 'overflowflag' and c_[1] == 'Sub' else None
        while lhs is not None and lhs[0] == 'binop' and lhs[1] == 'Sub':
            lhs = strip(lhs[2])          # (len - 1) - argc
        is_stack_len = lhs is not None and lhs[0] == 'len' and "'stack'" in str(lhs)
        if arm is None or not is_stack_len or 'as_function' in s_:
            return False, 'not covered'
        s_arm, probs = vmx.summarize(arms[arm])
        if probs:
            return False, 'the stack effect of OpCode::%s cannot be read (%s)' % (arm, probs[0][:60])
        ok, why = _csa_ok(ctx, ('O1', 'O2', 'O3', 'O8', 'O1-underflow'))
        return ok, why or 'at OpCode::%s the operands it removes are on the stack (CSA: they are pushed before it, O1/O8)' % arm

    def arm_assert(ctx, site):
        """assert!/debug_assert! inside an opcode arm whose condition restates an invariant of generated code"""
        fn = site['f']
        b = site['block']
        if macro_of(site['span']) not in ('assert', 'debug_assert'):
            return False, 'not covered'
        from rules import vmx
        V = vmx.vmx(ctx)
        arm = next((nm for nm, a in V['arms'].items() if b in a['region']), None)
        if arm is None:
            return False, 'not covered'
        mine = [f for f in facts_at(fn, b) if f[0] in ('Lt', 'Le', 'Gt', 'Ge') and f[3] == b]
        for f in mine:
            op, x, y = f[0], strip(f[1]), strip(f[2])
            if op in ('Gt', 'Ge'):
                op, x, y = {'Gt': 'Lt', 'Ge': 'Le'}[op], y, x
            # failing side: len(self.stack) < n  -- the arm removes n operands that generated code has pushed
            if op == 'Lt' and x[0] == 'len' and "'stack'" in str(x):
                s_arm, probs = vmx.summarize(V['arms'][arm])
                if probs:
                    return False, 'the stack effect of OpCode::%s cannot be read' % arm
                ok, why = _csa_ok(ctx, ('O1', 'O2', 'O3', 'O8', 'O1-underflow'))
                return ok, why or 'at OpCode::%s the operands it removes are on the stack (CSA O1/O8)' % arm
            # failing side: K < operand byte, K >= the largest Builtin discriminant, in the CallBuiltin arm
            if arm == 'CallBuiltin' and x[0] == 'int' and y[0] == 'call' and y[1] == 'vm::VM::read_u8':
                ds = [v['discr'] if v['discr'] is not None else i for i, v in enumerate(F.adt('builtins::Builtin')['variants'])]
                if (op == 'Lt' and x[1] >= max(ds)) or (op == 'Le' and x[1] > max(ds)):
                    ok, why = _csa_ok(ctx, ('O8',))
                    return ok, why or 'the operand of CallBuiltin is `builtin as u8` (CSA O8), at most %d' % max(ds)
        return False, 'not covered'

    def int_encoder(ctx, site):
        from framework import Report
        from rules import shared
        tmp = Report('tmp', 'quick')
        shared.check_int_encoder_range(ctx, tmp, 'R06.3')
        bad = [o for o in tmp.obs if not o['ok']]
        return not bad, 'every caller of Object::int passes a range-checked or small value (R06.3)%s' % ((' — except ' + bad[0]['fn']) if bad else '')

    def pop_nonempty(ctx, site):
        ok, why = _csa_ok(ctx, ('O1', 'O2', 'O3', 'O4', 'O1-underflow'))
        if not ok:
            return ok, why
        # balance is per frame: it only keeps the stack non-empty if the frame base is computed without wrapping
        from framework import Report
        from rules import c12
        tmp = Report('tmp', 'quick')
        ctx.__dict__['_in_pop_check'] = True
        try:
            c12.check_frame_arith(ctx, tmp, 'R12.4')
        finally:
            ctx.__dict__['_in_pop_check'] = False
        bad = [o for o in tmp.obs if not o['ok'] and o['fn'] != 'vm::VM::pop']
        return not bad, 'generated code is balanced per frame (CSA) and frame bases are computed without wrapping (R12.4)%s' % ((' — but: ' + bad[0]['construct']) if bad else '')

    rows = [
        ('vm::VM::run', 'Assert(Overflow)', 'R02.6/R17.1', call_arm_stack),
        ('vm::VM::run', 'panicking::panic', 'R02.6/R17.1', arm_assert),
        ('object::Object::int', 'assert_failed', 'R06.3', int_encoder),
        ('builtins::call_print', 'unwrap', 'local', print_guard),
        ('vm::VM::run', 'index', 'R02.6/R17.1', constants_index),
        ('vm::VM::run', 'Assert(BoundsCheck)', 'R02.6/R17.1', constants_bounds),
        ('<object::Object as core::cmp::PartialOrd>::partial_cmp', 'assert_failed', 'R06.4', cmp_callers),
        ("<ast::Operator as core::convert::From<lexer::Token<'_>>>::from", 'panic_fmt', 'R07.6', operator_domain),
        ('compiler::Compiler::compile_operator', 'panic_fmt', 'R07.6+CSA', compile_operator_domain),
        ('compiler::Compiler::change_jump_operand_at', None, 'CSA O7', csa('O7')),
        ('compiler::Compiler::remove_last_instruction', None, 'CSA O4', csa('O4')),
        ('compiler::Compiler::compile_expression', 'Vec::<T, A>::pop|unwrap', 'CSA O6', csa('O6', prefix=('Expr::While',))),
        ('symbols::Context::define', None, 'R09.1', symbols_pairing),
        ('symbols::Context::resolve', 'Assert(Overflow)', 'R09.1', symbols_pairing),
        ('symbols::SymbolTable::current_context', None, 'R09.1', symbols_pairing),
        ('symbols::SymbolTable::leave_context', None, 'R09.1', symbols_pairing),
        ('symbols::SymbolTable::leave_scope', None, 'R09.1', symbols_pairing),
        ('symbols::SymbolTable::resolve', 'index', 'R09.1', symbols_pairing),
        ('symbols::SymbolTable::reset_to_global', 'index_mut', 'R09.1', symbols_pairing),
        ('lexer::Tokenizer*', 'Assert(Overflow)', 'local+R08.3', offset_difference),
        ('<lexer::Tokenizer*', 'index', 'local+R08.3', offset_slice),
        ('lexer::Tokenizer*', 'index', 'local+R08.3', offset_slice),
        ('symbols::*', 'unwrap', 'local+R09.1', nonempty_stack),
        ('symbols::*', 'drain|split_off', 'local+R09.1', nonempty_cut),
        ('symbols::*', 'panic_fmt|panicking::panic', 'local+R09.1', nonempty_case),
        ('symbols::*', 'index', 'local+R09.1', nonempty_index0),
        ('object::Object::as_f64', 'assert_failed', 'tag-checked callers', tag_checked_callers),
        ('object::Object::as_str', 'assert_failed', 'tag-checked callers', tag_checked_callers),
        ('object::Object::as_string_mut', 'assert_failed', 'tag-checked callers', tag_checked_callers),
        ('object::Object::as_vec', 'assert_failed', 'tag-checked callers', tag_checked_callers),
        ('object::Object::as_vec_mut', 'assert_failed', 'tag-checked callers', tag_checked_callers),
        ('gc::GC::untrace', 'swap_remove', 'local', position_arg),
        ('vm::VM::get_local', 'index', 'R02.6', r02_6),
        ('vm::VM::set_local', 'index_mut', 'R02.6', r02_6),
        ('vm::VM::pop', None, 'CSA balance + R12.4', pop_nonempty),
        ('vm::VM::popframe', None, 'O6+R17.1', frames_inv),
        ('vm::VM::pushframe', None, 'O6+R17.1', frames_inv),
        ('vm::VM::read_u16', 'Assert(BoundsCheck)', 'local', read_u16_slice),
        ("lexer::Tokenizer::<'a>::read_str", 'index', 'R08.3', lexer_boundaries),
        ("lexer::Tokenizer::<'a>::skip_while", 'unwrap', 'R08.3', lexer_boundaries),
        ("<lexer::Tokenizer<'a> as core::iter::traits::iterator::Iterator>::next", 'Assert(Overflow)', 'R08.3', lexer_boundaries),
        ("parser::Parser::<'a>::parse_float_expression", 'unwrap', 'R08.6', float_shape),
        ('vm::index_set_string', 'unwrap', 'local', nth_guard),
        ('vm::index_get_string', 'unwrap', 'local', nth_guard),
        ('vm::index_set_string', 'replace_range', 'local', always('the range is a char_indices() position plus that character\'s len_utf8(): both ends are character boundaries')),
    ]
    return rows



def _pinned_lib():
    try:
        from mirlib import load_pinned
        p_ = load_pinned()
        return set(p_['lib']) if p_ and 'lib' in p_ else None
    except Exception:
        return None


def feeds_only_debug_assertions(ctx, fn, local):
    """the value of `local` (a call result) is used for nothing but the condition of debug assertions: every branch it decides
    is the test in front of a `debug_assert*!` failure"""
    from rules.shared import LocalFlow
    if _ALL_SITES[0] is None:
        _ALL_SITES[0] = psc.census(ctx)
    lf = LocalFlow(fn)
    fed = lf.forward(local)
    das = [s2 for s2 in _ALL_SITES[0] if s2['f'] is fn and s2['kind'] == 'call' and macro_of(s2['span']) in ('debug_assert', 'debug_assert_eq', 'debug_assert_ne')]
    fail = set()
    for s2 in das:
        work = [s2['block']]
        for _ in range(40):
            if not work:
                break
            x = work.pop()
            if x in fail:
                continue
            fail.add(x)
            for p_ in fn.pred(x):
                if fn.term(p_)['k'] == 'goto':
                    work.append(p_)
    deciding = [b_ for b_ in range(len(fn.blocks)) if fn.term(b_)['k'] == 'switch' and op_base_local(fn.term(b_).get('op')) in fed]
    if not deciding:
        return False
    for b_ in deciding:
        if not any(x in fail for x in fn.succ(b_)):
            # a switch on the value (or on what `&&` made of it) must lead to an assertion failure on one side, or to another
            # test of the same condition chain
            if not any(fn.term(x)['k'] == 'switch' and x in deciding for x in fn.succ(b_)):
                return False
    # ... and it is not stored, returned or handed to a call with an effect
    for b_, t_ in fn.calls():
        if any(op_base_local(a_) in fed for a_ in t_['args']) and not callee_name(t_).startswith(('core::panicking', 'core::fmt')):
            if fn.local_ty(t_['dest']['local']) not in ('bool', '()'):
                return False
    return 0 not in fed


def _helper_in_assertion(F, fn, h, closure=None):
    """None: helper h is not spliced into fn; False: it is, but serves more than debug assertions (or is not read-only);
    ('DA', why): every result of it in fn feeds nothing but the test of an acceptable debug assertion.
    With `closure` (the path of a closure written in fn) the same question is asked of the closure value: it is handed only to
    calls whose results feed nothing but such a test (`debug_assert!(list.iter().all(|x| ..))`)."""
    from rules.shared import LocalFlow
    if True:
        if True:
            calls_ = [bl for bl in fn.blocks if bl['term'].get('inl_call') == h] if closure is None else [None]
            if not calls_:
                return None
            # what the helper returned (the locals its spliced `return`s assign) must feed nothing but the test of a debug
            # assertion: the switch right before an assertion's panic
            rets = {st['place']['local'] for bl in fn.blocks for st in bl['stmts'] if h is not None and st.get('inl_ret') == h}
            if closure is not None:
                rets = {st['place']['local'] for bl in fn.blocks for st in bl['stmts']
                        if st['k'] == 'assign' and st['rv']['k'] == 'aggregate' and st['rv'].get('closure') == closure}
                if not rets:
                    return None
            from rules.shared import LocalFlow
            lf = LocalFlow(fn)
            fed = set()
            for l_ in rets:
                fed |= lf.forward(l_)
            das = [s2 for s2 in (_ALL_SITES[0] or []) if s2['f'] is fn and s2['kind'] == 'call' and macro_of(s2['span']) in ('debug_assert', 'debug_assert_eq', 'debug_assert_ne')]
            tests = set()
            for s2 in das:
                cur_ = s2['block']
                for _ in range(30):
                    pr_ = fn.pred(cur_)
                    if len(pr_) != 1:
                        break
                    if fn.term(pr_[0])['k'] == 'switch':
                        l2 = op_base_local(fn.term(pr_[0]).get('op'))
                        if l2 in fed:
                            tests.add((s2['span'].get('line'), pr_[0]))
                        break
                    cur_ = pr_[0]
            other_uses = [b_ for b_ in range(len(fn.blocks)) if fn.term(b_)['k'] == 'switch' and op_base_local(fn.term(b_).get('op')) in fed and b_ not in {tb for _, tb in tests}]
            if tests and not other_uses and closure is None:
                calls_ = [bl for bl in calls_]
                for bl in calls_:
                    bl['term'].setdefault('_da_lines', sorted({ln for ln, _ in tests}))
            macs_ = ['debug_assert' if (tests and not other_uses) else None]
            if all(m_ in ('debug_assert', 'debug_assert_eq', 'debug_assert_ne') for m_ in macs_):
                # pure helper: no call in it takes a mutable reference - except to a variable of the helper itself (a work list, a
                # table it fills while it scans): owned locals that are assigned only inside the helper's own blocks
                inside = {b_ for b_ in range(len(fn.blocks)) if h in (fn.blocks[b_].get('inl') or ())}
                if closure is not None:
                    # the calls the closure value (or what was computed from it) is handed to
                    inside = {b_ for b_, t_ in fn.calls() if any(op_base_local(a_) in fed for a_ in t_['args'])}
                own = set()
                for l_, ds_ in fn.defs().items():
                    if ds_ and (closure is not None or all(d_[1] in inside for d_ in ds_)) and not (fn.local_ty(l_) or '').startswith(('&', '*')) and l_ > fn.arg_count:
                        own.add(l_)
                for b_, t_ in fn.calls():
                    if (h in (fn.blocks[b_].get('inl') or ())) if closure is None else (b_ in inside):
                        for a_ in t_['args']:
                            l_ = op_base_local(a_)
                            if l_ is not None and fn.local_ty(l_).startswith('&') and ' mut ' in fn.local_ty(l_)[:24]:
                                if lf.mut_target(a_) in own:
                                    continue
                                return False
                # the assertions it serves must themselves be acceptable
                lines_ = {ln for ln, _ in tests}
                outer = [s2 for s2 in _ALL_SITES[0] if s2['f'] is fn and s2['kind'] == 'call' and macro_of(s2['span']) in ('debug_assert', 'debug_assert_eq', 'debug_assert_ne')
                         and s2['span'].get('line') in lines_] if _ALL_SITES[0] else []
                if outer and all(developer_assertion(F, s2) for s2 in outer):
                    return 'DA', 'a machine check inside a helper that only evaluates the condition of a debug assertion: part of that ASSUMPTION'
                return False
        return False


def developer_assertion(F, s):
    """A `debug_assert*!` that no rule proves is the developer's claim of an invariant, evaluated in debug builds only.  It cannot
    make the two build profiles differ, nor change a result, unless it FAILS - which static rules in reach cannot decide in
    general.  It is accepted as an assumption (and listed as such) when (i) evaluating its condition has no side effect - every
    call inside the expansion takes its arguments by value or shared reference - and (ii) no unsafe operation follows it before
    the next turn of an enclosing loop or the end of the function (where an assertion states the safety condition of unchecked
    code - VM::pop, GC::mark - it must be proven, not assumed)."""
    mac = macro_of(s['span'])
    fn = s['f']
    from rules.unsafe_inv import user_site
    if mac not in ('debug_assert', 'debug_assert_eq', 'debug_assert_ne'):
        # a machine check inside a helper that is new and is only ever called from the condition of a debug assertion
        # (`debug_assert!(self.accounts_balance())`): it is evaluated as part of that condition
        # ... or inside a closure written in the condition of a debug assertion of a function of the tree
        # (`debug_assert!(ctx.breaks.iter().all(|&ip| self.instructions[ip] == ..))`)
        if '::{closure' in fn.path:
            parent = fn.path.rsplit('::{closure', 1)[0]
            if parent in F.fns:
                r_ = _helper_in_assertion(F, F.fns[parent], None, closure=fn.path)
                if r_:
                    for b_, t_ in fn.calls():
                        for a_ in t_['args']:
                            l_ = op_base_local(a_)
                            if l_ is not None and fn.local_ty(l_).startswith('&') and ' mut ' in fn.local_ty(l_)[:24]:
                                return None
                    return 'DA', 'a machine check inside a closure that only evaluates the condition of a debug assertion: part of that ASSUMPTION'
        inl = fn.blocks[s['block']].get('inl') or ()
        for h in inl:
            r_ = _helper_in_assertion(F, fn, h)
            if r_:
                return r_
        # ... or inside a closure written in such a helper (`targets.iter().all(|t| starts[*t])`): the closure is part of the helper,
        # which every function that contains it evaluates only as the condition of a debug assertion
        if '::{closure' in fn.path and not inl:
            parent = fn.path.split('::{closure')[0]
            pin_ = _pinned_lib()
            if pin_ is not None and parent not in pin_:
                hosts = [g for g in F.all_fns if g.crate == 'lib' and any(parent in (bl.get('inl') or ()) for bl in g.blocks)]
                if hosts:
                    rs_ = [_helper_in_assertion(F, g, parent) for g in hosts]
                    if all(r for r in rs_):
                        # the closure itself must be read-only too
                        for b_, t_ in fn.calls():
                            for a_ in t_['args']:
                                l_ = op_base_local(a_)
                                if l_ is not None and fn.local_ty(l_).startswith('&') and ' mut ' in fn.local_ty(l_)[:24]:
                                    return None
                        return 'DA', 'a machine check inside a closure of a helper that only evaluates the condition of a debug assertion: part of that ASSUMPTION'
        return None
    if fn.j.get('unsafe'):
        return None
    # what the assertion could be the safety condition of: the code that runs after it held, up to the next turn of an enclosing
    # loop (in the dispatch function: the rest of the opcode arm) or the end of the function
    cur = s['block']
    cont = None
    if s['kind'] == 'assert':
        # a machine check (overflow) inside the expansion of the assertion: part of evaluating its condition
        cont = [s['term']['target']] if s['term'].get('target') is not None else []
        test_block = s['block']
    for _ in range(30 if cont is None else 0):
        preds = fn.pred(cur)
        if len(preds) != 1:
            break
        pt = fn.term(preds[0])
        if pt['k'] == 'switch':
            cont = [x for x in fn.succ(preds[0]) if x != cur]
            test_block = preds[0]
            break
        cur = preds[0]
    if cont is None:
        # a condition written with && / ||: several tests lead to the one failure block.  Walk back from it through blocks that
        # only pass control on, to the switches that decide; what follows the assertion is what those switches reach otherwise
        fail = {s['block']}
        work = [s['block']]
        tests_ = set()
        okw = True
        for _ in range(40):
            if not work:
                break
            x = work.pop()
            for p_ in fn.pred(x):
                tp_ = fn.term(p_)
                if tp_['k'] == 'switch':
                    tests_.add(p_)
                elif tp_['k'] == 'goto' and len(fn.succ(p_)) == 1 and p_ not in fail:
                    fail.add(p_)
                    work.append(p_)
                else:
                    okw = False
        if okw and tests_ and not work:
            cont = sorted({x for tb_ in tests_ for x in fn.succ(tb_) if x not in fail and x not in tests_})
            test_block = min(tests_)
    if cont is None:
        return None
    # ... up to the next loop of any kind: what runs inside a later loop (the dispatch loop after the set-up of run) is guarded by
    # that loop's own invariants, not by an assertion made once before it
    headers = {h for h, body in fn.natural_loops()}
    after = set()
    for c0 in cont:
        after |= fn.reachable(c0, stop=headers)
    # an unsafe operation that follows matters only if its own obligation is open: where the rule of its class (tag test before a
    # typed access, stack balance before the unchecked pop ...) holds, the operation is safe whatever the assertion says
    open_fns = _unsafe_open_fns()
    host = fn.path
    if host in open_fns:
        for b, t in fn.calls():
            if b in after and t['callee'].get('unsafe') and user_site(t['span']):
                return None
        for b, si, st in fn.stmts():
            if b in after and st['k'] == 'assign' and st['rv']['k'] == 'rawptr':
                return None
    line = s['span'].get('line')
    for b, t in fn.calls():
        sp = t['span']
        ms = [m.split('::')[-1] for m in (sp.get('macros') or [])]
        if mac not in ms or sp.get('line') != line:
            continue
        n = callee_name(t)
        if n.startswith(('core::panicking', 'core::fmt', 'std::panicking', 'core::fmt::rt')) or 'fmt::Arguments' in n or n.endswith(('::fmt', 'Argument::<\'_>::new_debug', 'Argument::<\'_>::new_display')):
            continue
        for a in t['args']:
            l = op_base_local(a)
            if l is not None:
                ty = fn.local_ty(l)
                if ty.startswith('&') and ' mut ' in ty[:24]:
                    return None
    return 'DA', 'a developer assertion of debug builds that no rule proves: accepted as an ASSUMPTION (its condition has no side effect, no unsafe operation follows it); if it can fail, debug builds panic here'


def verdict_for(ctx, s, rows=None, cache=None):
    """(ok, text) for one panic site: D0-D2 local discharge, host-I/O class, D3 table, D4"""
    F = ctx.facts()
    _CTX[0] = ctx
    if _ALL_SITES[0] is None:
        _ALL_SITES[0] = psc.census(ctx)
    rows = rows if rows is not None else d3_table(ctx)
    cache = cache if cache is not None else ctx.__dict__.setdefault('_d3cache', {})
    fn = s['f']
    t = s['term']
    what = s['what']
    short = what.split('::')[-1] if s['kind'] == 'call' else what
    mac = macro_of(s['span'])
    d = discharge(F, s)
    verdict = None
    if d:
        verdict = (True, '%s: %s' % d)
    elif s['kind'] == 'call' and what.endswith('::unwrap') and 'try_into' in str(sym(fn, t['args'][0]))[:80]:
        verdict = (False, 'D4: a size conversion (position/count -> u16/u8) panics when the program is too large')
    else:
        # bin: host I/O failures are not failures of an input text
        if s['fn'].startswith('bin::') and s['kind'] == 'call' and what.endswith('::unwrap'):
            a = str(sym(fn, t['args'][0]))
            if ('std::io' in a or 'std::fs' in a) and 'nederlang::' not in a.split('(')[1 if a.startswith("('call'") else 0][:60]:
                src = sym(fn, t['args'][0])
                if src[0] == 'call' and (src[1].startswith('std::io') or src[1].startswith('std::fs') or src[1].startswith('<std::io')):
                    verdict = (True, 'ENV: failure of host I/O (%s), not of an input text' % src[1])
        if verdict is None:
            for (rf, rw, rule, ver) in rows:
                # a site inside a helper that was spliced into this function also answers to the rows of the helper's module
                origins_ = [s['fn'], s['fn'].split('::{closure')[0]] + [h_ for h_ in (fn.blocks[s['block']].get('inl') or ()) if isinstance(h_, str)]
                if not any(rf == o_ or (rf.endswith('*') and o_.startswith(rf[:-1])) for o_ in origins_):
                    continue
                if rw is not None and not any(w in what for w in rw.split('|')):
                    continue
                if rw == 'Vec::<T, A>::pop|unwrap':
                    a = str(sym(fn, t['args'][0]))
                    if 'loop_contexts' not in a or not what.endswith('unwrap'):
                        continue
                ck = (rf, rw, rule)
                if ck not in cache:
                    try:
                        cache[ck] = ver(ctx, s)
                    except CheckerError:
                        raise
                ok, why = cache[ck]
                if rule.startswith('local') or rule == 'R02.6/R17.1':
                    ok, why = ver(ctx, s)
                if not ok and why == 'not covered':
                    continue
                verdict = (ok, 'D3[%s]: %s' % (rule, why))
                break
    if verdict is None or not verdict[0]:
        pd = path_discharge(F, s) or countdown_index(F, s) or countup_index(F, s) or assertion_infeasible(F, s) or otherwise_infeasible(F, s) or const_range_on_array(F, s)
        if pd:
            verdict = (True, '%s: %s' % pd)
    if verdict is None or not verdict[0]:
        da = developer_assertion(F, s)
        if da:
            verdict = (True, '%s: %s' % da)
    if verdict is None:
        if s['kind'] == 'call' and what.endswith('::unwrap') and 'try_into' in str(sym(fn, t['args'][0]))[:80]:
            verdict = (False, 'D4: a size conversion (position/count -> u16/u8) panics when the program is too large')
        elif s['kind'] == 'assert':
            verdict = (False, 'no guard discharges %s on %s' % (t['msg'], str(sym(fn, t['cond']))[:140]))
        else:
            verdict = (False, 'panic source not discharged (%s)' % (mac or short))
    return verdict


def run(ctx, rep):
    F = ctx.facts()
    rep.rule('R05.1', 'no undischarged panic source in any function reachable from the entry points (PSC census + D0-D3)')
    rep.rule('R05.2', 'every front-end loop makes progress on every iteration; recursion consumes input (TRM)')
    rep.rule('R05.3', 'every object::Error produced in the pipeline is propagated or deliberately handled')
    rep.rule('R05.4', 'the command-line front end does not unwrap what parse/compile_ast return')
    rep.rule('R05.5', 'a program that calls without end fails with an error: the number of call frames is bounded by a test with an error edge (it is not the host running out of memory that ends it)')
    from rules import c12 as _c12
    _c12.check_frame_depth(ctx, rep, 'R05.5')
    sites = psc.census(ctx)
    rep.count('panic_sources', len(sites))
    rep.count('reachable_functions', len(psc.reachable(ctx)))
    rows = d3_table(ctx)
    cache = {}
    tally = {}
    # a site is identified by the function it is written in: code moved into a closure of the same function (an iterator
    # adaptor instead of a loop) keeps its identity; ordinals run over the function body first, then its closures
    renum = {}
    order = sorted(range(len(sites)), key=lambda i: (sites[i]['fn'].split('::{closure')[0], '{closure' in sites[i]['fn'], sites[i]['fn'], sites[i]['what'], sites[i]['ord']))
    seq = {}
    for i in order:
        s = sites[i]
        parent = s['fn'].split('::{closure')[0]
        k = (parent, s['what'], macro_of(s['span']))
        seq[k] = seq.get(k, 0) + 1
        renum[i] = (parent, seq[k])
    for i, s in enumerate(sites):
        fn = s['f']
        t = s['term']
        what = s['what']
        short = what.split('::')[-1] if s['kind'] == 'call' else what
        mac = macro_of(s['span'])
        keyfn, kord = renum[i]
        construct = '%s#%d%s' % (short if s['kind'] == 'assert' else what.replace('core::', '').replace('alloc::', ''), kord, (' in %s!' % mac) if mac else '')
        loc = span_loc(s['span'])
        verdict = verdict_for(ctx, s, rows, cache)
        tally[verdict[1].split(':')[0].split('[')[0]] = tally.get(verdict[1].split(':')[0].split('[')[0], 0) + 1
        rep.ob(verdict[0], 'R05.1', keyfn, construct, verdict[1] + ('' if keyfn == s['fn'] else ' [in %s]' % s['fn'].split('::', 2)[-1]), loc)
    rep.table('discharge_tally', tally)
    for s in sites[:5]:
        rep.sample({'fn': s['fn'], 'site': s['what'], 'loc': span_loc(s['span'])})
    from rules import trm
    trm.check(ctx, rep, 'R05.2')
    check_results(ctx, rep)


def check_results(ctx, rep):
    """R05.3 / R05.4"""
    F = ctx.facts()
    reach = psc.reachable(ctx)
    n = 0
    for key in sorted(reach):
        fn = F.fns[key]
        for b, t in fn.calls():
            ret = None
            # calls whose destination type is Result<_, object::Error>
            dl = t['dest']['local']
            ty = fn.local_ty(dl) if not t['dest']['proj'] else t['dest']['ty']
            if 'core::result::Result<' not in ty or 'object::Error' not in ty:
                continue
            n += 1
            # uses of the destination local
            uses = []
            for bb, si, st in fn.stmts():
                if st['k'] == 'assign':
                    for opnd in _operands_of(st['rv']):
                        if op_base_local(opnd) == dl:
                            uses.append(('stmt', bb))
                    if st['rv'].get('place') and st['rv']['place']['local'] == dl:
                        uses.append(('place', bb))
            for bb, tt in fn.calls():
                for a in tt['args']:
                    if op_base_local(a) == dl:
                        uses.append(('call', callee_name(tt)))
            for bb in range(len(fn.blocks)):
                tt = fn.term(bb)
                if tt['k'] == 'switch' and op_base_local(tt['op']) == dl:
                    uses.append(('switch', bb))
                if tt['k'] == 'drop' and tt['place']['local'] == dl:
                    pass
            ret0 = dl == 0
            ok = ret0 or bool(uses)
            if key.startswith('bin::'):
                bad = [u for u in uses if u[0] == 'call' and u[1].endswith(('::unwrap', '::expect'))]
                rep.ob(not bad, 'R05.4', key, 'Result of %s' % callee_name(t).split('::')[-1],
                       'the CLI must report errors of the interpreter, not unwrap them' if bad else 'handled', span_loc(t['span']))
            else:
                rep.ob(ok, 'R05.3', key, 'Result of %s@%s' % (callee_name(t).split('::')[-1], ''), 'the error value flows to a return, a match or a test (not dropped unused)', span_loc(t['span']), nontrivial=False)
    rep.count('result_call_sites', n)


def _operands_of(rv):
    k = rv['k']
    if k in ('use', 'cast', 'repeat'):
        return [rv['op']]
    if k == 'binop':
        return [rv['l'], rv['r']]
    if k == 'unop':
        return [rv['x']]
    if k == 'aggregate':
        return rv['ops']
    return []
