"""C01 — running a program yields what its source text denotes: the wiring clauses."""
from mirlib import *
from rules import tables, vmx, chain, csa_run
from rules.shared import deref

META = {
    'title': 'Running a program yields exactly what its source text denotes',
    'explanation': 'Wiring clauses only: (R01.1) eval is parse -> compile_ast -> run on fresh instances with every error propagated; '
                   '(R01.2) each operator lexeme denotes the documented operation along the whole chain lexer -> parser -> compiler -> VM '
                   '-> object layer (15-cell table, composed from extracted maps); (R01.3) operands reach the operation in source order on '
                   'the generic and the fused path; (R01.4) the value of a program is the last popped expression-statement value.'
                   ' (R01.5) expression statements end in Pop; (R01.6) every obligation of the compiler shape analysis and the control-flow graph of each if/loop/function arm hold (what C02, C09, C11, C12 check in detail); (R01.7) literals reach the program by value and the constant pool holds literal payloads as written; (R01.8) integer results pass the checked encoder. (R01.9) the decoders of immediates (as_int / as_bool / as_function) run only behind a test of the matching tag, on fast paths too; (R01.10) whatever the name lookup reads besides the scope structure (a cache of answers) is kept in step by every method that changes the structure.',
    'exhaustive': True,
    'not_decided': ['equality of results with a definitional evaluation for all programs (values of variables, output text, error position, '
                    'composition of features)'],
}
META['explanation'] += " R01.11 the jump placeholder is only written, never compared (a legal program is not refused for where its code lands). R01.12 the parser's binding-power table (shared with R07.1). R01.13 the frame size counts every parameter and local (shared with R02.6)."
META['explanation'] += " R01.14 a name resolves to the current function's context or the global one only (shared with R09.3)."
META['explanation'] += ' R01.0 the rules of C06-C14 (each states one part of what a source text denotes) are evaluated as part of this check: what they report that is not a known finding of theirs is reported here too.'

ORACLE = {'+': '+', '-': '-', '*': '*', '/': '/', '%': '%', '<': '<', '<=': '<=', '>': '>', '>=': '>=', '==': '==', '!=': '!=', '&&': '&&', '||': '||'}
MIRROR = {'+': '+', '*': '*', '==': '==', '!=': '!=', '<': '>', '>': '<', '<=': '>=', '>=': '<='}


def run(ctx, rep):
    F = ctx.facts()
    rep.rule('R01.1', 'eval = parse ; Compiler::new().compile_ast ; VM::new().run with the Ok payload of each stage feeding the next and every Err propagated')
    rep.rule('R01.2', 'denotation chain lexeme -> Token -> Operator -> OpCode -> VM callee -> primitive equals the documented operator (15 cells)')
    rep.rule('R01.3', 'operand order: left operand = receiver on the generic path; fused opcodes only when that preserves the sides')
    rep.rule('R01.4', 'result plumbing: only Pop writes the result variable; Halt is the only Ok return')
    rep.rule('R01.5', 'an expression statement always ends in Pop, the instruction that records the value of a program / block')
    from rules import c11
    c11.check_stmt_expr_pop(csa_run.analyse(ctx), rep, 'R01.5')
    rep.rule('R01.6', 'the code-generation scheme is well formed for every syntax-tree shape: each obligation of the compiler shape analysis (balanced '
                      'operand stack, jump targets, scopes and slots, loop and function contexts) holds - a scheme that breaks one changes what some program means')
    R = csa_run.analyse(ctx)
    nv = 0
    for v in R['violations']:
        if v['oblig'] in ('R17.2',):
            continue        # dirt left behind by a *failed* compilation concerns the next line of a session (C17), not this program
        nv += 1
        rep.bad('R01.6', 'compiler::Compiler::' + v['method'], '%s %s' % (v['oblig'], v['construct']), v['text'], 'src/compiler.rs', key='%s %s' % (v['oblig'], v['kc']))
    arms = {(a['method'], a['trace']) for a in R['arms']}
    bad_traces = {(v['method'], v['construct'].split(' :: ')[0]) for v in R['violations']}
    rep.ob(True, 'R01.6', 'compiler::Compiler', 'scheme obligations', '%d arm paths of the compiler examined, %d without a finding' % (len(arms), len(arms - bad_traces)), 'src/compiler.rs')
    rep.count('csa_arm_paths', len(arms))
    # the control-flow graph of each if / loop / function arm (what C11 states in detail is a necessary part of `means the same`)
    c11.check_cfg(ctx, rep, {r: 'R01.6' for r in ('R11.1', 'R11.2', 'R11.3', 'R11.5')}, pfx='cfg_')
    rep.rule('R01.7', 'a literal denotes the value written, at every evaluation: what the constant pool holds reaches the program by value (types the VM mutates in place are copied)')
    from rules import c10
    c10.check_pool_by_value(ctx, rep, 'R01.7')
    c10.check_literal_constants(ctx, rep, 'R01.7')
    rep.rule('R01.8', 'a result outside the integer range is an error, not a wrapped value: integers are encoded only through the checked constructor or from range-checked values')
    from rules import shared as _shared
    _shared.check_int_encoder_range(ctx, rep, 'R01.8')
    rep.rule('R01.11', 'a legal program is never refused for where its code lands: the jump placeholder is only written, never read back')
    _shared.check_placeholder_write_only(ctx, rep, 'R01.11')
    rep.rule('R01.12', 'the tree the back end translates is the tree the text denotes: operators group as documented (the binding-power table of the parser)')
    from rules import c07 as _c07
    _c07.check_binding_table(ctx, rep, 'R01.12', counts=False)
    rep.rule('R01.13', 'every variable of a function has a slot of its own in the activation: the frame size packed into the function value counts every parameter and local')
    from rules import c02 as _c02
    _c02.check_frame_size(ctx, rep, 'R01.13')
    rep.rule('R01.14', 'a name means a variable of the function being compiled or a global, never a slot of an enclosing function: the lookup consults exactly the current context and the global one')
    from rules import c09 as _c09v
    _c09v.check_visibility(ctx, rep, 'R01.14')
    rep.rule('R01.9', 'a type error stays a type error on every path, fast paths included: a value is decoded only as what it is: every as_int / as_bool / as_function is preceded on every path by a test that the object has that tag (the decoders only shift the word: `ja` would read as 1, null as 0)')
    from rules import unsafe_inv as _ui
    _ui.check_immediates(ctx, rep, 'R01.9')
    rep.rule('R01.10', 'a name means the declaration that is visible where it stands: the lookup answers from the scope structure as it is now (state it reads besides, such as a cache of answers, is kept in step by every method that changes the structure)')
    from rules import c09 as _c09
    _c09.check_memo(ctx, rep, 'R01.10')
    check_pipeline(ctx, rep, 'R01.1')
    # ---- chain ---------------------------------------------------------------------------------
    lt = tables.lexer_table(ctx)['table']
    of = tables.operator_from_token(ctx)['map']
    co = tables.compile_operator_map(ctx)['map']
    sem = chain.object_method_semantics(ctx)
    rows = {}
    for lx, want in ORACLE.items():
        tok = lt.get(lx)
        op = of.get(tok)
        oc = co.get(op)
        cal = chain.vm_callee(ctx, oc) if isinstance(oc, str) else None
        meth = None
        den = None
        if cal and len(cal) == 1:
            meth = next(iter(cal))[0]
            den = chain.classify(sem[meth]) if meth in sem else None
        rows[lx] = [tok, op, oc, meth, den]
        rep.ob(den == want, 'R01.2', 'chain', 'lexeme %s' % lx, '%s -> Token::%s -> Operator::%s -> OpCode::%s -> Object::%s -> %s (documented: %s)' % (lx, tok, op, oc, meth, den, want), 'src/lexer.rs')
        rep.sample({'lexeme': lx, 'chain': rows[lx]})
    rep.table('denotation_chain', rows)
    # prefix operators: from the CSA arm of Expr::Prefix and the VM arms
    R = csa_run.analyse(ctx)
    pre = {}
    for a in R['arms']:
        if a['method'] == 'compile_expression' and a['trace'].startswith('Expr::Prefix') and a['reach']:
            ops = [c['op'] for c in a['code'] if c['kind'] == 'op']
            m = [s for s in a['trace'].split(' / ')[1:]]
            pre.setdefault(' / '.join(m), set()).add(tuple(ops))
    rep.table('prefix_arms', {k: sorted(map(list, v)) for k, v in pre.items()})
    v = vmx.vmx(ctx)

    def arm_unop(op):
        arm = v['arms'].get(op)
        res = set()
        if arm:
            for r in arm['paths']:
                if r['kind'] == 'continue':
                    for val in r['path'].env.values():
                        pass
                    for c in r['path'].calls:
                        if c[1] == 'vm::VM::push':
                            pushed = deref(r['path'].env, c[2][1])
                            for st_ in subtrees(pushed):
                                if st_ and st_[0] == 'unop':
                                    res.add((st_[1], st_[3]))
                                if st_[0] == 'call' and st_[1].split('::')[-1] in ('checked_neg', 'wrapping_neg', 'overflowing_neg'):
                                    res.add(('Neg', 'isize'))
                    # values may be matched through Option: look at the calls too
                    for c in r['path'].calls:
                        if c[1].split('::')[-1] == 'checked_neg':
                            res.add(('Neg', 'isize'))
        return res
    tokbang, tokminus = lt.get('!'), lt.get('-')
    not_ok = any('Not' in k and ('Not',) in vs for k, vs in pre.items())
    neg_ok = any(('Subtract' in k or 'Negate' in k) and ('Negate',) in vs for k, vs in pre.items())
    un_not = arm_unop('Not')
    un_neg = arm_unop('Negate')
    rep.ob(of.get(tokbang) == 'Not' and not_ok and ('Not', 'bool') in un_not, 'R01.2', 'chain', 'prefix !',
           '! -> %s -> Operator::%s -> OpCode::Not -> %s' % (tokbang, of.get(tokbang), sorted(un_not)), 'src/vm.rs')
    rep.ob(of.get(tokminus) == 'Subtract' and neg_ok and any(u[0] == 'Neg' for u in un_neg), 'R01.2', 'chain', 'prefix -',
           'unary - -> %s -> Operator::%s -> OpCode::Negate -> %s' % (tokminus, of.get(tokminus), sorted(un_neg)), 'src/vm.rs')

    # ---- R01.3 -----------------------------------------------------------------------------------
    generic_ops = sorted({co.get(of.get(lt.get(lx))) for lx in ORACLE} - {None})
    for oc in generic_ops:
        cal = chain.vm_callee(ctx, oc)
        ok = bool(cal) and all(args == ('pop#2', 'pop#1') for _, args in cal)
        rep.ob(ok, 'R01.3', v['fn'].path, 'OpCode::%s operand order' % oc, 'the second value popped (left operand) is the receiver, the first popped the argument: %s' % sorted(cal or []), 'src/vm.rs')
    for m, info in sem.items():
        sides = {(p[2], p[3]) for p in info['int'] | info['float']} | {(c[1], c[2]) for c in info['cmp']}
        if sides:
            rep.ob(sides == {(1, 2)}, 'R01.3', 'object::Object::' + m, 'primitive operand sides', 'self is the left operand of the primitive, rhs the right: %s' % sorted(sides), 'src/object.rs')
    # Infix arm compiles left before right
    seen_generic = False
    seen_tr = set()
    for a in R['arms']:
        if a['method'] == 'compile_expression' and a['trace'].startswith('Expr::Infix') and a['reach']:
            blobs = [c['arg'].split('/')[-1] for c in a['code'] if c['kind'] == 'blob']
            if blobs and a['trace'][:60] not in seen_tr:
                seen_tr.add(a['trace'][:60])
                seen_generic = True
                rep.ob(blobs == ['Infix.left', 'Infix.right'], 'R01.3', 'compiler::Compiler::compile_expression', 'Infix operand compilation order ' + a['trace'][:60],
                       'left operand is compiled (pushed) before the right one: %s' % blobs, 'src/compiler.rs', nontrivial=False)
    if not seen_generic:
        rep.bad('R01.3', 'compiler::Compiler::compile_expression', 'Infix generic path', 'no generic path compiles both operands', 'src/compiler.rs')
    check_fused_sides(ctx, rep, 'R01.3')

    # ---- R01.4 -----------------------------------------------------------------------------------
    fn = v['fn']
    # the local returned by Halt
    halt = v['arms'].get('Halt')
    result_local = None
    ok_returns = []
    for op, arm in v['arms'].items():
        for r in arm['paths']:
            if r['kind'] == 'ok':
                ok_returns.append(op)
                rv = r['path'].env.get('_0')
                if rv and rv[0] == 'agg' and rv[3]:
                    pass
    rep.ob(sorted(set(ok_returns)) == ['Halt'], 'R01.4', fn.path, 'Ok returns', 'the only `return Ok(..)` of the dispatch loop is in the Halt arm: %s' % sorted(set(ok_returns)), 'src/vm.rs')
    # find the local named final_result / returned in Halt: the operand of Result::Ok aggregate in the Halt region
    for b in sorted(halt['region']) if halt else []:
        for st in fn.blocks[b]['stmts']:
            if st['k'] == 'assign' and st['rv']['k'] == 'aggregate' and st['rv'].get('variant') == 'Ok' and st['place']['local'] == 0:
                src = fn.resolve_copy(st['rv']['ops'][0])
                result_local = op_local(src)
    if result_local is None:
        raise CheckerError('R01.4: cannot find the variable returned by the Halt arm')
    writers = set()
    for op, arm in v['arms'].items():
        for b in arm['region']:
            for st in fn.blocks[b]['stmts']:
                if st['k'] == 'assign' and st['place']['local'] == result_local and not st['place']['proj']:
                    writers.add(op)
            t = fn.term(b)
            if t['k'] == 'call' and t['dest']['local'] == result_local and not t['dest']['proj']:
                writers.add(op)
    rep.ob(writers == {'Pop'}, 'R01.4', fn.path, 'writers of the result variable', 'only the Pop arm assigns `%s`: %s' % (fn.local_name(result_local), sorted(writers)), 'src/vm.rs')
    # and what Pop assigns is the popped value
    pop_ok = False
    for r in v['arms']['Pop']['paths']:
        if r['kind'] == 'continue':
            val = r['path'].env.get('_%d' % result_local)
            pop_ok = bool(val and val[0] == 'call' and val[1] == 'vm::VM::pop')
    rep.ob(pop_ok, 'R01.4', fn.path, 'Pop stores the popped value', 'final result := pop()', 'src/vm.rs')


def check_pipeline(ctx, rep, rule):
    F = ctx.facts()
    fn = F.fn('eval')
    want = ['parser::parse', 'compiler::Compiler::new', 'compiler::Compiler::compile_ast', 'vm::VM::new', 'vm::VM::run']
    n_ok = 0
    for p in AbsInt(F, fn).run():
        if p.exit != 'return':
            continue
        calls = [c for c in p.calls if not c[1].startswith('<core::result::Result') and c[1] != 'drop' and 'from_residual' not in c[1]]
        names = [c[1] for c in calls]
        r = simp(p.env.get('_0'))
        if names == want:
            n_ok += 1
            ca = calls[2]
            ra = calls[4]
            ast_ok = deref(p.env, ca[2][1]) == ('okval', ('call', 'parser::parse', calls[0][2], calls[0][0])) or simp(deref(p.env, ca[2][1]))[0] == 'okval'
            comp_ok = simp(deref(p.env, ca[2][0]))[0] == 'call' and simp(deref(p.env, ca[2][0]))[1] == 'compiler::Compiler::new'
            code = simp(deref(p.env, ra[2][1]))
            code_ok = code[0] == 'okval' and code[1][0] == 'call' and code[1][1] == 'compiler::Compiler::compile_ast'
            vm_ok = simp(deref(p.env, ra[2][0]))[0] == 'call' and simp(deref(p.env, ra[2][0]))[1] == 'vm::VM::new'
            ret_ok = r and r[0] == 'call' and r[1] == 'vm::VM::run'
            prog_ok = deref(p.env, calls[0][2][0]) in (('local', 1), ('deref', ('local', 1))) or calls[0][2][0] == ('local', 1)
            rep.ob(ast_ok and comp_ok and code_ok and vm_ok and ret_ok and prog_ok, rule, 'eval', 'success path',
                   'parse(program)? -> Compiler::new().compile_ast(&ast)? -> VM::new().run(code), returned unchanged (ast %s, compiler %s, code %s, vm %s, ret %s)'
                   % (ast_ok, comp_ok, code_ok, vm_ok, ret_ok), fn.loc())
        else:
            # an error path: must be a prefix of the pipeline and return the propagated error of its last stage
            pref = want[:len(names)] == names
            # an error handed on through a helper and `?` again is still that error: errof(errof(X)) = errof(X)
            while r and r[0] == 'errof' and isinstance(r[1], tuple) and r[1] and r[1][0] in ('errof', 'errval'):
                r = ('errof', r[1][1])
            okerr = r and r[0] == 'errof' and r[1][0] == 'call' and names and r[1][1] == names[-1] if r and r[0] == 'errof' else False
            rep.ob(pref and okerr, rule, 'eval', 'error path after %s' % (names[-1].split('::')[-1] if names else 'nothing'),
                   'the error of the failing stage is returned unchanged and no later stage runs: calls %s' % [n.split('::')[-1] for n in names], fn.loc())
    rep.ob(n_ok == 1, rule, 'eval', 'pipeline shape', 'exactly one success path through parse, compile_ast, run (found %d)' % n_ok, fn.loc())


def check_fused_sides(ctx, rep, rule):
    R = csa_run.analyse(ctx)
    of = tables.operator_from_token(ctx)['map']
    co = tables.compile_operator_map(ctx)['map']
    sem = chain.object_method_semantics(ctx)
    seen = {}
    for fz in R['fused']:
        nm = fz['name']
        side = None
        if nm and nm[0] == 'ast':
            if 'Infix.left' in nm[1]:
                side = 'left'
            elif 'Infix.right' in nm[1]:
                side = 'right'
        ops = fz['operator']
        key = (fz['op'], side, tuple(ops))
        if key in seen:
            continue
        seen[key] = True
        cal = chain.vm_callee(ctx, fz['op'])
        meth = next(iter(cal))[0] if cal and len(cal) == 1 else None
        args = next(iter(cal))[1] if cal and len(cal) == 1 else None
        den_fused = chain.classify(sem[meth]) if meth in sem else None
        src_op = ops[0] if len(ops) == 1 else None
        gen = co.get(src_op)
        gcal = chain.vm_callee(ctx, gen) if isinstance(gen, str) else None
        gmeth = next(iter(gcal))[0] if gcal and len(gcal) == 1 else None
        den_src = chain.classify(sem[gmeth]) if gmeth in sem else None
        local_is_receiver = bool(args) and args[0].startswith('local[') and 'operand#2' in args[1]
        if side == 'left':
            ok = den_fused is not None and den_fused == den_src and local_is_receiver
            why = 'identifier on the left: fused opcode must denote the same operation'
        elif side == 'right':
            ok = den_fused is not None and den_src in chain_mirror() and den_fused == chain_mirror()[den_src] and local_is_receiver
            why = 'identifier on the RIGHT (`c op x`): the fused opcode computes `x op\' c`, so it must be the mirrored operation (only + * == != < <= > >= have one)'
        else:
            ok = False
            why = 'cannot tell on which side of the operator the variable stands'
        rep.ob(ok, rule, 'compiler::Compiler::compile_expression', 'fused %s for Operator::%s with the variable on the %s' % (fz['op'], src_op, side),
               '%s: source operator denotes %s, OpCode::%s computes local %s const' % (why, den_src, fz['op'], den_fused), 'src/compiler.rs')
    rep.count('fused_selection_cases', len(seen))


def chain_mirror():
    return MIRROR
