"""C10 — how the compiler chooses to implement an expression is unobservable (static clauses)."""
import re
from mirlib import *
from rules import tables, vmx, chain, csa_run, c01
from rules.psc import sym, strip

META = {
    'title': 'How the compiler chooses to implement an expression is unobservable',
    'explanation': 'R10.1: for each fused variable-op-constant opcode the chain (Operator, Local) -> fused OpCode -> VM callee equals the '
                   'generic chain Operator -> OpCode -> VM callee (11-cell table, extracted). R10.2: the fused form is selected only when '
                   'the operand sides are preserved (identifier left, or mirrored/commutative operator). R10.3: frame-slot opcodes are '
                   'emitted only for Local symbols, global-slot opcodes only for Global ones (CSA operand provenance). R10.4: no value '
                   'type that can sit in the constant pool can be mutated in place by the VM. R10.5: pool de-duplication compares tag and payload.'
                   ' R10.7 pooled values are literal payloads built through constructors and conversions only. R10.8 expression statements end in Pop whatever kind of variable they assign. R10.9 what counts as the same constant: equality compares tags first, immediates by the whole word, heap values by content.',
    'exhaustive': True,
    'not_decided': ["equality of whole program variants' results (a metamorphic relation over runs)"],
}
META['explanation'] += ' R10.10 the jump placeholder is only written, never compared: moving code by a few bytes cannot turn a legal jump target into a refused one.'
META['explanation'] += " R10.1 also: the value the generic arm and its fused twin push is the same expression over their two operands (the method's answer, nothing computed from it in one arm only). R10.4 also: a value read from the pool leaves it only through OpCode::Const."


def run(ctx, rep):
    F = ctx.facts()
    rep.rule('R10.1', 'fused chain = generic chain for every fused opcode')
    rep.rule('R10.2', 'fused opcodes are selected only when operand sides are preserved')
    rep.rule('R10.3', 'local-slot opcodes only under scope == Local; global-slot opcodes only under scope == Global')
    rep.rule('R10.4', 'pool immutability: value types that can enter the constant pool are never mutated in place')
    rep.rule('R10.5', 'constants are de-duplicated by (type, value) only')
    rep.rule('R10.9', 'what counts as the same constant: equality compares tags first, immediates by the whole word, heap values by content')
    from rules import shared as _sh, c15 as _c15
    _sh.check_object_eq(ctx.facts(), rep, 'R10.9', _c15.heap_types(ctx))
    rep.rule('R10.10', 'where in the code an expression lands is unobservable: the jump placeholder is only written, never compared, so moving code by a few bytes (into a function, behind another statement) cannot turn a legal jump target into a refused one')
    _sh.check_placeholder_write_only(ctx, rep, 'R10.10')
    rep.rule('R10.8', 'an expression statement is compiled the same way whatever kind of variable it assigns: its code always ends in Pop')
    from rules import c11 as _c11
    _c11.check_stmt_expr_pop(csa_run.analyse(ctx), rep, 'R10.8')
    check_fused_equals_generic(ctx, rep, 'R10.1', 'R10.3')
    c01.check_fused_sides(ctx, rep, 'R10.2')
    # R10.3 via CSA provenance violations
    R = csa_run.analyse(ctx)
    bad = [v for v in R['violations'] if v['oblig'] == 'O8-scope']
    for v in bad:
        rep.bad('R10.3', 'compiler::Compiler::' + v['method'], v['construct'], v['text'], 'src/compiler.rs', key=v['kc'])
    opt = R['optable']
    emitted = {}
    for a in R['arms']:
        for e in a['emits']:
            if opt.get(e, {}).get('reads_local') or opt.get(e, {}).get('reads_global'):
                emitted.setdefault(e, set()).add(a['trace'].split(' / ')[0])
    for e, arms in sorted(emitted.items()):
        if not any(v['text'].find('OpCode::%s ' % e) >= 0 for v in bad):
            rep.good('R10.3', 'compiler::Compiler', 'emit sites of OpCode::%s' % e, 'every emit site is under a test of the same symbol\'s scope (%d arms)' % len(arms), 'src/compiler.rs')

    # R10.4
    check_pool_by_value(ctx, rep, 'R10.4')
    # R10.5
    check_dedup(ctx, rep, 'R10.5')
    rep.rule('R10.7', 'pooled constants are the payloads of literal nodes as written: the compiler does no arithmetic of its own on them')
    check_literal_constants(ctx, rep, 'R10.7')
    rep.rule('R10.6', 'operands of the fused instructions are not truncated (a constant index that does not fit selects another constant)')
    from rules import c02
    c02.check_casts(ctx, rep, 'R10.6', only=(tables.fused_fn(ctx.facts()).path, 'compiler::Compiler::add_constant'))


def check_fused_equals_generic(ctx, rep, r1, r3=None):
    """every specialised (variable op literal) instruction applies the same primitive of the object layer as the generic instruction
    of its operator; (r3) and is selected only for frame-slot variables"""
    fm = tables.fused_map(ctx)
    co = tables.compile_operator_map(ctx)['map']
    n = 0
    for (op, scope), fused in sorted(fm['map'].items()):
        if not isinstance(fused, str) and scope == 'Local':
            # more than one instruction sequence for one (operator, scope): which one is taken depends on something else (the
            # literal's value, ...), so the fused form is no longer a function of the operator alone
            rep.bad(r1, fm['fn'].path, 'Operator::%s' % op, 'for a local variable this operator selects several different instruction sequences: %s' % (fused,), fm['fn'].loc())
            continue
        if not isinstance(fused, str) or fused.startswith('<'):
            if scope == 'Global':
                if r3:
                    rep.ob(fused == '<fallback>', r3, fm['fn'].path, '(%s, Global)' % op, 'no fused (frame-slot) opcode is chosen for a global symbol: %s' % (fused,), fm['fn'].loc())
            continue
        n += 1
        if r3:
            rep.ob(scope == 'Local', r3, fm['fn'].path, '(%s, %s) -> %s' % (op, scope, fused), 'fused opcodes read a frame slot and are selected only for Local symbols', fm['fn'].loc())
        g = co.get(op)
        fc = chain.vm_callee(ctx, fused)
        gc = chain.vm_callee(ctx, g) if isinstance(g, str) else None
        fmeth = sorted(m for m, _ in fc) if fc else None
        gmeth = sorted(m for m, _ in gc) if gc else None
        rep.ob(fmeth is not None and fmeth == gmeth and len(fmeth) == 1, r1, fm['fn'].path, 'Operator::%s' % op,
               'fused OpCode::%s applies Object::%s; generic OpCode::%s applies Object::%s' % (fused, fmeth, g, gmeth), fm['fn'].loc())
        # ... and hands on what the method answered, nothing computed from it: the value each arm pushes, written over its two
        # operands (left = the second value popped / the frame slot, right = the first value popped / the pool constant), is the same
        # expression in both arms (a generic arm that post-processes the method's answer while its fused twin does not - a changed
        # rounding, a corrected sign - makes the choice of instruction observable)
        def pushed_shape(opc):
            arm_ = vmx.vmx(ctx)['arms'].get(opc) if isinstance(opc, str) else None
            if not arm_:
                return None
            out_ = set()
            for r_ in arm_['paths']:
                if r_['kind'] != 'continue':
                    continue
                for pv in r_.get('pushed') or []:
                    x = str(pv)
                    x = re.sub(r'pop#2|local\[operand#1\]', 'L', x)
                    x = re.sub(r'pop#1|_\d+(?:\.\*|\.f\d+)*\[operand#2\]', 'R', x)
                    x = re.sub(r'\b_\d+\b', '_', x)
                    # `x?` and `match x { Ok(v) => v, Err(e) => return Err(e) }` name the same value: the Ok payload of x
                    for _i in range(4):
                        x2 = re.sub(r'^branch\((.*)\)\.Continue\.0$', r'ok(\1)', x)
                        x2 = re.sub(r'^(.*)\.Ok\.0$', r'ok(\1)', x2)
                        x2 = re.sub(r'^okval\((.*)\)$', r'ok(\1)', x2)
                        if x2 == x:
                            break
                        x = x2
                    out_.add(x)
            return sorted(out_)
        fsh, gsh = pushed_shape(fused), pushed_shape(g)
        if fmeth is not None and fmeth == gmeth and len(fmeth) == 1:
            rep.ob(fsh is not None and fsh == gsh, r1, fm['fn'].path, 'Operator::%s result' % op,
                   'fused OpCode::%s pushes %s; generic OpCode::%s pushes %s' % (fused, fsh, g, gsh), fm['fn'].loc())
        rep.sample({'operator': op, 'fused': fused, 'generic': g, 'callee': fmeth})
    rep.count('fused_opcodes', n)


def check_pool_by_value(ctx, rep, rule):
    """a literal denotes its value at every evaluation: what the constant pool holds is handed to the program by value - types
    that the VM mutates in place are copied by OpCode::Const"""
    F = ctx.facts()
    # R10.4
    P = {}
    for f, b, t in F.callers_of(lambda p: p == 'compiler::Compiler::add_constant'):
        v = strip(sym(f, t['args'][1]))
        ty = None
        if v[0] == 'call':
            nm = v[1]
            if nm == 'object::Object::int':
                ty = 'Int'
            elif nm == 'object::Object::float':
                ty = 'Float'
            elif nm == 'object::Object::function':
                ty = 'Function'
            elif 'FromString' in nm:
                ty = 'String'
            elif 'FromVec' in nm:
                ty = 'Array'
        if ty is None and 'object::Object::try_int' in str(v):
            ty = 'Int'
        tys = {ty} if ty else set()
        if ty is None:
            # the value flows through locals with several definitions (`let folded = match .. { .. }`): the constructors found in
            # all of them
            from rules import psc as _psc
            seen_l, todo = set(), list(_psc.mlocals(v))
            while todo and len(seen_l) < 12:
                l_ = todo.pop()
                if l_ in seen_l or 1 <= l_ <= f.arg_count:
                    continue
                seen_l.add(l_)
                for d in f.defs().get(l_, []):
                    vals = [('call', callee_name(d[2]), tuple(sym(f, a) for a in d[2]['args']))] if d[0] == 'call' else \
                        ([sym(f, o_) for o_ in d[3]['ops']] if d[3]['k'] == 'aggregate' else [_psc.sym_rv(f, d[3])])
                    for x_ in vals:
                        s_ = str(x_)
                        for key_, ty_ in (('object::Object::int', 'Int'), ('object::Object::try_int', 'Int'), ('object::Object::float', 'Float'),
                                          ('object::Object::function', 'Function'), ('FromString', 'String'), ('FromVec', 'Array')):
                            if key_ in s_:
                                tys.add(ty_)
                        todo += list(_psc.mlocals(x_))
        for ty in (tys or {'unknown'}):
            P.setdefault(ty, []).append(span_loc(t['span']))
    from rules import psc
    reach = psc.reachable(ctx, with_bin=False)
    M = {}
    for key in reach:
        fn = F.fns[key]
        for b, t in fn.calls():
            n_ = callee_name(t)
            if n_ in ('object::Object::as_string_mut',):
                M.setdefault('String', []).append('%s %s' % (key, span_loc(t['span'])))
            if n_ in ('object::Object::as_vec_mut', 'object::Object::as_vec_unchecked_mut'):
                M.setdefault('Array', []).append('%s %s' % (key, span_loc(t['span'])))
    rep.table('pool_types', {k: v for k, v in P.items()})
    rep.table('mutated_in_place', M)
    if 'unknown' in P:
        raise CheckerError(rule + ': cannot determine the type of a value passed to add_constant at %s' % P['unknown'])
    # does the Const arm copy before pushing?
    v = vmx.vmx(ctx)
    const_copies = set()
    from rules.shared import truth, deref
    all_copy = True
    any_path = False
    for r in v['arms']['Const']['paths']:
        if r['kind'] != 'continue':
            continue
        any_path = True
        p_ = r['path']
        copies = any('FromString' in c['callee'] for c in r['calls'])
        # is the value established NOT to be a string on this path?
        not_string = False
        for c in p_.constraints:
            if c[0][0] == 'switch':
                val = c[0][1]
                if val[0] == 'call' and ('PartialEq' in val[1]):
                    args = [deref(p_.env, a) for a in val[2]]
                    if any(a[0] == 'call' and a[1] == 'object::Object::tag' for a in args) and any(a == ('enum', 'object::Type', 'String') for a in args):
                        is_ne = val[1].endswith('ne')
                        t_ = truth(c)
                        equal = (t_ and not is_ne) or ((not t_) and is_ne)
                        if not equal:
                            not_string = True
            if c[0][0] == 'variant' and c[0][2] == 'object::Type' and c[1] and 'String' not in str(c[1]):
                not_string = True
        if not copies and not not_string:
            all_copy = False
    if any_path and all_copy:
        const_copies.add('String')
    for ty in sorted(set(P) & set(M)):
        rep.ob(ty in const_copies, rule, 'vm::VM::run', 'Const hands out pooled %s by reference' % ty,
               'a %s literal lives in the constant pool (added at %s) and the VM mutates %s values in place (%s) while OpCode::Const pushes the pooled object itself: '
               'a literal can be changed for later evaluations of the same literal' % (ty, P[ty][0], ty, M[ty][0].split(' ')[0]), 'src/vm.rs')
    for ty in sorted(set(P) - set(M)):
        rep.good(rule, 'vm::VM::run', 'pooled %s' % ty, 'values of this type are never mutated in place', 'src/vm.rs')
    # ... and OpCode::Const is the only way out of the pool: in every other arm a value read from the pool (`constants[operand]`) is
    # an operand of an Object method that computes a new value - it is not pushed, not stored in a variable or into an array, not
    # handed to any other routine (a fused `a[i] = "text"` would store the pooled string itself)
    fnv = v['fn']
    n_arms = 0
    for op_, arm_ in sorted(v['arms'].items()):
        if op_ == 'Const':
            continue
        for r in arm_['paths']:
            if r['kind'] not in ('continue',):
                continue
            def pooled(x):
                for m_ in re.finditer(r'_(\d+)(?:\.\*|\.f\d+)*\[operand#\d+\]', str(x)):
                    ty_ = fnv.local_ty(int(m_.group(1))) or ''
                    if 'object::Object' in ty_ and ('[' in ty_ or 'Vec<' in ty_):
                        return m_.group(0)
                return None
            leaks = []
            for pv in r.get('pushed') or []:
                x = str(pv)
                if pooled(x) and re.fullmatch(r'_\d+(?:\.\*|\.f\d+)*\[operand#\d+\]', x.strip()):
                    leaks.append('pushed as it is')
            for c in r['calls']:
                if c['callee'].startswith('object::Object::') or c['callee'] in ('vm::VM::get_local',):
                    continue
                # the pooled value itself is handed over (not something computed from it: its tag, a comparison of it)
                hit = [a for a in c['args'] if pooled(a) and re.fullmatch(r'&?_\d+(?:\.\*|\.f\d+)*\[operand#\d+\]', str(a).strip())]
                if hit:
                    leaks.append('handed to %s' % c['callee'].split('::')[-1])
            if any(pooled(c['args']) for c in r['calls']) or any(pooled(pv) for pv in (r.get('pushed') or [])):
                n_arms += 1
            if leaks:
                rep.bad(rule, 'vm::VM::run', 'OpCode::%s lets a pooled constant out' % op_,
                        'a value read from the constant pool is %s without being copied: a string or array literal can then be changed (or released) through it' % ', '.join(sorted(set(leaks))), 'src/vm.rs')
                break
    rep.count('arms_reading_the_pool', n_arms)


def check_dedup(ctx, rep, rule):
    """every path on which the de-duplication predicate can answer `true` compared the tags of both objects and their payloads
    through Object::eq (words stripped of their tag must never decide equality)"""
    F = ctx.facts()
    clos = [f for f in F.all_fns if f.path.startswith('compiler::Compiler::add_constant::{closure')]
    if len(clos) == 0:
        # no search closure: the pool is scanned by a loop in add_constant itself.  Every path that returns an existing index
        # (returns without pushing) must have taken the `tags equal` and the `Object::eq` branches as true
        ac = F.fn('compiler::Compiler::add_constant')
        from rules.shared import truth, deref
        n = 0
        for p in AbsInt(F, ac, max_paths=4000).run():
            if p.exit != 'return' or any(c[1].endswith('Vec::<T, A>::push') for c in p.calls):
                continue
            r0 = simp(p.env.get('_0'))
            if r0 and r0[0] == 'errof':
                continue
            n += 1
            tag_eq = obj_eq = False
            for c in p.constraints:
                if c[0][0] != 'switch':
                    continue
                v = c[0][1]
                if v[0] == 'call' and 'PartialEq' in v[1] and len(v[2]) == 2:
                    equal = truth(c) != v[1].endswith('ne')
                    a0, a1 = [deref(p.env, deref(p.env, a)) for a in v[2]]
                    if a0[0] == 'call' and a0[1] == 'object::Object::tag' and a1[0] == 'call' and a1[1] == 'object::Object::tag' and equal:
                        tag_eq = True
                    elif equal and ('object::Object' in v[1] or 'PartialEq<&B> for &A' in v[1] or v[1].startswith('<&A as')) and ('local', 2) in (uncast(a0), uncast(a1)):
                        obj_eq = True
            rep.ob(tag_eq and obj_eq, rule, 'compiler::Compiler::add_constant', 'dedup predicate path %d' % n,
                   'a path that returns an existing constant compared both tags (%s) and then Object::eq (%s)' % (tag_eq, obj_eq), ac.loc())
        rep.count('dedup_true_paths', n)
        if n == 0:
            rep.bad(rule, 'compiler::Compiler::add_constant', 'dedup predicate', 'no path of add_constant returns an existing constant and no search closure was found', 'src/compiler.rs')
        return
    if len(clos) != 1:
        rep.bad(rule, 'compiler::Compiler::add_constant', 'dedup predicate', 'expected one predicate closure, found %d' % len(clos), 'src/compiler.rs')
        return
    fn = clos[0]
    n = 0
    for p in AbsInt(F, fn, max_paths=2000).run():
        if p.exit != 'return':
            continue
        r = p.env.get('_0')
        if r == ('int', 0, 'bool'):
            continue
        n += 1
        names = [c[1] for c in p.calls]
        tags = sum(1 for x in names if x == 'object::Object::tag')
        eqs = [c for c in p.calls if c[1] == '<object::Object as core::cmp::PartialEq>::eq' or
               ('PartialEq' in c[1] and c[1].endswith('::eq') and 'object::Object' in c[4]['callee'].get('generic_args', ''))]
        ok = tags >= 2 and bool(eqs) and r is not None and r[0] == 'call' and 'PartialEq' in r[1]
        rep.ob(ok, rule, 'compiler::Compiler::add_constant', 'dedup predicate path %d' % n,
               'a path that can report "same constant" must compare both tags and then Object::eq; this one returns %s after calls %s' % (show(r)[:80], [x.split('::')[-1] for x in names]), fn.loc())
    rep.count('dedup_true_paths', n)


def check_literal_constants(ctx, rep, rule):
    """A value computed by the compiler instead of by the VM (constant folding) has to agree with the run-time operator on every
    input - overflow, -0.0 vs 0.0 under the pool's de-duplication, NaN - which nothing here can show.  The rule therefore keeps the
    status quo explicit: what enters the constant pool is an Object built directly from a literal payload of the syntax tree (or a
    function descriptor), with no unary/binary operator applied to it at compile time."""
    F = ctx.facts()
    n = 0
    for f, b, t in F.callers_of(lambda p: p == 'compiler::Compiler::add_constant'):
        n += 1
        v = sym(f, t['args'][1])
        ops = []

        def walk(x, depth=0):
            if not isinstance(x, tuple) or depth > 12:
                return
            if x and x[0] in ('binop', 'checked') and x[1] not in ('Shl', 'BitOr', 'BitAnd', 'Shr'):
                ops.append(x[1])
            if x and x[0] == 'unop' and x[1] in ('Neg', 'Not'):
                ops.append(x[1])
            if x and x[0] == 'call':
                if x[1] == 'object::Object::function':
                    return          # a function descriptor: code position and frame size, not a literal (R02.6 / R12.1 cover those)
                passes = x[1].startswith(('object::Object::', '<object::Object as object::From')) or x[1].endswith(
                    ('::as_str', '::clone', '::to_string', '::to_owned', 'Deref>::deref', '::into', '::from', 'Try>::branch', '::as_ref', '::borrow',
                     '::as_slice', '::to_vec', '::from_residual', '::as_deref'))
                if not passes:
                    # anything else computes a new value from the literal at compile time (`-x`, `x.len()`, `x.parse()`, ...)
                    ops.append(x[1].split('::')[-1])
            for y in x:
                if isinstance(y, tuple):
                    walk(y, depth + 1)
        walk(v)
        # multi-definition locals the value flows through (`let folded = match .. { .. => Some(-x), .. }`): every definition counts
        from rules import psc as _psc
        def literal_locals(x, depth=0):
            # locals the literal payload flows through; what feeds a function descriptor is not a literal
            if not isinstance(x, tuple) or depth > 12:
                return []
            if x and x[0] == 'call' and x[1] == 'object::Object::function':
                return []
            if x and x[0] == 'mlocal':
                return [x[1]]
            out = []
            for y in x:
                if isinstance(y, tuple):
                    out += literal_locals(y, depth + 1)
            return out
        seen_l = set()
        todo = literal_locals(v)
        while todo and len(seen_l) < 12:
            l_ = todo.pop()
            if l_ in seen_l or 1 <= l_ <= f.arg_count:
                continue
            seen_l.add(l_)
            for d in f.defs().get(l_, []):
                if d[0] == 'call' and callee_name(d[2]) == 'object::Object::function':
                    continue
                vals = [('call', callee_name(d[2]), tuple(sym(f, a) for a in d[2]['args']))] if d[0] == 'call' else [_psc.sym_rv(f, d[3])]
                if d[0] == 'assign' and d[3]['k'] == 'aggregate':
                    vals = [sym(f, o_) for o_ in d[3]['ops']]
                for x_ in vals:
                    walk(x_)
                    todo += literal_locals(x_)
        rep.ob(not ops, rule, f.path, 'constant#%d' % n, 'the pooled value is a literal payload as written (operators applied at compile time: %s)' % sorted(set(ops)), span_loc(t['span']))
    rep.count('pooled_constant_sites', n)
