"""C14 — builtins are total and behave as documented (structural clauses)."""
from mirlib import *
from rules import tables, psc, c05, shared
from rules.shared import deref
from rules.psc import sym

META = {
    'title': 'Builtins are total and behave as documented',
    'explanation': 'R14.1 the name table, the Builtin enum and the dispatch agree and are the seven documented builtins; R14.2 every builtin '
                   'except print rejects a wrong argument count with an ArgumentError before touching args[0]; R14.3 every builtin, for each '
                   'of the seven value types (49 cells), reaches a return (value or explicit error) with no undischarged panic source; R14.4 '
                   'converting a value to its own type returns the argument itself; R14.5 integer results are range-checked at the encoder.'
                   ' R14.7 every way the compiler translates a call ends in exactly one Call / CallBuiltin (no compile-time answers for builtins).'
                   ' R14.6 float->int casts are guarded on both sides by comparisons that exclude NaN, and the guard (constants folded in double arithmetic) lets through the extreme floats that still convert.'
                   ' R14.8 print looks for placeholders only in the format text itself, never in text an argument inserted.',
    'exhaustive': True,
    'not_decided': ['the documented results of conversions as values (decimal spelling, number -> text -> number round trip)',
                    "the text print produces for a given format and arguments (only the single-pass structure of the substitution is decided)"],
}
META['explanation'] += ' R14.10 a list of arrays being printed is scoped: every entry is removed before the routine returns normally.'
META['explanation'] += ' R14.11 int(text) and float(text) prepare their text the same way (both trim, or neither).'
META['explanation'] += ' R14.12 print shows every element of an array, also of one that occurs twice in the value printed.'
BUILTINS = {'print': 'call_print', 'type': 'call_type', 'bool': 'call_bool', 'int': 'call_int', 'float': 'call_float', 'string': 'call_string', 'lengte': 'call_length'}
OWN = {'call_bool': 'Bool', 'call_int': 'Int', 'call_float': 'Float', 'call_string': 'String'}
TYPE = 'object::Type'


def error_variant(r, depth=0):
    """variant of the object::Error a returned value carries (through Err(..), `?` residuals and aggregates), else None"""
    if not isinstance(r, tuple) or not r or depth > 8:
        return None
    if r[0] == 'agg' and r[1] == 'object::Error':
        return r[2]
    if r[0] == 'agg' and r[2] == 'Ok':
        return None
    for x in r[1:]:
        if isinstance(x, tuple):
            if x and isinstance(x[0], str):
                v = error_variant(x, depth + 1)
                if v:
                    return v
            else:
                for y in x:
                    v = error_variant(y, depth + 1)
                    if v:
                        return v
    return None


def _is_args_len(x):
    x = uncast(x)
    if x[0] == 'unop' and x[1] == 'PtrMetadata':
        a = uncast(x[2])
    elif x[0] == 'call' and x[1] == 'core::slice::<impl [T]>::len' and x[2]:
        a = uncast(x[2][0])
    else:
        return False
    while a[0] in ('deref', 'ref', 'cast'):
        if a[0] == 'ref':
            return a[1] in ('_1', '_1.*')
        a = a[1]
    return a == ('local', 1)


def arity_fact(p):
    """'eq1' / 'ne1' / None: what the path has established about args.len()"""
    for (what, val, b) in p.constraints:
        if what[0] != 'switch':
            continue
        v = what[1]
        if isinstance(v, tuple) and v[0] == 'binop' and v[1] in ('Ne', 'Eq'):
            l, r = v[2], v[3]
            if (_is_args_len(l) and int_of(r) == 1) or (_is_args_len(r) and int_of(l) == 1):
                truth = True if val is None else bool(val)
                return 'eq1' if truth == (v[1] == 'Eq') else 'ne1'
        elif _is_args_len(v):
            if val == 1:
                return 'eq1'
            return 'ne1'
    return None


def run(ctx, rep):
    F = ctx.facts()
    bt = tables.builtin_tables(ctx)
    rep.rule('R14.1', 'name -> Builtin -> function is a bijection onto the seven documented builtins')
    rep.rule('R14.12', 'the text of an array shows every element, every time: no path writes an array without reading its elements, no turn of the element loop skips the element (a shared array is written in full wherever it occurs)')
    shared.check_array_text_complete(ctx, rep, 'R14.12')
    rep.rule('R14.2', 'arity guard: args.len() != 1 is an ArgumentError before args[0] is touched')
    rep.rule('R14.3', 'totality: 7 builtins x 7 types all return (49 cells), no reachable panic')
    rep.rule('R14.4', 'identity: converting a value to its own type returns the argument itself')
    rep.rule('R14.5', 'integer results are range-checked at the encoder')
    names, disp = bt['names'], bt['dispatch']
    rep.table('builtin_names', names)
    rep.table('builtin_dispatch', disp)
    loc = 'src/builtins.rs:%d' % bt['line']
    for n, f in BUILTINS.items():
        b = names.get(n)
        rep.ob(b is not None and disp.get(b) == 'builtins::' + f, 'R14.1', 'builtins::resolve', 'builtin %s' % n, '%s -> Builtin::%s -> %s' % (n, b, disp.get(b)), loc)
    for n in names:
        rep.ob(n in BUILTINS, 'R14.1', 'builtins::resolve', 'builtin %s' % n, 'only the documented builtins exist', loc)
    rep.ob(len(set(names.values())) == len(names) and len(set(disp.values())) == len(disp), 'R14.1', 'builtins', 'bijection', 'names, enum values and functions correspond one to one', loc)
    variants = [v for v, _ in F.enum_variants(tables.BUILTIN)]
    rep.ob(sorted(variants) == sorted(names.values()), 'R14.1', tables.BUILTIN, 'enum = table', 'every Builtin variant has a name: %s' % sorted(set(variants) ^ set(names.values())), loc)
    types = [v for v, _ in F.enum_variants(TYPE)]
    sites = psc.census(ctx)
    for f in sorted(set(BUILTINS.values())):
        fn = F.fn('builtins::' + f)
        # R14.2
        if f != 'call_print':
            # every path that returns ArgumentError has established args.len() != 1, every other returning path (and hence every
            # use of args[0]) has established args.len() == 1; spelled `if args.len() != 1`, a helper with `?`, or `[x] => ..`
            bc = [s for s in sites if s['fn'] == fn.path and s['what'] == 'Assert(BoundsCheck)']
            allok = all(c05.verdict_for(ctx, s)[0] for s in bc)
            n_arg_err = 0
            bad_paths = []
            for p in AbsInt(F, fn, max_paths=5000).run():
                if p.exit != 'return':
                    continue
                ev = error_variant(simp(p.env.get('_0')))
                fact = arity_fact(p)
                if fact == 'ne1':
                    n_arg_err += 1
                    if ev != 'ArgumentError':
                        bad_paths.append('a call with args.len() != 1 returns %s, not an ArgumentError' % (ev or 'a value'))
                elif fact != 'eq1':
                    bad_paths.append('a path returns %s without having tested args.len()' % (ev or 'a value'))
            rep.ob(n_arg_err >= 1 and not bad_paths and allok, 'R14.2', fn.path, 'arity guard',
                   'args.len() != 1 => ArgumentError, every other returning path established len == 1; %d bounds checks on args discharged%s' % (len(bc), ('; ' + bad_paths[0]) if bad_paths else ''), fn.loc())
        # R14.3 totality per type
        und = [s for s in sites if (s['fn'] == fn.path or s['fn'].startswith(fn.path + '::{closure')) and not c05.verdict_for(ctx, s)[0]]
        for ty in types:
            def decide(nm, argv, t, ty=ty):
                if nm == 'object::Object::tag':
                    return ('enum', TYPE, ty)
                return None
            outcomes = set()
            ident = None
            id_env = {}
            for p in AbsInt(F, fn, decide_call=decide, max_paths=5000).run():
                # skip the arity-error path
                r = simp(p.env.get('_0'))
                if p.exit == 'return' and r and r[0] == 'agg':
                    if r[2] == 'Ok':
                        outcomes.add('value')
                        val = deref(p.env, r[3][0])
                        if f in OWN and OWN[f] == ty:
                            ident = val
                            id_env = p.env
                    else:
                        e = r[3][0]
                        outcomes.add('error:' + (e[2] if e[0] == 'agg' else '?'))
                elif p.exit == 'return' and r and r[0] == 'errof':
                    outcomes.add('error:propagated')
                elif p.exit == 'diverge':
                    outcomes.add('PANIC:' + (p.calls[-1][1].split('::')[-1] if p.calls else '?'))
                else:
                    outcomes.add(p.exit)
            outcomes.discard('error:ArgumentError') if f != 'call_print' and len(outcomes) > 1 and False else None
            # (a diverging path is counted only when the census has an undischarged panic source in this builtin: an assertion that
            # is proven, or accepted as a developer's assumption, is not a way the builtin fails)
            bad = [o for o in outcomes if o.startswith('PANIC') and 'panic_bounds' not in o] if und else []
            has_return = any(o == 'value' or o.startswith('error') for o in outcomes)
            rep.ob(has_return and not bad, 'R14.3', fn.path, 'cell (%s, %s)' % (f.replace('call_', ''), ty), 'outcomes: %s' % sorted(outcomes), fn.loc())
            if f in OWN and OWN[f] == ty:
                s_ = show(ident) if ident else None
                from rules.unsafe_inv import canon
                cid = canon(id_env, ident) if ident is not None else None
                is_arg = ident is not None and ((('index' in s_ or 'deref' in s_) and '0_usize' in s_ and 'call' not in str(ident[0]) or ident[0] in ('index', 'deref'))
                                                or cid == ('index', ('obj', 'param*', 1), ('int', 0, 'usize')))
                rep.ob(bool(is_arg), 'R14.4', fn.path, 'identity on %s' % ty, 'returns args[0] itself: %s' % s_, fn.loc())
        rep.ob(not und, 'R14.3', fn.path, 'panic sources', 'undischarged panic sources in this builtin: %s' % [s['what'].split('::')[-1] for s in und], fn.loc())
    shared.check_int_encoder_range(ctx, rep, 'R14.5', only_prefix='builtins::')
    rep.rule('R14.6', 'float -> integer casts (which saturate silently) are range-guarded')
    shared.check_float_casts(ctx, rep, 'R14.6')
    rep.rule('R14.7', 'a builtin is answered by the builtin: every way the compiler translates a call ends in Call / CallBuiltin (the compiler has no answers of its own for a builtin)')
    check_calls_are_calls(ctx, rep, 'R14.7')
    rep.rule('R14.8', 'print substitutes in one pass: text that an argument inserted is never searched for placeholders again')
    rep.rule('R14.9', 'print prints all of its format text: the walk over the pieces between the placeholders is not cut short by the number of arguments')
    rep.rule('R14.11', 'int(text) and float(text) read their text the same way: both parse the text with surrounding blanks removed, or neither does (a number padded with blanks converts with both or with none)')
    check_text_conversions_agree(ctx, rep, 'R14.11')
    rep.rule('R14.10', 'the text of a value depends on the value only: a list of arrays being printed (a guard against arrays that contain themselves) is scoped - each entry is removed when its array is done, so an array that occurs twice prints twice')
    check_print_guard_scoped(ctx, rep, 'R14.10')
    check_print_single_pass(ctx, rep, 'R14.8', 'R14.9')


SEARCHES = ('replacen', 'replace', 'find', 'rfind', 'split', 'splitn', 'rsplit', 'rsplitn', 'split_once', 'rsplit_once', 'match_indices',
            'rmatch_indices', 'matches', 'split_inclusive', 'split_terminator', 'strip_prefix', 'starts_with', 'contains')
BUILDERS = ('push_str', 'push', 'insert_str', 'insert', 'extend', 'write_str', 'write_fmt', 'add_assign', 'add', 'extend_from_slice')
WALKS = ('chars', 'char_indices', 'bytes')


def _str_method(name):
    """method name when the callee is a method of str / String (any impl block), else None"""
    if 'str' not in name and 'String' not in name and 'string' not in name:
        return None
    return name.split('::')[-1]


def check_print_single_pass(ctx, rep, rule, rule2=None):
    """`print` replaces the placeholders of its FIRST argument by the remaining arguments in order.  Necessary for that: a
    placeholder is looked for only in the format text itself.  A search (replacen / find / split ...) on text that was put
    together from several pieces (the result of an earlier replacement, a buffer that push_str built) also finds `{}` that
    an argument brought in: `print("{} {}", "{}", "x")` then prints `x {}`.  Decided by a flow-insensitive derivation graph
    over the locals of call_print (helpers that are new are spliced in): no search receives text derived from a composite."""
    F = ctx.facts()
    fn = F.fn('builtins::call_print')
    from rules.shared import LocalFlow
    LF = LocalFlow(fn, follow_index=False)
    mut_target = LF.mut_target
    composite = {}    # local -> why
    searches = []
    walks = 0
    for b, t in fn.calls():
        name = callee_name(t)
        m = _str_method(name)
        dest = t['dest']['local']
        argl = [op_base_local(a) for a in t['args']]
        # (a sub-slice of a composite taken at a computed position may well exclude what was inserted: Index / get are not followed)
        first_ty = fn.local_ty(argl[0]) if argl and argl[0] is not None else ''
        if argl and argl[0] is not None and '&' in first_ty and 'mut' in first_ty:
            tgt = mut_target(t['args'][0])
            if m in BUILDERS:
                composite[tgt] = '%s at %s' % (m, span_loc(t['span']))
        if m in ('replacen', 'replace', 'concat', 'join', 'repeat') or name.endswith('fmt::format') or name.endswith('fmt::format::format_inner'):
            composite[dest] = 'result of %s at %s' % (name.split('::')[-1], span_loc(t['span']))
        if m == 'add' and 'String' in name:
            composite[dest] = 'String + at %s' % span_loc(t['span'])
        if m in SEARCHES and len(t['args']) >= 2 and (t['span'].get('macros') or [None])[-1] is None:
            searches.append((b, t, m))
        if m in WALKS:
            walks += 1

    def reach_composite(l):
        return LF.reaches(l, composite)

    n = 0
    for b, t, m in searches:
        n += 1
        hay = op_base_local(t['args'][0])
        c = reach_composite(hay)
        rep.ob(c is None, rule, fn.path, 'placeholder search %s#%d' % (m, n),
               'the text searched is the format argument as it was given, not text put together from pieces (%s)' % (
                   'derived only from single values' if c is None else 'it derives from %s: %s' % (fn.local_name(c), composite[c])), span_loc(t['span']))
    if not searches:
        if walks:
            rep.ob(True, rule, fn.path, 'placeholder scan by characters', 'the format text is walked character by character (%d walks); no search is repeated on built-up text' % walks, fn.loc())
        else:
            raise CheckerError('UNDECIDED rule=%s construct=builtins::call_print: neither a placeholder search nor a character walk found' % rule)
    rep.count('placeholder_searches', len(searches))
    # R14.9 (same walk): the pieces between the placeholders are all printed - the iteration over what the search yields is not
    # tied to another, possibly shorter sequence (`pieces.zip(args)` stops with the arguments and drops the rest of the text)
    ENDS_EARLY = ('zip', 'take', 'take_while', 'map_while', 'step_by', 'skip', 'skip_while', 'filter', 'filter_map', 'nth', 'scan', 'fuse_first', 'next_chunk')
    if rule2:
        LF2 = LocalFlow(fn, follow_index=True)
        for b, t, m in searches:
            if m not in ('split', 'splitn', 'rsplit', 'split_inclusive', 'match_indices', 'split_terminator', 'matches'):
                continue
            fw = LF2.forward(t['dest']['local'])
            cut = []
            for b2, t2 in fn.calls():
                n2 = callee_name(t2)
                if 'iter' in n2 and n2.split('::')[-1] in ENDS_EARLY and t2['args'] and op_base_local(t2['args'][0]) in fw:
                    cut.append('%s at %s' % (n2.split('::')[-1], span_loc(t2['span'])))
            rep.ob(not cut, rule2, fn.path, 'pieces of the format text (%s)' % m, 'the walk over the pieces of the format text ends only when the text ends; adaptors that can end it earlier: %s' % (cut or 'none'), span_loc(t['span']))


def check_calls_are_calls(ctx, rep, rule):
    """every completed path of the compiler through a call expression emits the call instruction: a path that produces the
    value some other way (a constant computed at compile time) answers the builtin with the compiler's idea of it"""
    from rules import csa_run
    R = csa_run.analyse(ctx)
    seen = {}
    for a in R['arms']:
        if a['method'] != 'compile_expression' or not a['trace'].startswith('Expr::Call') or not a['reach']:
            continue
        key = (a['trace'], tuple(a['emits']))
        seen[key] = a
    for (tr, emits), a in sorted(seen.items()):
        calls = [e for e in emits if e in ('Call', 'CallBuiltin')]
        rep.ob(len(calls) == 1 and emits[-1:] == tuple(calls), rule, 'compiler::Compiler::compile_expression', 'call path ' + tr,
               'the code of a call ends in exactly one call instruction (emitted here: %s)' % (list(emits),), 'src/compiler.rs')
    rep.count('call_paths', len(seen))


def check_print_guard_scoped(ctx, rep, rule):
    """The text of a value is a function of the value.  A printing routine that keeps a list of what it is `in the middle of`
    (to stop at an array that contains itself) must take each entry out again when it is done with it: a list that only grows
    answers `already seen` for an array that merely occurs twice - `[a, a]` would print its second element as a cycle."""
    from rules.c04 import _root_local
    F = ctx.facts()
    roots = [k for k in F.fns if k.endswith('core::fmt::Display>::fmt') and 'object::Object' in k]
    seen_fns, work = set(), list(roots)
    while work:
        k = work.pop()
        if k in seen_fns or k not in F.fns or F.fns[k].crate != 'lib':
            continue
        seen_fns.add(k)
        for b, t in F.fns[k].calls():
            for p_ in callee_paths(t):
                if p_ in F.fns and p_ not in seen_fns:
                    work.append(p_)
    ADD = ('Vec::<T, A>::push', '::insert')
    HAS = ('::contains', '::any')
    DEL = ('Vec::<T, A>::pop', '::remove', '::truncate', '::swap_remove', '::clear')
    n = 0
    for k in sorted(seen_fns):
        fn = F.fns[k]
        tested = set()
        for b, t in fn.calls():
            if callee_name(t).endswith(HAS) and t['args']:
                tested.add(str(_root_local(fn, t['args'][0])))
        for b, t in fn.calls():
            nm = callee_name(t)
            if not (nm.endswith(ADD) and t['args']):
                continue
            r = str(_root_local(fn, t['args'][0]))
            if r not in tested:
                continue
            n += 1
            # from the insertion, is a normal return reachable without taking the entry out again?  (`?` error exits do not count:
            # a failed print prints nothing more)
            stop = set()
            for b2, t2 in fn.calls():
                n2 = callee_name(t2)
                if n2.endswith(DEL) and t2['args'] and str(_root_local(fn, t2['args'][0])) == r:
                    stop.add(b2)
                if n2.endswith('FromResidual<core::result::Result<core::convert::Infallible, E>>>::from_residual') or n2.endswith('::from_residual'):
                    stop.add(b2)
            reach = fn.reachable(t['target'], stop=stop) if t.get('target') is not None else set()
            leaks = [x for x in reach if fn.term(x)['k'] == 'return']
            rep.ob(not leaks, rule, k, 'visit guard entry removed',
                   'an entry put on the list that answers `am I inside this array already` is taken out again before the routine returns normally: otherwise an array that occurs twice (not inside itself) is printed as a cycle',
                   span_loc(t['span']))
    if not n:
        rep.good(rule, 'object::Object', 'printing keeps no visit list', 'no routine reachable from Display for Object (%d functions) both tests and fills a collection' % len(seen_fns), 'src/object.rs', nontrivial=False)
    rep.count('print_visit_guards', n)


def check_text_conversions_agree(ctx, rep, rule):
    """the two text-to-number builtins are siblings: what each does to the text before `parse` (trim, trim_start, ...) is the same"""
    F = ctx.facts()
    seen = {}
    for name in ('builtins::call_int', 'builtins::call_float'):
        fn = F.fns.get(name)
        if fn is None:
            continue
        prep = None
        for b, t in fn.calls():
            n = callee_name(t)
            if n.endswith('::parse') and 'str' in n and t['args']:
                a = str(sym(fn, t['args'][0]))
                prep = tuple(sorted(x for x in ('::trim', '::trim_start', '::trim_end', '::to_lowercase', '::to_uppercase', '::replace', '::strip_prefix', '::trim_matches') if (x + "'") in a or (x + '"') in a))
        seen[name] = prep
    vals = [v for v in seen.values() if v is not None]
    ok = len(vals) == 2 and vals[0] == vals[1]
    rep.ob(ok, rule, 'builtins::call_int', 'text preparation agrees with float()',
           'what happens to the text before it is parsed: %s' % {k.split('::')[-1]: (list(v) if v is not None else 'no parse call found') for k, v in seen.items()}, 'src/builtins.rs')
