import re
"""PSC — panic-site census and discharge (DESIGN §4.5)."""
from mirlib import *
from rules.tables import _memo
from rules.unsafe_inv import user_site

ENTRY = ['eval', 'parser::parse', 'compiler::Compiler::new', 'compiler::Compiler::compile_ast', 'vm::VM::new', 'vm::VM::run']

PANIC_CALLS = [
    ('core::option::Option::<T>::unwrap', 'unwrap'), ('core::option::Option::<T>::expect', 'expect'),
    ('core::result::Result::<T, E>::unwrap', 'unwrap'), ('core::result::Result::<T, E>::expect', 'expect'),
    ('core::result::Result::<T, E>::unwrap_err', 'unwrap_err'), ('core::result::Result::<T, E>::expect_err', 'expect_err'),
]
PANIC_SUFFIX = ['::swap_remove', '::split_off', '::split_at', '::copy_from_slice', '::replace_range', 'Vec::<T, A>::remove',
                'Vec::<T, A>::insert', 'Vec::<T, A>::drain', 'String::remove', 'String::insert', 'RefCell::<T>::borrow',
                'RefCell::<T>::borrow_mut', '::step_by', 'char::methods::<impl char>::from_u32_unchecked', '::from_digit']
ASSERT_KINDS = ('Overflow', 'OverflowNeg', 'DivisionByZero', 'RemainderByZero', 'BoundsCheck')


def reachable(ctx, config='default', with_bin=True):
    def build():
        F = ctx.facts(config)
        roots = list(ENTRY) + (['bin::main'] if with_bin else [])
        for r in ENTRY:
            F.fn(r)
        # bin functions are keyed with a prefix; their callees into the lib are plain paths
        g = F.call_graph()
        seen = set()
        st = list(roots)
        while st:
            n = st.pop()
            if n in seen:
                continue
            seen.add(n)
            for c in g.get(n, ()):
                st.append(c)
                if n.startswith('bin::') and ('bin::' + c) in F.fns:
                    st.append('bin::' + c)
        # trait impls of local types are reached through std's generic code (Display via to_string, PartialOrd::gt -> partial_cmp, Drop)
        for k in F.fns:
            if k.startswith('<') and k not in seen:
                st = [k]
                while st:
                    n = st.pop()
                    if n in seen:
                        continue
                    seen.add(n)
                    st.extend(g.get(n, ()))
        return {n for n in seen if n in F.fns}
    return _memo(ctx, 'reachable-%s-%s' % (config, with_bin), build)


def is_index_call(name):
    return name.endswith('Index<I>>::index') or name.endswith('IndexMut<I>>::index_mut') or name.endswith('::index') and 'ops::index' in name


# ---- symbolic expressions over single-definition temporaries ---------------------------------
def sym(fn, op, depth=0):
    if op is None or depth > 14:
        return ('?',)
    k = op.get('k')
    if k == 'const':
        if 'int' in op:
            return ('int', op['int'])
        if 'variant' in op:
            return ('enum', op['ty'], op['variant'])
        if 'promoted' in op:
            return ('promoted', op['promoted'])
        return ('const', op.get('text'))
    pl = op.get('place')
    if pl is None:
        return ('?',)
    return sym_place(fn, pl, depth)


def sym_place(fn, pl, depth=0):
    l = pl['local']
    proj = pl['proj']
    base = sym_local(fn, l, depth)
    for e in proj:
        if e == 'deref':
            if base[0] == 'ref':
                base = base[1]
            else:
                base = ('deref', base)
        elif isinstance(e, dict) and 'field' in e:
            if base[0] == 'checked' and e['field'] == 0:
                base = ('binop', base[1], base[2], base[3])
            elif base[0] == 'checked' and e['field'] == 1:
                base = ('overflowflag', base[1], base[2], base[3], base[4])
            elif base[0] == 'tuple' and e['field'] < len(base[1]):
                base = base[1][e['field']]
            else:
                base = ('field', base, e['name'])
        elif isinstance(e, dict) and 'downcast' in e:
            base = ('downcast', base, e['downcast'])
        elif isinstance(e, dict) and 'index' in e:
            base = ('index', base, sym_local(fn, e['index'], depth + 1))
        else:
            base = ('proj', base, str(e))
    return base


def sym_local(fn, l, depth=0):
    if 1 <= l <= fn.arg_count:
        # parameters may be reassigned (mut); treat as multi-def if assigned anywhere
        if fn.defs().get(l):
            return ('mlocal', l)
        return ('param', l)
    ds = fn.defs().get(l, [])
    if len(ds) != 1:
        return ('mlocal', l)
    d = ds[0]
    if d[0] == 'call':
        t = d[2]
        return ('call', callee_name(t), tuple(sym(fn, a, depth + 1) for a in t['args']))
    rv = d[3]
    k = rv['k']
    if k == 'use':
        return sym(fn, rv['op'], depth + 1)
    if k in ('ref', 'rawptr'):
        return ('ref', sym_place(fn, rv['place'], depth + 1))
    if k == 'cast':
        return ('cast', sym(fn, rv['op'], depth + 1), rv['to'], rv.get('from'))
    if k == 'binop':
        a, b = sym(fn, rv['l'], depth + 1), sym(fn, rv['r'], depth + 1)
        if rv['op'].endswith('WithOverflow'):
            return ('checked', rv['op'][:-12], a, b, rv['lty'])
        return ('binop', rv['op'], a, b)
    if k == 'unop':
        return ('unop', rv['op'], sym(fn, rv['x'], depth + 1))
    if k == 'discr':
        return ('discr', sym_place(fn, rv['place'], depth + 1), rv['enum'])
    if k == 'aggregate':
        ops = tuple(sym(fn, o, depth + 1) for o in rv['ops'])
        if 'adt' in rv:
            return ('agg', rv['adt'], rv['variant'], ops)
        return ('tuple', ops)
    return ('?',)


def sym_rv(fn, rv, depth=0):
    """symbolic value of an rvalue (as sym_local does for the single definition of a temporary)"""
    k = rv['k']
    if k == 'use':
        return sym(fn, rv['op'], depth + 1)
    if k in ('ref', 'rawptr'):
        return ('ref', sym_place(fn, rv['place'], depth + 1))
    if k == 'cast':
        return ('cast', sym(fn, rv['op'], depth + 1), rv['to'], rv.get('from'))
    if k == 'binop':
        a, b = sym(fn, rv['l'], depth + 1), sym(fn, rv['r'], depth + 1)
        if rv['op'].endswith('WithOverflow'):
            return ('checked', rv['op'][:-12], a, b, rv['lty'])
        return ('binop', rv['op'], a, b)
    if k == 'unop':
        return ('unop', rv['op'], sym(fn, rv['x'], depth + 1))
    return ('?',)


def unref(v):
    while isinstance(v, tuple) and v and v[0] in ('cast', 'ref', 'deref'):
        v = v[1]
    return v


LEN_FNS = ('core::slice::<impl [T]>::len', 'alloc::vec::Vec::<T, A>::len', 'alloc::string::String::len', 'core::str::<impl str>::len')


_INT_FROM = re.compile(r'From<(u8|u16|u32|u64|usize|i8|i16|i32|i64|isize|bool)>(>| for (u8|u16|u32|u64|u128|usize|i16|i32|i64|i128|isize))')


def strip(v):
    """normal form for comparisons: casts/borrows removed, all spellings of a length unified"""
    while isinstance(v, tuple) and v:
        if v[0] in ('cast', 'ref'):
            v = v[1]
            continue
        # `u32::from(x)`, `usize::from(x)`, `x.into()` between integer types: a lossless widening, the value itself
        if v[0] == 'call' and len(v[2]) == 1 and _INT_FROM.search(v[1]):
            v = v[2][0]
            continue
        break
    if isinstance(v, tuple) and v:
        if v[0] == 'call' and v[1] in LEN_FNS and len(v[2]) == 1:
            return ('len', unref(v[2][0]))
        if v[0] == 'unop' and v[1] == 'PtrMetadata':
            return ('len', unref(v[2]))
    return v


def mlocals(v, acc=None):
    acc = set() if acc is None else acc
    if isinstance(v, tuple):
        if v and v[0] == 'mlocal':
            acc.add(v[1])
        for x in v:
            mlocals(x, acc)
    return acc


def guards(fn, block):
    """[(symbolic condition, truth/variant info, guard block, edge target)] for branches that dominate `block`"""
    out = []
    dom = fn.dominators()
    if block not in dom:
        return out
    for d in sorted(dom[block]):
        t = fn.term(d)
        if t['k'] != 'switch':
            continue
        # which edges of d lead to block exclusively: successor s such that s dominates block (and s != d)
        vals = []
        targets = list(t['targets']) + [(None, t['otherwise'])]
        succs = {}
        for val, tb in targets:
            succs.setdefault(tb, []).append(val)
        for tb, vs in succs.items():
            if tb == block or tb in dom[block]:
                # the edge d->tb is the only way from d to tb? require tb has d as its only predecessor or d dominates tb strictly
                if all(p == d for p in fn.pred(tb)) or len(succs) > 1:
                    if len([p for p in fn.pred(tb) if p != d]) == 0:
                        vals.append((tb, vs))
        for tb, vs in vals:
            cond = sym(fn, t['op'])
            out.append((cond, vs, d, tb, t))
    return out


def no_redef_between(fn, local, frm, to, guard=None):
    """no assignment to `local` can execute after the guard edge into block frm was taken and before block `to` is reached
    without the guard being evaluated again (a loop-carried update passes through the guard block, which re-establishes the fact)"""
    stop = {guard} if guard is not None else set()
    reach_from = fn.reachable(frm, stop=stop)
    for d in fn.defs().get(local, []):
        b = d[1]
        if b in reach_from and to in fn.reachable(b, stop=stop):
            if b == to and d[0] == 'call':
                continue        # the destination of a call is written after the block's terminator
            return False
    return True


def bool_truth(vs, t):
    """truth of a bool switch edge: values list contains 0 -> false edge; None (otherwise) -> true"""
    if t['ty'] != 'bool':
        return None
    if vs == [0]:
        return False
    if vs == [None] or vs == [1]:
        return True
    return None


def facts_at(fn, block):
    """relational facts [(op, a, b)] known to hold on entry to `block` (from dominating bool branches)"""
    res = []
    for cond, vs, d, tb, t in guards(fn, block):
        tv = bool_truth(vs, t)
        c = cond
        if tv is None:
            # discriminant switches: record variant facts
            if c[0] == 'discr':
                res.append(('variant', c[1], c[2], vs, tb, d))
            continue
        neg = False
        while c[0] == 'unop' and c[1] == 'Not':
            c = c[2]
            tv = not tv
        if any(not no_redef_between(fn, l, tb, block, d) for l in mlocals(c)):
            continue
        if c[0] == 'binop' and c[1] in ('Lt', 'Le', 'Gt', 'Ge', 'Eq', 'Ne'):
            op = c[1]
            if not tv:
                op = {'Lt': 'Ge', 'Le': 'Gt', 'Gt': 'Le', 'Ge': 'Lt', 'Eq': 'Ne', 'Ne': 'Eq'}[op]
            # 6th element: the fact is the NEGATION of the comparison the code made (valid for integers; for floats a false
            # `a <= b` does not give `a > b`: NaN)
            res.append((op, c[2], c[3], tb, d, not tv))
        elif c[0] == 'call':
            res.append(('callbool', c, tv, tb, d))
    return res


def implies_lt(facts, a, b):
    """a < b from facts (syntactic, modulo casts)"""
    a, b = strip(a), strip(b)
    for f in facts:
        if f[0] == 'Lt' and strip(f[1]) == a and strip(f[2]) == b:
            return True
        if f[0] == 'Gt' and strip(f[2]) == a and strip(f[1]) == b:
            return True
        if f[0] == 'Eq':
            # len == n and a is const k < n
            for x, y in ((f[1], f[2]), (f[2], f[1])):
                if strip(x) == b and strip(y)[0] == 'int' and a[0] == 'int' and a[1] < strip(y)[1]:
                    return True
        if f[0] in ('Ge', 'Gt') and strip(f[1]) == b and strip(f[2])[0] == 'int' and a[0] == 'int':
            n = strip(f[2])[1] + (1 if f[0] == 'Gt' else 0)
            if a[1] < n:
                return True
    return False


def census(ctx, config='default'):
    def build():
        F = ctx.facts(config)
        reach = reachable(ctx, config)
        sites = []
        for key in sorted(reach):
            fn = F.fns[key]
            normal = fn.normal_blocks()
            ords = {}
            for b in sorted(normal):
                t = fn.term(b)
                if t['k'] == 'assert' and t['msg'] in ASSERT_KINDS:
                    name = 'Assert(%s)' % t['msg']
                    full = t.get('msg_full', '')
                    ords[name] = ords.get(name, 0) + 1
                    sites.append({'fn': key, 'f': fn, 'block': b, 'kind': 'assert', 'what': name, 'ord': ords[name], 'term': t, 'span': t['span']})
                elif t['k'] == 'call':
                    n = callee_name(t)
                    what = None
                    for full, short in PANIC_CALLS:
                        if n == full:
                            what = n
                    if what is None and any(n.endswith(sfx) for sfx in PANIC_SUFFIX):
                        what = n
                    if what is None and is_index_call(n):
                        what = n
                    if what is None and n.startswith('core::panicking::'):
                        what = n
                    if what is None and n in ('core::iter::traits::iterator::Iterator::nth',):
                        what = None
                    if what is None:
                        continue
                    if n.startswith('core::panicking::') and not user_panic(t):
                        # inside a std macro that is itself a site (assert! etc.): still a panic source
                        pass
                    short = what
                    ords[short] = ords.get(short, 0) + 1
                    sites.append({'fn': key, 'f': fn, 'block': b, 'kind': 'call', 'what': short, 'ord': ords[short], 'term': t, 'span': t['span']})
        return sites
    return _memo(ctx, 'psc-census-' + config, build)


def user_panic(t):
    return True


def macro_of(span):
    ms = span.get('macros') or []
    for m in reversed(ms):
        mm = m.split('::')[-1]
        if mm in ('panic', 'unimplemented', 'unreachable', 'assert', 'assert_eq', 'assert_ne', 'debug_assert', 'debug_assert_eq', 'debug_assert_ne', 'todo'):
            return mm
    return None
