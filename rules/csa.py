"""CSA — code-generator shape analysis (DESIGN §4.1).

An abstract interpreter for the *source of the compiler* (the syntax trees of `impl Compiler`):
it never builds an AST and never runs the compiler; it walks every arm of compile_statement /
compile_expression under an abstract state of the emitted code (stack height, last opcode,
labels, pending jumps, loop contexts, frames, operand provenance) and closes under the grammar
by a fixpoint over per-method summaries."""
from mirlib import CheckerError
from synlib import *
from rules.csa_state import H, Label, LoopCtx, State
from rules.csa_machine import Machine, show_av

PRIMS = {'emit_opcode', 'emit_u8', 'emit_u16', 'change_jump_operand_at', 'last_instruction_is',
         'remove_last_instruction', 'add_constant'}
CONTRACT = {'compile_expression': 1, 'compile_statement': 0}
OPAQUE_MACROS = {'format', 'debug_assert', 'debug_assert_eq', 'assert', 'assert_eq', 'panic', 'unreachable', 'println', 'eprintln'}


def cap_h(h, cap=4):
    """escape heights relative to the node are capped (finite domain): anything >= cap is 'cap'"""
    if h is None:
        return None
    if h.terms:
        return H(cap)
    return H(min(h.c, cap))


class Undecided(CheckerError):
    pass


class SummaryExit:
    def __init__(self, dh, last, reach, assume, escapes, scopes=0, endbound=False, defs0=False):
        self.dh, self.last, self.reach, self.assume, self.escapes, self.scopes = dh, last, reach, assume, escapes, scopes
        self.endbound = endbound
        self.defs0 = defs0

    def key(self):
        return (self.dh.key() if self.dh is not None else None, self.last, self.reach,
                self.scopes, self.endbound, self.defs0)


class CSA:
    def __init__(self, syn, optable, operands_decl, scope_variants=('Local', 'Global'), file='src/compiler.rs', ty='Compiler'):
        self.methods = syn.methods(file, ty)
        self.free_fns = {it['name']: it for it in syn.all_items(file) if it['k'] == 'fn'}
        # constant tables of the module (`const FUSED: [(Operator, OpCode); 11] = [..]`): a name stands for its initialiser
        self.consts = {it['name']: it['expr'] for it in syn.all_items(file) if it['k'] == 'const' and it.get('expr') is not None}
        # the two fields of a loop context by what they hold, not by their names: a position (where `volgende` jumps to) and a list
        # of positions (the `stop` jumps still to be patched)
        self.loop_start_field, self.loop_breaks_field = 'start', 'break_instructions'
        for it in syn.all_items(file):
            if it['k'] == 'structdef' and it['name'] == 'LoopContext':
                us = [f_['name'] for f_ in it['fields'] if f_['ty'].replace(' ', '') == 'usize']
                vs = [f_['name'] for f_ in it['fields'] if f_['ty'].replace(' ', '') == 'Vec<usize>']
                if len(us) == 1 and len(vs) == 1:
                    self.loop_start_field, self.loop_breaks_field = us[0], vs[0]
        self.m = Machine(optable, operands_decl)
        self.scope_variants = list(scope_variants)
        self.summaries = {}       # method -> {key: SummaryExit}
        self.recursive = self._recursive_methods()
        self.depth = 0
        self.sid = 0
        self.collect = None       # when set: list receiving finished paths (method, kind, st, val)
        self.symtab_bool = {}
        self.err_dirty = {}
        self.symtab_reset = {}
        self.symtab_marks = set()       # ... those that return the number of names in the outermost global scope
        self.symtab_pure = set()        # `&self` queries of the symbol table returning a number (e.g. how many globals exist)
        self.symtab_resolve = set()     # name -> ('ctxlen', op, n) evaluators for SymbolTable bool methods
        self.err_states = []      # states at error exits (for C17)
        self.unmodelled = []
        self.escapes_of = {}
        self.ast_domains = {}     # suffix of an AST access path -> set of allowed variant names
        self.tested_ops = set()
        for m_ in self.methods.values():
            for n in find_all(m_['body'], lambda n: n.get('k') == 'mcall' and n['method'] == 'last_instruction_is'):
                for a in n['args']:
                    if path_of(a) and path_of(a)[-2:-1] == ['OpCode']:
                        self.tested_ops.add(path_of(a)[-1])
            # the register may also be inspected directly (`match self.last_instruction { Some(OpCode::Pop) => ..`)
            for n in find_all(m_['body'], lambda n: n.get('k') in ('p_path', 'p_tuple_struct') and len(n.get('path', [])) >= 2 and n['path'][-2] == 'OpCode'):
                self.tested_ops.add(n['path'][-1])

    # ---- call graph among the methods -----------------------------------------------------
    def _calls_of(self, m):
        out = set()
        body = self.methods[m]['body']
        # names that stand for the compiler inside closures handed to a helper (`self.with_scope(|c| c.compile_statement(s))`):
        # the single-identifier parameters of closures written in this method
        aliases = {'self'}
        for clo in find_all(body, lambda n: n.get('k') == 'closure'):
            for inp in clo.get('inputs') or []:
                pat = inp.get('pat', inp) if isinstance(inp, dict) else inp
                while isinstance(pat, dict) and pat.get('k') == 'p_type':
                    pat = pat['pat']
                if isinstance(pat, dict) and pat.get('k') == 'p_ident':
                    aliases.add(pat['name'])
        for n in find_all(body, lambda n: n.get('k') == 'mcall' and len(path_of(n['recv']) or []) == 1 and path_of(n['recv'])[0] in aliases):
            if n['method'] in self.methods:
                out.add(n['method'])
        return out

    def _recursive_methods(self):
        rec = self._recursive_methods0()
        # a helper that is new with respect to the pinned tree is spliced in at its call sites (it has no summary contract);
        # that is possible when every cycle through it also passes a pinned recursive method, which keeps its summary
        from mirlib import load_pinned
        pj = load_pinned()
        if pj:
            pinned = {p_.split('::')[-1] for p_ in pj.get('lib', {}) if p_.startswith('compiler::Compiler::')}
            new = {m for m in rec if m not in pinned}
            if new:
                g = {m: {c for c in self._calls_of(m) if c in new} for m in new}
                # the new helpers must be acyclic among themselves
                def cyc(m, seen):
                    return any(c in seen or cyc(c, seen | {c}) for c in g[m])
                if not any(cyc(m, {m}) for m in new):
                    rec = rec - new
        return rec

    def _recursive_methods0(self):
        g = {m: self._calls_of(m) for m in self.methods}
        rec = set()
        for m in g:
            seen = set()
            st = list(g[m])
            while st:
                x = st.pop()
                if x == m:
                    rec.add(m)
                    break
                if x in seen:
                    continue
                seen.add(x)
                st.extend(g.get(x, ()))
        return rec

    # ---- values -----------------------------------------------------------------------------
    def fresh_sym(self):
        self.sid += 1
        return self.sid

    # ---- patterns ---------------------------------------------------------------------------
    def match_pat(self, pat, val, st, env):
        """returns list of (verdict, st, env) with verdict in 'yes','maybe'; [] = no match.
        'maybe' results carry the assumption that the pattern matched."""
        k = pat['k']
        if k == 'p_wild':
            return [('yes', st, env)]
        if k == 'p_ident':
            if pat.get('sub'):
                raise Undecided('CSA: @-pattern')
            # a bare identifier may be a unit variant/const in scope; the compiler code uses lower-case bindings
            env = dict(env)
            env[pat['name']] = val
            return [('yes', st, env)]
        if k in ('p_ref', 'p_type', 'p_paren'):
            return self.match_pat(pat['pat'], val, st, env)
        if k == 'p_or':
            out = []
            for c in pat['cases']:
                out += self.match_pat(c, val, st, env)
            return out
        if k == 'p_tuple':
            if not pat['elems'] and val[0] in ('unit', 'unk'):
                return [('yes', st, env)]          # the pattern `()`
            if val[0] in ('ast', 'unk'):
                # a tuple the analysis knows only by name (`stmts.split_last()` gave `(last, init)`): its parts are named after it
                base = val[1] if val[0] == 'ast' else 'tuple'
                val = ('tuple', [(val[0], '%s.%d' % (base, i)) for i in range(len(pat['elems']))])
            if val[0] != 'tuple' or len(val[1]) != len(pat['elems']):
                raise Undecided('CSA: tuple pattern against %s' % (val,))
            results = [('yes', st, env)]
            for sub, v in zip(pat['elems'], val[1]):
                nxt = []
                for verdict, s1, e1 in results:
                    for v2, s2, e2 in self.match_pat(sub, v, s1, e1):
                        nxt.append(('yes' if verdict == 'yes' and v2 == 'yes' else 'maybe', s2, e2))
                results = nxt
            return results
        if k == 'p_slice':
            # `[a, b]` against a list of the syntax tree: matches when the list has that many elements (not known here)
            if val[0] in ('ast', 'unk'):
                base = val[1] if val[0] == 'ast' else 'slice'
                results = [('maybe', st.clone(), env)]
                for i, sub in enumerate(pat['elems']):
                    if sub.get('k') == 'p_rest':
                        continue
                    nxt = []
                    for verdict, s1, e1 in results:
                        for v2, s2, e2 in self.match_pat(sub, ('ast', '%s[%d]' % (base, i)), s1, e1):
                            nxt.append(('maybe', s2, e2))
                    results = nxt
                return results
            raise Undecided('CSA: slice pattern against %s' % (val,))
        if k == 'p_lit':
            lv = pat['lit'].get('value')
            if val[0] in ('int', 'bool', 'str'):
                return [('yes', st, env)] if val[1] == lv else []
            return [('maybe', st.clone(), env)]
        if k == 'p_range':
            return [('maybe', st.clone(), env)]
        if k in ('p_path', 'p_tuple_struct', 'p_struct'):
            path = pat['path']
            name = path[-1]
            enum = path[-2] if len(path) > 1 else None
            subs = []
            if k == 'p_tuple_struct':
                subs = [(str(i), p) for i, p in enumerate(pat['elems'])]
            elif k == 'p_struct':
                subs = [(f['member'], f['pat']) for f in pat['fields']]
            if val == ('self',) and k == 'p_struct' and name in ('Self', 'Compiler'):
                # `let Self { constants, gc, .. } = self;`: each name stands for that field of the compiler
                results = [('yes', st, dict(env))]
                for member, sp in subs:
                    nxt = []
                    for verdict, s3, e3 in results:
                        for v4, s4, e4 in self.match_pat(sp, ('selffield', member), s3, e3):
                            nxt.append((verdict if v4 == 'yes' else 'maybe', s4, e4))
                    results = nxt
                return results
            if val == ('selffield', 'last_instruction') or val[0] == 'lastreg':
                self.m.finalize(st)
                if name == 'None' and enum in (None, 'Option'):
                    if st.last == '?':
                        s2 = st.clone()
                        s2.last = 'None'
                        return [('maybe', s2, env)]
                    return [('yes', st, env)] if st.last == 'None' else []
                if name == 'Some' and enum in (None, 'Option'):
                    sp = subs[0][1]
                    while sp['k'] == 'p_ref':
                        sp = sp['pat']
                    if sp['k'] in ('p_path',) and len(sp['path']) >= 2 and sp['path'][-2] == 'OpCode':
                        want = sp['path'][-1]
                        if st.last == '?':
                            s2 = st.clone()
                            s2.last = want
                            s2.last_emit = None
                            return [('maybe', s2, env)]
                        return [('yes', st, env)] if st.last == want else []
                    if sp['k'] == 'p_or':
                        out = []
                        for c in sp['cases']:
                            out += self.match_pat({'k': 'p_tuple_struct', 'path': path, 'elems': [c]}, val, st.clone(), env)
                        return out
                    if sp['k'] in ('p_wild', 'p_ident'):
                        if st.last == 'None':
                            return []
                        e2 = dict(env)
                        if sp['k'] == 'p_ident':
                            e2[sp['name']] = ('opcode', st.last) if st.last not in ('?', 'other') else ('unk', 'opcode')
                        return [('maybe' if st.last == '?' else 'yes', st.clone() if st.last == '?' else st, e2)]
                raise Undecided('CSA: pattern %s against the peephole register' % render_pat(pat))
            # Option / Result
            if name in ('Some', 'None') and (enum in (None, 'Option')):
                if val[0] == 'opt':
                    if val[1] == name.lower():
                        if name == 'Some':
                            return self.match_pat(subs[0][1], val[2], st, env)
                        return [('yes', st, env)]
                    return []
                if val[0] in ('ast', 'unk'):
                    if name == 'Some':
                        inner = ('ast', val[1] + '/Some') if val[0] == 'ast' else ('unk', 'some')
                        return [('maybe', s2, e2) for _, s2, e2 in self.match_pat(subs[0][1], inner, st.clone(), env)]
                    return [('maybe', st.clone(), env)]
                raise Undecided('CSA: Option pattern against %s' % (val,))
            if name in ('Ok', 'Err') and enum in (None, 'Result'):
                if val[0] == 'res':
                    if val[1] == name.lower():
                        return self.match_pat(subs[0][1], val[2], st, env)
                    return []
                raise Undecided('CSA: Result pattern against %s' % (val,))
            if name == 'Symbol' and val[0] == 'sym' and k == 'p_struct':
                # `let Symbol { scope, index } = symbol`
                e2 = dict(env)
                res_ = [('yes', st, e2)]
                for member, sp in subs:
                    fv = ('symscope', val[1]) if member == 'scope' else ('symindex', val[1]) if member == 'index' else ('unk', member)
                    nxt = []
                    for verdict, s3, e3 in res_:
                        for v4, s4, e4 in self.match_pat(sp, fv, s3, e3):
                            nxt.append((verdict if v4 == 'yes' else 'maybe', s4, e4))
                    res_ = nxt
                return res_
            if enum == 'Scope':
                if val[0] == 'symscope':
                    known = st.sym_scope.get(val[1])
                    if known is not None:
                        return [('yes', st, env)] if known == name else []
                    s2 = st.clone()
                    s2.sym_scope[val[1]] = name
                    return [('maybe', s2, env)]
                if val[0] == 'scope':
                    return [('yes', st, env)] if val[1] == name else []
                raise Undecided('CSA: Scope pattern against %s' % (val,))
            if enum == 'OpCode' and val[0] == 'opcode':
                return [('yes', st, env)] if val[1] == name else []
            if enum == 'Operator' and val[0] == 'operator':
                return [('yes', st, env)] if val[1] == name else []
            # AST constructors (Expr::X, Stmt::X, Operator::X)
            if val[0] == 'ast':
                for suffix, dom in self.ast_domains.items():
                    if val[1].endswith(suffix) and name not in dom:
                        return []
                known = st.facts.get(('variant', val[1]))
                if known is not None and known != (enum, name) and not isinstance(known, frozenset):
                    return []
                s2 = st.clone()
                s2.facts[('variant', val[1])] = (enum, name)
                e2 = env
                results = [('maybe' if known is None else 'yes', s2, e2)]
                for member, sp in subs:
                    nxt = []
                    for verdict, s3, e3 in results:
                        for v4, s4, e4 in self.match_pat(sp, ('ast', '%s/%s.%s' % (val[1], name, member)), s3, e3):
                            nxt.append((verdict if v4 == 'yes' else 'maybe', s4, e4))
                    results = nxt
                return results
            raise Undecided('CSA: pattern %s against value %s' % (render_pat(pat), val))
        raise Undecided('CSA: unsupported pattern kind %s' % k)

    # ---- expressions ------------------------------------------------------------------------
    def ev(self, e, st, env):
        """evaluate expression; returns list of (st, env, kind, val): kind 'v' | 'ret' | ('brk', label)"""
        k = e['k']
        self.steps = getattr(self, 'steps', 0) + 1
        if self.steps > 6000000:
            raise Undecided('CSA: analysis budget exhausted (the abstract state does not stabilise)')
        fn = getattr(self, 'ev_' + k, None)
        if fn is None:
            raise Undecided('CSA: unsupported expression kind `%s` at line %s' % (k, e.get('line')))
        return fn(e, st, env)

    def seq(self, exprs, st, env, cont):
        """evaluate exprs left to right; cont(st, env, [vals]) -> outcomes"""
        def rec(i, st, env, vals):
            if i == len(exprs):
                return cont(st, env, vals)
            out = []
            for s1, e1, kind, v in self.ev(exprs[i], st, env):
                if kind != 'v':
                    out.append((s1, e1, kind, v))
                else:
                    out += rec(i + 1, s1, e1, vals + [v])
            return out
        return rec(0, st, env, [])

    def ev_lit(self, e, st, env):
        t = e.get('lit')
        if t == 'int':
            return [(st, env, 'v', ('int', e['value']))]
        if t == 'bool':
            return [(st, env, 'v', ('bool', e['value']))]
        if t == 'str':
            return [(st, env, 'v', ('str', e['value']))]
        return [(st, env, 'v', ('unk', 'lit'))]

    def ev_path(self, e, st, env):
        p = e['path']
        if len(p) == 1:
            if p[0] in env:
                return [(st, env, 'v', env[p[0]])]
            if p[0] == 'self':
                return [(st, env, 'v', ('self',))]
            if p[0] == 'JUMP_PLACEHOLDER':
                return [(st, env, 'v', ('placeholder',))]
            if p[0] == 'None':
                return [(st, env, 'v', ('opt', 'none'))]
            if p[0] in ('Some', 'Ok', 'Err'):
                return [(st, env, 'v', ('ctor', p[0]))]          # the constructor as a function value: `.map(Some)`
            if p[0] in self.consts and self.depth < 8:
                # a constant of the module: its initialiser is evaluated in place (it can name nothing but other constants)
                self.depth += 1
                try:
                    return [(st, env, 'v', v) for _s, _e, kind, v in self.ev(self.consts[p[0]], st.clone(), {}) if kind == 'v'][:1] or \
                        [(st, env, 'v', ('unk', p[0]))]
                finally:
                    self.depth -= 1
            raise Undecided('CSA: unknown name `%s` at line %s' % (p[0], e.get('line')))
        if p[-2] == 'OpCode':
            return [(st, env, 'v', ('opcode', p[-1]))]
        if p[-2] == 'Scope':
            return [(st, env, 'v', ('scope', p[-1]))]
        if p[-2] == 'Operator':
            return [(st, env, 'v', ('operator', p[-1]))]
        return [(st, env, 'v', ('unk', '::'.join(p)))]

    def ev_ref(self, e, st, env):
        return self.ev(e['expr'], st, env)

    def ev_unary(self, e, st, env):
        out = []
        for s1, e1, kind, v in self.ev(e['expr'], st, env):
            if kind != 'v':
                out.append((s1, e1, kind, v))
            elif e['op'] == '!':
                if v[0] == 'bool':
                    out.append((s1, e1, 'v', ('bool', not v[1])))
                else:
                    out.append((s1, e1, 'v', ('unkbool',)))
            elif e['op'] == '*':
                out.append((s1, e1, 'v', v))
            else:
                out.append((s1, e1, 'v', ('unk', 'unary')))
        return out

    def ev_cast(self, e, st, env):
        out = []
        for s1, e1, kind, v in self.ev(e['expr'], st, env):
            if kind == 'v' and v[0] == 'builtin':
                v = ('builtin_byte',)
            out.append((s1, e1, kind, v))
        return out

    def ev_tuple(self, e, st, env):
        return self.seq(e['elems'], st, env, lambda s, en, vals: [(s, en, 'v', ('tuple', tuple(vals)) if vals else ('unit',))])

    def ev_array(self, e, st, env):
        return self.seq(e['elems'], st, env, lambda s, en, vals: [(s, en, 'v', ('itemlist', list(vals), None))])

    def ev_macro(self, e, st, env):
        name = e['name'].split('::')[-1]
        if name in OPAQUE_MACROS:
            toks = e.get('tokens', '')
            if 'emit_' in toks or 'instructions' in toks and name not in ('debug_assert', 'debug_assert_eq', 'assert', 'assert_eq'):
                raise Undecided('CSA: macro %s! touches the code buffer' % name)
            if name in ('panic', 'unreachable'):
                return []
            return [(st, env, 'v', ('unk', name + '!'))]
        if name == 'matches' and e.get('scrutinee') is not None:
            out = []
            for s1, e1, kind, v in self.ev(e['scrutinee'], st, env):
                if kind != 'v':
                    out.append((s1, e1, kind, v))
                    continue
                ms = self.match_pat(e['pat'], v, s1.clone(), e1)
                definite = False
                for verdict, s2, e2 in ms:
                    if e.get('guard') is not None:
                        out.append((s2, e1, 'v', ('unkbool',)))
                        continue
                    out.append((s2, e1, 'v', ('bool', True)))
                    if verdict == 'yes':
                        definite = True
                if not definite:
                    out.append((s1, e1, 'v', ('bool', False)))
            return out
        raise Undecided('CSA: macro %s! at line %s' % (name, e.get('line')))

    def ev_binary(self, e, st, env):
        op = e['op']
        if op in ('&&', '||'):
            out = []
            for s1, e1, kind, l in self.ev(e['l'], st, env):
                if kind != 'v':
                    out.append((s1, e1, kind, l))
                    continue
                for tv, s2 in self.truth(l, s1):
                    if (op == '&&' and not tv) or (op == '||' and tv):
                        out.append((s2, e1, 'v', ('bool', tv)))
                    else:
                        out += self.ev(e['r'], s2, e1)
            return out

        def cont(s, en, vals):
            l, r = vals
            if l[0] == 'pos' and r[0] == 'pos' and op in ('==', '!=', '>', '>=', '<', '<='):
                # code positions only grow between two captures (remove_last_instruction cannot go below the earlier one,
                # O4 forbids removing across a captured label): a later capture with another id is a later position
                same_ = l[1] == r[1]
                val = {'==': same_, '!=': not same_, '>': not same_, '>=': True, '<': False, '<=': same_}[op]
                return [(s, en, 'v', ('bool', val))]
            if op in ('==', '!='):
                res = self.eq(l, r, s)
                out = []
                for tv, s2 in res:
                    if tv is None:
                        out.append((s2, en, 'v', ('unkbool',)))
                    else:
                        out.append((s2, en, 'v', ('bool', tv if op == '==' else not tv)))
                return out
            return [(s, en, 'v', ('unk', 'binop'))]
        return self.seq([e['l'], e['r']], st, env, cont)

    def eq(self, l, r, st):
        for a, b in ((l, r), (r, l)):
            if a[0] == 'symscope' and b[0] == 'scope':
                known = st.sym_scope.get(a[1])
                if known is not None:
                    return [(known == b[1], st)]
                s_t = st.clone()
                s_t.sym_scope[a[1]] = b[1]
                s_f = st.clone()
                others = [x for x in self.scope_variants if x != b[1]]
                if len(others) == 1:
                    s_f.sym_scope[a[1]] = others[0]
                return [(True, s_t), (False, s_f)]
        if l[0] in ('int', 'bool', 'str', 'opcode', 'scope', 'operator') and l[0] == r[0]:
            return [(l[1] == r[1], st)]
        for a, b in ((l, r), (r, l)):
            if a[0] == 'operator' and b[0] == 'ast':
                # an operator of the tree compared with a constant one: decided when the path already fixed it, otherwise both
                known = st.facts.get(('variant', b[1]))
                if isinstance(known, tuple) and not isinstance(known, frozenset):
                    return [(known == ('Operator', a[1]), st)]
                if isinstance(known, frozenset):
                    if ('Operator', a[1]) in known or a[1] in known:
                        return [(False, st)]
                s_t = st.clone()
                s_t.facts[('variant', b[1])] = ('Operator', a[1])
                return [(True, s_t), (False, st.clone())]
        return [(None, st)]

    def truth(self, v, st):
        """[(bool, st)] — forks on unknown"""
        if v[0] == 'bool':
            return [(v[1], st)]
        return [(True, st.clone()), (False, st.clone())]

    def ev_field(self, e, st, env):
        base = e['base']
        if path_of(base) == ['self']:
            return [(st, env, 'v', ('selffield', e['member']))]
        pb_ = path_of(base)
        if pb_ and len(pb_) == 1 and env.get(pb_[0]) == ('self',):
            return [(st, env, 'v', ('selffield', e['member']))]       # `c.symbols` where c is the compiler handed to a closure
        out = []
        for s1, e1, kind, v in self.ev(base, st, env):
            if kind != 'v':
                out.append((s1, e1, kind, v))
                continue
            m = e['member']
            if v[0] == 'sym':
                out.append((s1, e1, 'v', ('symscope', v[1]) if m == 'scope' else ('symindex', v[1]) if m == 'index' else ('unk', m)))
            elif v[0] == 'loopctx':
                if m == self.loop_start_field:
                    if v[1] == 'outer':
                        out.append((s1, e1, 'v', ('outer_start',)))
                    else:
                        out.append((s1, e1, 'v', ('pos', s1.loops[v[1]].start.pos)))
                elif m == self.loop_breaks_field:
                    out.append((s1, e1, 'v', ('breaklist', v[1])))
                else:
                    out.append((s1, e1, 'v', ('unk', m)))
            elif v[0] == 'loopctx_val':
                if m == self.loop_breaks_field:
                    out.append((s1, e1, 'v', ('breaklist_val', v[1])))
                elif m == self.loop_start_field:
                    out.append((s1, e1, 'v', ('pos', v[1].start.pos)))
                else:
                    out.append((s1, e1, 'v', ('unk', m)))
            elif v[0] == 'selffield':
                out.append((s1, e1, 'v', ('selffield', v[1] + '.' + m)))
            elif v[0] == 'ast':
                out.append((s1, e1, 'v', ('ast', v[1] + '.' + m)))
            elif v[0] == 'struct' and m in dict(v[2]):
                out.append((s1, e1, 'v', dict(v[2])[m]))        # a field of a record built on this path (`Checkpoint { globals_defined }`)
            else:
                out.append((s1, e1, 'v', ('unk', m)))
        return out

    def ev_struct(self, e, st, env):
        exprs = [f['expr'] for f in e['fields']]
        return self.seq(exprs, st, env, lambda s, en, vals: [(s, en, 'v', ('struct', e['path'][-1], tuple(zip([f['member'] for f in e['fields']], vals))))])

    def ev_index(self, e, st, env):
        return self.seq([e['base'], e['index']], st, env, lambda s, en, vals: [(s, en, 'v', ('unk', 'index'))])

    def ev___value(self, e, st, env):
        return [(st, env, 'v', e['value'])]

    def ev_closure(self, e, st, env):
        return [(st, env, 'v', ('closure', e, env))]

    def apply_closure(self, clo, args, st, env):
        """outcomes of calling a closure value: a `return`/`?` inside it ends the closure, not the method"""
        if len(clo) < 3:
            return [(st, env, 'v', ('unk', 'closure()'))]
        e, cenv = clo[1], dict(clo[2])
        params = e.get('inputs') or e.get('params') or []
        states = [(st, cenv)]
        for p, v in zip(params, args):
            pat = p.get('pat', p) if isinstance(p, dict) else p
            while pat.get('k') == 'p_type':
                pat = pat['pat']
            nxt = []
            for s1, e1 in states:
                for _, s2, e2 in self.match_pat(pat, v, s1, e1):
                    nxt.append((s2, e2))
            states = nxt
        out = []
        for s1, e1 in states:
            for s2, e2, kind, v in self.ev(e['body'], s1, e1):
                if kind in ('v', 'ret'):
                    out.append((s2, env, 'v', v))
                else:
                    raise Undecided('CSA: break/continue leaves a closure')
        return out

    def ev_try(self, e, st, env):
        out = []
        for s1, e1, kind, v in self.ev(e['expr'], st, env):
            if kind != 'v':
                out.append((s1, e1, kind, v))
            elif v[0] == 'res':
                if v[1] == 'ok':
                    out.append((s1, e1, 'v', v[2]))
                else:
                    out.append((s1, e1, 'ret', v))
            elif v[0] == 'opt':
                if v[1] == 'some':
                    out.append((s1, e1, 'v', v[2]))
                else:
                    out.append((s1, e1, 'ret', v))
            else:
                raise Undecided('CSA: `?` applied to %s at line %s' % (v, e.get('line')))
        return out

    def ev_return(self, e, st, env):
        if e.get('expr') is None:
            return [(st, env, 'ret', ('unit',))]
        out = []
        for s1, e1, kind, v in self.ev(e['expr'], st, env):
            out.append((s1, e1, 'ret' if kind == 'v' else kind, v))
        return out

    def ev_break(self, e, st, env):
        if e.get('expr') is not None:
            raise Undecided('CSA: break with value')
        return [(st, env, ('brk', e.get('label')), ('unit',))]

    def ev_blockexpr(self, e, st, env):
        outs = self.ev_block(e['block'], st, env)
        lab = e.get('label')
        res = []
        for s1, e1, kind, v in outs:
            if isinstance(kind, tuple) and kind[0] == 'brk' and lab is not None and kind[1] == lab:
                res.append((s1, e1, 'v', ('unit',)))
            else:
                res.append((s1, e1, kind, v))
        return res

    def ev_unsafe(self, e, st, env):
        return self.ev_block(e['block'], st, env)

    def ev_block(self, b, st, env):
        stmts = b['stmts']

        def rec(i, st, env):
            if i == len(stmts):
                return [(st, env, 'v', ('unit',))]
            s = stmts[i]
            last = i == len(stmts) - 1
            out = []
            if s['k'] == 's_let':
                if s.get('else') is not None:
                    for s1, e1, kind, v in self.ev(s['init'], st, env):
                        if kind != 'v':
                            out.append((s1, e1, kind, v))
                            continue
                        ms = self.match_pat(s['pat'], v, s1.clone(), e1)
                        definite = False
                        for verdict, s2, e2 in ms:
                            out += rec(i + 1, s2, e2)
                            if verdict == 'yes':
                                definite = True
                        if not definite:
                            s3 = s1.clone()
                            s3.trace.append('not %s' % render_pat(s['pat']))
                            for o in self.ev(s['else'], s3, e1):
                                if o[2] != 'v':        # the else block must diverge
                                    out.append(o)
                    return out
                if s.get('init') is None:
                    e2 = dict(env)
                    return rec(i + 1, st, e2)
                for s1, e1, kind, v in self.ev(s['init'], st, env):
                    if kind != 'v':
                        out.append((s1, e1, kind, v))
                        continue
                    ms = self.match_pat(s['pat'], v, s1, e1)
                    for verdict, s2, e2 in ms:
                        out += rec(i + 1, s2, e2)
                return out
            if s['k'] == 's_expr':
                for s1, e1, kind, v in self.ev(s['expr'], st, env):
                    if kind != 'v':
                        out.append((s1, e1, kind, v))
                    elif last and not s['semi']:
                        out.append((s1, e1, 'v', v))
                    else:
                        out += rec(i + 1, s1, e1)
                return out
            if s['k'] == 's_item':
                it_ = s.get('item') or {}
                if it_.get('k') == 'const' and it_.get('expr') is not None and it_.get('name'):
                    # a constant local to the function: visible in the whole block, evaluated where it is used
                    self.consts.setdefault(it_['name'], it_['expr'])
                return rec(i + 1, st, env)
            raise Undecided('CSA: statement kind %s' % s['k'])
        res = rec(0, st, env)
        # block-scoped bindings: restore outer env names (keep it simple: return inner env; names are unique enough)
        return res

    def ev_if(self, e, st, env):
        cond = e['cond']
        out = []
        if cond['k'] == 'let':
            for s1, e1, kind, v in self.ev(cond['expr'], st, env):
                if kind != 'v':
                    out.append((s1, e1, kind, v))
                    continue
                ms = self.match_pat(cond['pat'], v, s1, e1)
                matched_yes = False
                for verdict, s2, e2 in ms:
                    s2.trace.append('if let %s' % render_pat(cond['pat']))
                    for o in self.ev_block(e['then'], s2, e2):
                        out.append((o[0], e1 if o[2] == 'v' else o[1], o[2], o[3]))
                    if verdict == 'yes':
                        matched_yes = True
                if not matched_yes:
                    s3 = s1.clone()
                    if ms:
                        s3.trace.append('not %s' % render_pat(cond['pat']))
                    if e.get('else') is not None:
                        out += self.ev(e['else'], s3, e1)
                    else:
                        out.append((s3, e1, 'v', ('unit',)))
            return out
        for s1, e1, kind, v in self.ev(cond, st, env):
            if kind != 'v':
                out.append((s1, e1, kind, v))
                continue
            for tv, s2 in self.truth(v, s1):
                if tv:
                    if v[0] != 'bool':
                        s2.trace.append('if %s' % render(cond))
                    out += self.ev_block(e['then'], s2, e1)
                else:
                    if v[0] != 'bool':
                        s2.trace.append('if !(%s)' % render(cond))
                    if e.get('else') is not None:
                        out += self.ev(e['else'], s2, e1)
                    else:
                        out.append((s2, e1, 'v', ('unit',)))
        return out

    def ev_match(self, e, st, env):
        out = []
        for s1, e1, kind, v in self.ev(e['expr'], st, env):
            if kind != 'v':
                out.append((s1, e1, kind, v))
                continue
            cur_states = [(s1, e1)]
            for arm in e['arms']:
                nxt = []
                for s2, e2 in cur_states:
                    ms = self.match_pat(arm['pat'], v, s2.clone(), e2)
                    definite = False
                    for verdict, s3, e3 in ms:
                        guard_ok = [(s3, e3)]
                        if arm.get('guard') is not None:
                            guard_ok = []
                            for s4, e4, k4, g in self.ev(arm['guard'], s3, e3):
                                for tv, s5 in self.truth(g, s4):
                                    if tv:
                                        guard_ok.append((s5, e4))
                            verdict = 'maybe'
                        for s4, e4 in guard_ok:
                            s4.trace.append(render_pat(arm['pat']))
                            for o in self.ev(arm['body'], s4, e4):
                                out.append((o[0], e2 if o[2] == 'v' else o[1], o[2], o[3]))
                        if verdict == 'yes':
                            definite = True
                    if not definite:
                        nxt.append((s2, e2))
                cur_states = nxt
                if not cur_states:
                    break
        return out

    def ev_for(self, e, st, env):
        return self.eval_for(e, st, env)

    def ev_assign(self, e, st, env):
        l = e['l']
        out = []
        for s1, e1, kind, v in self.ev(e['r'], st, env):
            if kind != 'v':
                out.append((s1, e1, kind, v))
                continue
            if is_self_field(l, 'loop_contexts'):
                if v[0] == 'savedloops':
                    s1.loops, s1.outer_loops = [c for c in v[1]], v[2]
                else:
                    raise Undecided('CSA: assignment to self.loop_contexts of %s' % (v,))
            elif is_self_field(l, 'last_instruction'):
                if v[0] == 'opt' and v[1] == 'none':
                    self.m.finalize(s1)
                    s1.last = 'None'
                    s1.dirty.discard('last')
                elif v[0] == 'opt' and v[2][0] == 'opcode':
                    s1.last = v[2][1]
                else:
                    raise Undecided('CSA: assignment to self.last_instruction of %s' % (v,))
            elif is_self_field(l, 'instructions'):
                self.unmodelled.append(('assign self.instructions', e.get('line')))
                s1.viol('R02.2', 'the code buffer is assigned outside the emit primitives')
            elif path_of(l) and len(path_of(l)) == 1:
                e1 = dict(e1)
                e1[path_of(l)[0]] = v
            elif is_self_field(l):
                pass
            else:
                raise Undecided('CSA: assignment to %s' % render(l))
            out.append((s1, e1, 'v', ('unit',)))
        return out

    # ---- calls ------------------------------------------------------------------------------
    def ev_call(self, e, st, env):
        f = path_of(e['func'])
        if f is None:
            raise Undecided('CSA: call of a non-path expression at line %s' % e.get('line'))
        name = f[-1]
        q = f[-2] if len(f) > 1 else None

        def cont(s, en, vals):
            if q is None and isinstance(en.get(name), tuple) and en[name][0] == 'closure':
                # a local closure called by name: `let f = || ...; f()`
                return self.apply_closure(en[name], vals, s, en)
            if q is None and name in ('Ok', 'Err'):
                return [(s, en, 'v', ('res', name.lower(), vals[0] if vals else ('unit',)))]
            if q is None and name == 'Some':
                return [(s, en, 'v', ('opt', 'some', vals[0]))]
            if q == 'Object':
                if name == 'function':
                    self.check_function_obj(s, vals)
                if name.startswith('try_'):
                    s2 = s.clone()
                    s2.trace.append('%s fails' % name)
                    return [(s, en, 'v', ('res', 'ok', ('obj', name[4:], tuple(vals)))), (s2, en, 'v', ('res', 'err', ('error', 'range')))]
                return [(s, en, 'v', ('obj', name, tuple(vals)))]
            if q == 'builtins' and name == 'resolve':
                s2 = s.clone()
                s2.trace.append('builtin')
                s3 = s.clone()
                s3.trace.append('not builtin')
                return [(s2, en, 'v', ('opt', 'some', ('builtin',))), (s3, en, 'v', ('opt', 'none'))]
            if q == 'LoopContext' and name == 'new':
                return [(s, en, 'v', ('newloop', vals[0]))]
            if q == 'mem' and name == 'take':
                v = vals[0]
                if v == ('selffield', 'loop_contexts'):
                    saved = ('savedloops', list(s.loops), s.outer_loops)
                    s.loops = []
                    s.outer_loops = 'empty'
                    return [(s, en, 'v', saved)]
                if v == ('selffield', 'instructions'):
                    self.m.finalize(s)
                    return [(s, en, 'v', ('code',))]
                return [(s, en, 'v', ('unk', 'take'))]
            if q == 'Error' or (len(f) > 2 and f[-3] == 'Error'):
                return [(s, en, 'v', ('error', name))]
            if q in ('Vec', 'String', 'Bytecode'):
                return [(s, en, 'v', ('unk', name))]
            # a function without `self` cannot touch the compiler's state: its body is evaluated on the argument values (a table
            # such as operator -> opcode folds; anything the evaluation does not model falls back to `pure conversion` below)
            target = None
            if q is None and name in self.free_fns:
                target = self.free_fns[name]
            elif q in ('Self', 'Compiler') and name in self.methods and not any(i_.get('self') for i_ in self.methods[name]['inputs']):
                target = self.methods[name]
            if target is not None and self.depth < 6:
                params = [i_ for i_ in target['inputs'] if not i_.get('self')]
                if len(params) == len(vals) and all(p_['pat'].get('k') == 'p_ident' for p_ in params):
                    env2 = {p_['pat']['name']: v_ for p_, v_ in zip(params, vals)}
                    self.depth += 1
                    try:
                        outs = self.ev_block(target['body'], s.clone(), env2)
                        res = []
                        okk = True
                        for s1, e1, kind, v in outs:
                            if kind in ('v', 'ret'):
                                res.append((s1, en, 'v', v))
                            else:
                                okk = False
                        if okk and res and not (q is None and name in self.free_fns and all(r_[3][0] in ('unk',) for r_ in res)):
                            return res
                    except Undecided:
                        pass
                    finally:
                        self.depth -= 1
                if target is self.methods.get(name) and not (q is None):
                    raise Undecided('CSA: call of %s at line %s' % ('::'.join(f), e.get('line')))
            if q is None and name in self.free_fns:
                # a free function of the module cannot touch the compiler's state: it is a pure conversion of its argument
                ff = self.free_fns[name]
                arg = vals[0] if vals else ('unk', name)
                if 'Result' in ff['output']:
                    s2 = s.clone()
                    s2.trace.append('%s fails' % name)
                    return [(s, en, 'v', ('res', 'ok', arg)), (s2, en, 'v', ('res', 'err', ('error', name)))]
                return [(s, en, 'v', arg)]
            if name == 'once' and len(vals) == 1 and (q is None or q in ('iter',) or 'iter' in f):
                # std::iter::once(x): a one-element sequence (chained in front of a list of pending jumps, say)
                return [(s, en, 'v', ('itemlist', [vals[0]], None))]
            raise Undecided('CSA: call of %s at line %s' % ('::'.join(f), e.get('line')))
        return self.seq(e['args'], st, env, cont)

    def check_function_obj(self, st, vals):
        ip, nl = (vals + [None, None])[:2]
        if not ip or ip[0] != 'pos':
            st.viol('R12.1', 'Object::function entry is %s, not a captured code position' % show_av(ip))
            return
        if not nl or nl[0] != 'numlocals':
            st.viol('R02.6', 'Object::function local count is %s, not the value returned by leave_context()' % show_av(nl))
            return
        fr = nl[1]
        lab = st.labels.get(ip[1])
        if lab is not None and lab.stale:
            st.viol('O4', 'function entry position captured before remove_last_instruction() shortened the code')
        if st.fn_entries.get(fr) != ip[1]:
            st.viol('R12.1', 'Object::function entry position is not the first instruction of the body compiled in the context whose size it carries')

    def top_loop(self, st):
        if st.loops:
            return [(st, ('opt', 'some', ('loopctx', len(st.loops) - 1)))]
        if st.outer_loops == 'empty':
            return [(st, ('opt', 'none'))]
        known = st.assume.get('outer_loop')
        out = []
        if known is not False:
            s1 = st.clone()
            s1.assume['outer_loop'] = True
            out.append((s1, ('opt', 'some', ('loopctx', 'outer'))))
        if known is not True:
            s2 = st.clone()
            s2.assume['outer_loop'] = False
            out.append((s2, ('opt', 'none')))
        return out

    def ev_mcall(self, e, st, env):
        recv = e['recv']
        meth = e['method']
        args = e['args']
        if path_of(recv) == ['self']:
            return self.call_self(meth, args, st, env, e)
        # a name bound to the compiler itself (`|c| c.compile_statement(s)` in a closure a helper calls with `f(self)`)
        pr = path_of(recv)
        if pr and len(pr) == 1 and env.get(pr[0]) == ('self',):
            return self.call_self(meth, args, st, env, e)

        def cont(s, en, vals):
            r = vals[0]
            a = vals[1:]
            return self.method_on(r, meth, a, s, en, e)
        return self.seq([recv] + args, st, env, cont)

    def method_on(self, r, meth, a, s, en, e):
        m = self.m
        V = lambda v: [(s, en, 'v', v)]
        if r[0] == 'selffield':
            fld = r[1]
            if fld == 'symbols':
                return self.symbols_call(meth, a, s, en, e)
            if fld == 'instructions':
                if meth == 'len':
                    return V(m.here(s))
                if meth in ('shrink_to_fit', 'capacity', 'is_empty', 'iter', 'as_slice'):
                    return V(('unk', meth))
                if meth == 'clear' and s.in_function is False and not s.frames and not s.loops:
                    # discarding the whole buffer at the top level of a (failed) compilation
                    m.finalize(s)
                    s.pending = {}
                    s.code = []
                    s.dirty.discard('code')
                    s.emitted = False
                    s.h = H(0)
                    s.reach = True
                    return V(('unit',))
                s.viol('R02.2', 'the code buffer is modified by self.instructions.%s() outside the emit primitives' % meth)
                self.unmodelled.append(('self.instructions.%s' % meth, e.get('line')))
                return V(('unk', meth))
            if fld == 'loop_contexts':
                if meth == 'push':
                    v = a[0]
                    if v[0] != 'newloop' or v[1][0] != 'pos':
                        raise Undecided('CSA: loop_contexts.push(%s)' % (v,))
                    lab = s.labels[v[1][1]]
                    if lab.stale:
                        s.viol('O4', 'loop start position captured before remove_last_instruction() shortened the code')
                    s.loops.append(LoopCtx(lab, s.frame))
                    return V(('unit',))
                if meth in ('last_mut', 'last'):
                    return [(s2, en, 'v', v) for s2, v in self.top_loop(s)]
                if meth in ('iter', 'iter_mut'):
                    return V(('loopiter',))
                if meth == 'pop':
                    if not s.loops:
                        s.viol('O6', 'loop_contexts.pop() without a loop context pushed by this construct')
                        return V(('opt', 'none'))
                    ctx = s.loops.pop()
                    return V(('opt', 'some', ('loopctx_val', ctx)))
                if meth in ('first', 'first_mut'):
                    s.viol('O6', 'stop/volgende bound to the OUTERMOST loop context (loop_contexts.%s())' % meth)
                    return [(s2, en, 'v', v) for s2, v in self.top_loop(s)]
                if meth == 'is_empty':
                    # agrees with what last()/last_mut() will find (same assumption about loops around this construct)
                    return [(s2, en, 'v', ('bool', v[1] == 'none')) for s2, v in self.top_loop(s)]
                if meth in ('len', 'clear'):
                    if meth == 'clear':
                        s.loops = []
                        s.outer_loops = 'empty'
                        s.dirty.discard('loops')
                    return V(('unk', meth))
                raise Undecided('CSA: self.loop_contexts.%s()' % meth)
            if fld in ('constants', 'gc', 'last_instruction'):
                if fld == 'last_instruction':
                    raise Undecided('CSA: direct use of self.last_instruction.%s()' % meth)
                if meth == 'len':
                    return V(('unk', 'constants.len'))
                return V(('unk', meth))
            # a field the rules do not know (new state of the compiler: a cache, a counter): what it answers is unknown; whatever
            # is emitted from it has no provenance (O8 reports an operand that does not come from the allocator of its index space)
            return V(('unk', '%s.%s' % (fld, meth)))
        if r[0] == 'loopiter':
            if meth in ('last', 'next_back'):
                return [(s2, en, 'v', v) for s2, v in self.top_loop(s)]
            if meth == 'rev':
                return V(('loopiter_rev',))
            if meth == 'next':
                s.viol('O6', 'stop/volgende bound to the OUTERMOST loop context (iter().next())')
                return [(s2, en, 'v', v) for s2, v in self.top_loop(s)]
            raise Undecided('CSA: loop_contexts.iter().%s()' % meth)
        if r[0] == 'loopiter_rev':
            if meth == 'next':
                return [(s2, en, 'v', v) for s2, v in self.top_loop(s)]
            raise Undecided('CSA: loop_contexts.iter().rev().%s()' % meth)
        if r[0] == 'breaklist':
            if meth == 'push':
                pos = a[0]
                m.finalize(s)
                if pos[0] != 'pos' or pos[1] not in s.pending:
                    s.viol('O7', 'break_instructions.push(%s): not the position of a jump emitted with a placeholder' % show_av(pos))
                    return V(('unit',))
                if r[1] == 'outer':
                    edge = s.pending.pop(pos[1])
                    if s.frames and edge['reach']:
                        s.viol('O6', '`stop` inside a function body registers its jump with a loop outside the function')
                    s.escapes.append(('break', edge['h'], edge['frame'], edge['reach'], tuple(sorted(s.assume.items()))))
                else:
                    s.loops[r[1]].breaks.append(pos)
                return V(('unit',))
            raise Undecided('CSA: break_instructions.%s()' % meth)
        # generic transparent methods
        if meth in ('try_into', 'into', 'clone', 'as_str', 'to_string', 'to_owned', 'as_ref', 'as_mut', 'iter', 'borrow', 'deref', 'as_slice'):
            return V(r)
        if meth in ('unwrap', 'expect'):
            if r[0] in ('opt', 'res'):
                if r[1] in ('some', 'ok'):
                    return V(r[2])
                return []   # panics on this path (PSC's business)
            return V(r)
        if meth in ('is_ok', 'is_err'):
            if r[0] == 'res':
                return V(('bool', (r[1] == 'ok') == (meth == 'is_ok')))
            return V(('unkbool',))
        if meth in ('is_some', 'is_none'):
            if r[0] == 'opt':
                return V(('bool', (r[1] == 'some') == (meth == 'is_some')))
            return V(('unkbool',))
        if meth == 'len':
            if r[0] == 'ast':
                return V(('len', r[1]))
            return V(('unk', 'len'))
        if meth == 'is_empty':
            if r[0] == 'ast':
                known = s.facts.get(('empty', r[1]))
                if known is not None:
                    return V(('bool', known))
                s1 = s.clone()
                s1.facts[('empty', r[1])] = True
                s2 = s.clone()
                s2.facts[('empty', r[1])] = False
                return [(s1, en, 'v', ('bool', True)), (s2, en, 'v', ('bool', False))]
            return V(('unkbool',))
        if meth in ('then', 'then_some') and r[0] in ('bool', 'unkbool', 'unk'):
            outs = []
            for tv, s2 in self.truth(r if r[0] == 'bool' else ('unkbool',), s):
                if not tv:
                    outs.append((s2, en, 'v', ('opt', 'none')))
                elif meth == 'then_some':
                    outs.append((s2, en, 'v', ('opt', 'some', a[0])))
                else:
                    for s3, e3, k3, v3 in self.apply_closure(a[0], [], s2, en):
                        outs.append((s3, en, 'v', ('opt', 'some', v3)))
            return outs
        if meth in ('map', 'and_then') and r[0] in ('opt', 'res') and a and a[0][0] == 'ctor':
            if r[1] in ('none', 'err'):
                return V(r)
            wrapped = ('opt', 'some', r[2]) if a[0][1] == 'Some' else ('res', a[0][1].lower(), r[2])
            return V(wrapped if meth == 'and_then' else (r[0], r[1], wrapped))
        if meth in ('map', 'and_then') and r[0] in ('opt', 'res') and a and a[0][0] == 'closure':
            if r[1] in ('none', 'err'):
                return V(r)
            outs = []
            for s3, e3, k3, v3 in self.apply_closure(a[0], [r[2]], s, en):
                outs.append((s3, en, 'v', v3 if meth == 'and_then' else (r[0], r[1], v3)))
            return outs
        if meth == 'transpose' and r[0] == 'opt':
            # Option<Result<T, E>> -> Result<Option<T>, E>
            if r[1] == 'none':
                return V(('res', 'ok', ('opt', 'none')))
            inner = r[2]
            if inner[0] == 'res':
                return V(('res', 'ok', ('opt', 'some', inner[2])) if inner[1] == 'ok' else inner)
            return V(('unk', meth))
        if meth == 'filter' and r[0] == 'opt' and a and a[0][0] == 'closure':
            # Some(x) stays when the predicate holds for x, otherwise the option is emptied
            if r[1] == 'none':
                return V(r)
            outs = []
            for s3, e3, k3, v3 in self.apply_closure(a[0], [r[2]], s, en):
                if v3[0] == 'bool':
                    outs.append((s3, en, 'v', r if v3[1] else ('opt', 'none')))
                else:
                    s4 = s3.clone()
                    outs.append((s3, en, 'v', r))
                    outs.append((s4, en, 'v', ('opt', 'none')))
            return outs
        if meth in ('unwrap_or', 'unwrap_or_else', 'unwrap_or_default') and r[0] in ('opt', 'res'):
            if r[1] in ('some', 'ok'):
                return V(r[2])
            if meth == 'unwrap_or':
                return V(a[0])
            if meth == 'unwrap_or_else':
                return self.apply_closure(a[0], [] if r[0] == 'opt' else [r[2]], s, en)
            return V(('unk', 'default'))
        if meth in ('find', 'find_map', 'any') and r[0] == 'itemlist' and r[2] is None and a and a[0][0] == 'closure':
            # a search through a constant table: the predicate is asked item by item, the first `yes` ends the search
            def search(i, s_):
                if i == len(r[1]):
                    return [(s_, en, 'v', ('bool', False) if meth == 'any' else ('opt', 'none'))]
                outs = []
                for s3, e3, k3, v3 in self.apply_closure(a[0], [r[1][i]], s_, en):
                    if meth == 'find_map':
                        if v3[0] == 'opt':
                            if v3[1] == 'some':
                                outs.append((s3, en, 'v', v3))
                            else:
                                outs += search(i + 1, s3)
                        else:
                            raise Undecided('CSA: find_map() closure answered %s' % (v3,))
                    elif v3[0] == 'bool':
                        if v3[1]:
                            outs.append((s3, en, 'v', ('bool', True) if meth == 'any' else ('opt', 'some', r[1][i])))
                        else:
                            outs += search(i + 1, s3)
                    else:
                        raise Undecided('CSA: %s() predicate answered %s' % (meth, v3))
                return outs
            return search(0, s)
        if meth in ('copied', 'cloned') and r[0] in ('opt', 'itemlist'):
            return V(r)
        if meth in ('into_iter', 'iter', 'drain') and r[0] in ('breaklist_val', 'itemlist'):
            return V(r)
        if meth == 'chain' and a and r[0] in ('itemlist', 'breaklist_val') and a[0][0] in ('itemlist', 'breaklist_val'):
            # one sequence after the other: explicit items, then (at most one) list of pending jumps
            items = list(r[1]) if r[0] == 'itemlist' else []
            tail = r[2] if r[0] == 'itemlist' else r
            if a[0][0] == 'itemlist':
                if tail is None:
                    items += list(a[0][1])
                    tail = a[0][2]
                elif not a[0][1] and a[0][2] is None:
                    pass
                else:
                    raise Undecided('CSA: chain() of two sequences that both end in a jump list')
            else:
                if tail is not None:
                    raise Undecided('CSA: chain() of two jump lists')
                tail = a[0]
            return V(('itemlist', items, tail))
        if meth in ('try_for_each', 'for_each') and a and a[0][0] == 'closure' and len(a[0]) == 3 and r[0] in ('ast', 'selffield', 'breaklist_val', 'itemlist'):
            clo = a[0][1]
            params = clo.get('inputs') or clo.get('params') or []
            pat = params[0].get('pat', params[0]) if params else {'k': 'p_wild'}
            while pat.get('k') == 'p_type':
                pat = pat['pat']
            body = clo['body']
            if meth == 'try_for_each':
                body = {'k': 'try', 'expr': body, 'line': e.get('line')}
            loop = {'k': 'for', 'pat': pat, 'iter': {'k': '__value', 'value': r}, 'line': e.get('line'),
                    'body': {'stmts': [{'k': 's_expr', 'expr': body, 'semi': True}]}}
            outs = []
            for s3, e3, k3, v3 in self.eval_for(loop, s, dict(a[0][2])):
                if k3 == 'v':
                    outs.append((s3, en, 'v', ('res', 'ok', ('unit',)) if meth == 'try_for_each' else ('unit',)))
                elif k3 == 'ret':
                    outs.append((s3, en, 'v', v3))
                else:
                    raise Undecided('CSA: break/continue leaves a closure')
            return outs
        if meth in ('map_err', 'or_else') and r[0] == 'res' and a and a[0][0] == 'closure':
            # the closure runs on the error side (it may clean up before handing the error on)
            if r[1] == 'ok':
                return V(r)
            outs = []
            for s3, e3, k3, v3 in self.apply_closure(a[0], [r[2]], s, en):
                outs.append((s3, en, 'v', ('res', 'err', v3) if meth == 'map_err' else v3))
            return outs
        if meth in ('map_err', 'ok_or', 'ok_or_else'):
            if r[0] == 'res':
                return V(r)
            if r[0] == 'opt':
                return V(('res', 'ok', r[2]) if r[1] == 'some' else ('res', 'err', ('error', '?')))
            return V(('unk', meth))
        if meth == 'untrace' or r[0] in ('unk', 'closure', 'str', 'obj', 'error'):
            return V(('unk', meth))
        if r[0] == 'ast':
            return V(('ast', r[1] + '.' + meth + '()'))
        raise Undecided('CSA: method .%s() on %s at line %s' % (meth, r, e.get('line')))

    def symbols_call(self, meth, a, s, en, e):
        m = self.m
        V = lambda v: [(s, en, 'v', v)]
        if meth == 'define':
            # a definition outlives the statement that made it: a failed compilation has to take it back (R17.2/R17.3)
            s.dirty.add('definitions')
            sid = self.fresh_sym()
            s.facts[('symname', sid)] = a[0]
            s.facts[('symhow', sid)] = 'define'
            s.facts[('symctx', sid)] = s.ctx_depth
            out_ty = getattr(self, 'symtab_define_output', '')
            was_defs0 = s.defs0
            s.symops.append(('define', s.ctx_depth, a[0][1] if a and a[0][0] == 'ast' else None))
            if s.scopes <= 0 and not s.frames:
                s.defs0 = True
            if 'Result<' in out_ty or 'Option<' in out_ty:
                # the table can refuse a definition (it is full): nothing was defined on that path
                s2 = s.clone()
                s2.dirty = set(s.dirty)
                s2.defs0 = was_defs0
                s2.trace.append('define fails')
                if 'Result<' in out_ty:
                    return [(s, en, 'v', ('res', 'ok', ('sym', sid))), (s2, en, 'v', ('res', 'err', ('error', 'table full')))]
                return [(s, en, 'v', ('opt', 'some', ('sym', sid))), (s2, en, 'v', ('opt', 'none'))]
            return V(('sym', sid))
        if meth == 'resolve' or meth in self.symtab_resolve:
            sid = self.fresh_sym()
            s1 = s.clone()
            s1.facts[('symname', sid)] = a[0]
            s1.facts[('symhow', sid)] = 'resolve'
            if a[0][0] == 'ast':
                s1.facts[('resolved', a[0][1])] = True
            s2 = s.clone()
            s2.trace.append('unresolved %s' % (a[0][1] if a[0][0] == 'ast' else '?'))
            return [(s1, en, 'v', ('opt', 'some', ('sym', sid))), (s2, en, 'v', ('opt', 'none'))]
        if meth == 'enter_scope':
            s.scopes += 1
            return V(('unit',))
        if meth == 'leave_scope':
            s.scopes -= 1
            if s.scopes < 0:
                s.viol('R09.1', 'leave_scope() without a matching enter_scope() in this construct')
            return V(('unit',))
        if meth == 'new_context':
            m.new_context(s)
            s.symops.append(('new_context', s.ctx_depth, None))
            return V(('unit',))
        if meth == 'leave_context':
            s.symops.append(('leave_context', s.ctx_depth, None))
            return V(m.leave_context(s))
        if meth in self.symtab_reset:
            # back to the bare global context: only meaningful at the top level of a compilation (error recovery)
            if s.in_function is not False or s.frames:
                s.viol('R09.1', 'self.symbols.%s() (drops every open scope/context) is called inside a construct' % meth)
            what = set(self.symtab_reset[meth])
            if 'definitions' in what and not (a and a[0][0] == 'symmark' and a[0][1] in self.symtab_marks):
                # the names are cut back to a length: it has to be the one observed before the failed compilation began
                what.discard('definitions')
            s.dirty -= set(what)
            if 'scopes' in what:
                s.scopes = 0
            if 'contexts' in what:
                s.ctx_depth = 0
                s.frames = []
            return V(('unit',))
        # boolean query about the context depth: interpreted from its own source
        q = self.symtab_bool.get(meth)
        if q is not None:
            # q(in_function) -> bool
            inf = True if s.frames else s.in_function
            if inf is None:
                inf = s.assume.get('in_function')
            if inf is not None:
                return V(('bool', q(inf)))
            s1 = s.clone()
            s1.assume['in_function'] = True
            s2 = s.clone()
            s2.assume['in_function'] = False
            return [(s1, en, 'v', ('bool', q(True))), (s2, en, 'v', ('bool', q(False)))]
        if meth in self.symtab_pure:
            return V(('symmark', meth))
        if meth in getattr(self, 'symtab_readonly', ()) and meth not in ('resolve',):
            # a `&self` query the analysis has no model of (a depth pair used in an assertion, say): it changes nothing
            return V(('unk', meth))
        raise Undecided('CSA: self.symbols.%s() is not a modelled symbol-table operation' % meth)

    def call_self(self, meth, args, st, env, e):
        m = self.m

        def cont(s, en, a):
            V = lambda v: [(s, en, 'v', v)]
            if meth == 'emit_opcode':
                if a[0][0] != 'opcode':
                    raise Undecided('CSA: emit_opcode(%s) at line %s' % (a[0], e.get('line')))
                m.emit_opcode(s, a[0][1])
                return V(('unit',))
            if meth == 'emit_u8':
                m.emit_operand(s, 1, a[0])
                return V(('unit',))
            if meth == 'emit_u16':
                m.emit_operand(s, 2, a[0])
                return V(('unit',))
            if meth == 'change_jump_operand_at':
                m.patch(s, a[0], a[1])
                if 'Result' in self.methods[meth]['output']:
                    # the primitive narrows the target itself and can refuse a program that is too large
                    s2 = s.clone()
                    s2.trace.append('%s fails' % meth)
                    return [(s, en, 'v', ('res', 'ok', ('unit',))), (s2, en, 'v', ('res', 'err', ('error', 'too large')))]
                return V(('unit',))
            if meth == 'last_instruction_is':
                m.finalize(s)
                if a[0][0] != 'opcode':
                    raise Undecided('CSA: last_instruction_is(%s)' % (a[0],))
                if s.last == '?':
                    s1 = s.clone()
                    s1.last = a[0][1]
                    s1.last_emit = None
                    s2 = s.clone()
                    return [(s1, en, 'v', ('bool', True)), (s2, en, 'v', ('bool', False))]
                return V(('bool', s.last == a[0][1]))  # 'other' = an opcode never tested by the peephole
            if meth == 'remove_last_instruction':
                m.remove_last(s)
                return V(('unit',))
            if meth == 'add_constant':
                if 'Result' in self.methods['add_constant']['output']:
                    s2 = s.clone()
                    s2.trace.append('add_constant fails')
                    return [(s, en, 'v', ('res', 'ok', ('constidx', a[0]))), (s2, en, 'v', ('res', 'err', ('error', 'pool full')))]
                return V(('constidx', a[0]))
            if meth not in self.methods:
                raise Undecided('CSA: self.%s() is not a method of the compiler' % meth)
            if meth in self.recursive:
                return self._block_scoped(meth, a, s, self.apply_summary(meth, a, s, en))
            recv = [i for i in self.methods[meth]['inputs'] if i.get('self')]
            if recv and recv[0].get('ref') and not recv[0].get('mut'):
                # a `&self` method cannot emit, patch or declare: when its body is beyond the interpreter (a hand-written scan
                # of the finished code, say) its effect on the compiler is still known to be none, and its answer is unknown
                s0 = s.clone()
                d0 = self.depth
                try:
                    return self.inline(meth, a, s, en)
                except Undecided:
                    s = s0
                    self.depth = d0
                    out_ty = self.methods[meth]['output'] or ''
                    s.trace.append('%s() (read-only, body not interpreted)' % meth)
                    if 'Result' in out_ty:
                        s2 = s.clone()
                        s2.trace.append('%s fails' % meth)
                        return [(s, en, 'v', ('res', 'ok', ('unk', meth))), (s2, en, 'v', ('res', 'err', ('error', meth)))]
                    if 'Option' in out_ty:
                        s2 = s.clone()
                        return [(s, en, 'v', ('opt', 'some', ('unk', meth))), (s2, en, 'v', ('opt', 'none'))]
                    if out_ty.strip() == 'bool':
                        s2 = s.clone()
                        return [(s, en, 'v', ('bool', True)), (s2, en, 'v', ('bool', False))]
                    return V(('unk', meth))
            pre_ = s.defs0
            return self._block_scoped(meth, a, None, self.inline(meth, a, s, en), pre_)
        return self.seq(args, st, env, cont)

    BLOCK_FIELDS = ('If.consequence', 'If.alternative/Some', 'While.body', 'Block.0')

    def _block_scoped(self, meth, a, s0, outs, pre=None):
        """a call that compiles a BLOCK of the syntax tree (a branch, a loop body, a bare block) may not leave a declaration in the
        scope that was current before it: the block's own scope has to be around every declaration made by its statements"""
        if not (a and a[0][0] == 'ast' and isinstance(a[0][1], str) and a[0][1].endswith(self.BLOCK_FIELDS)):
            return outs
        if pre is None:
            pre = s0.defs0 if s0 is not None else False
        for r in outs:
            s1 = r[0]
            if getattr(s1, 'defs0', False) and not pre and r[2] == 'v' and not (isinstance(r[3], tuple) and r[3][:2] == ('res', 'err')):
                s1.viol('R09.1', 'a declaration made by a statement of the block `%s` is entered in the scope around the block: it stays visible (and keeps '
                        'its slot) after the block has ended' % a[0][1].split('/')[-1])
                s1.defs0 = pre
        return outs

    def inline(self, meth, a, s, en):
        f = self.methods[meth]
        if self.depth > 6:
            raise Undecided('CSA: inlining depth exceeded at %s' % meth)
        params = [i for i in f['inputs'] if not i.get('self')]
        env2 = {}
        for p, v in zip(params, a):
            if p['pat']['k'] != 'p_ident':
                raise Undecided('CSA: parameter pattern in %s' % meth)
            env2[p['pat']['name']] = v
        self.depth += 1
        s.trace.append('%s()' % meth)
        outs = self.ev_block(f['body'], s, env2)
        self.depth -= 1
        res = []
        for s1, e1, kind, v in outs:
            if s1.trace and ('%s()' % meth) in s1.trace:
                pass
            if kind in ('v', 'ret'):
                res.append((s1, en, 'v', v))
            else:
                raise Undecided('CSA: break out of %s' % meth)
        return res

    def apply_summary(self, meth, a, s, en):
        m = self.m
        m.finalize(s)
        out = []
        exits = list(self.summaries.get(meth, {}).values())
        knows_fn = True if s.frames else (s.in_function if s.in_function is not None else s.assume.get('in_function'))
        if s.loops:
            knows_loop = True
        elif s.outer_loops == 'empty':
            knows_loop = False
        else:
            knows_loop = s.assume.get('outer_loop')
        argname = a[0][1] if a and a[0][0] == 'ast' else None
        for x in exits:
            ok = True
            s1 = s.clone()
            s1.symops.append(('compile', s1.ctx_depth, argname))
            blob = {'kind': 'blob', 'method': meth, 'arg': argname, 'pos': s1.pos, 'reach': x.reach, 'breaks': [], 'continues': [], 'frame': s1.frame, 'emitted': x.last is not None}
            s1.code.append(blob)
            base_h = s1.h
            base_reach = s1.reach
            xdh = x.dh
            if meth in CONTRACT and x.reach:
                # inductive hypothesis (O1/O2): callers rely on the contract, every arm is checked against it
                xdh = H(CONTRACT[meth])
            if x.reach and base_reach:
                s1.h = base_h.plus(xdh)
            elif not x.reach:
                s1.reach = False
            if getattr(x, 'defs0', False) and s1.scopes <= 0 and not s1.frames:
                s1.defs0 = True
            if x.last is not None:
                s1.last = x.last
                s1.emitted = True
                before = s1.next_pos
                s1.pos = s1.next_pos + 1
                s1.next_pos += 2
                s1.bound = ['summary'] if x.endbound else []
                hbefore = s1.h
                if x.reach and base_reach:
                    eff = self.op_delta(x.last)
                    if eff is not None:
                        hbefore = s1.h.add(-eff)
                s1.last_emit = {'pos': before, 'op': x.last, 'h': hbefore, 'reach': s1.reach, 'last': None, 'frame': s1.frame}
            # scope/context balance of the callee is its own obligation (R09.1); callers assume it
            for (kind, dh, fr, reach, eassume) in self.escapes_of.get(meth, {}).values():
                if any((knows_fn if a_ == 'in_function' else knows_loop) not in (None, v_) for a_, v_ in eassume):
                    continue
                if any(s1.assume.get(a_, v_) != v_ for a_, v_ in eassume):
                    continue
                up_assume = tuple(sorted(set(eassume) | set(s1.assume.items())))
                live = reach and base_reach
                h_abs = base_h.plus(dh) if (dh is not None and live) else None
                if kind == 'return':
                    if s1.frames or knows_fn is True or s1.assume.get('in_function') is True:
                        continue
                    s1.escapes.append(('return', h_abs, 0, live, up_assume))
                    continue
                # break / continue bind to the innermost loop context of the caller
                if s1.loops:
                    ctx = s1.loops[-1]
                    word = 'stop' if kind == 'break' else 'volgende'
                    if ctx.frame != s1.frame:
                        s1.viol('O6', '`%s` in a nested construct binds to a loop of another function frame' % word)
                    pending_ops = None
                    if live and h_abs is not None and ctx.start.h is not None:
                        d_ = h_abs.sub(ctx.start.h)
                        if d_.is_const() and d_.c > 0:
                            pending_ops = d_.c
                        elif not d_.is_const():
                            pending_ops = 'some'
                    if pending_ops:
                        # an early exit taken while values of enclosing expressions are still on the stack: they are
                        # abandoned (one slot leaks per iteration).  Reported here; the edge is not propagated further.
                        s1.viol('O6-operands', '`%s` in operand position: values of enclosing expressions (or the loop seed, inside the loop condition) '
                                'are still on the stack at the jump and are never popped' % word)
                    elif kind == 'break':
                        pid = -s1.next_pos
                        s1.next_pos += 1
                        s1.pending[pid] = {'h': h_abs, 'frame': s1.frame, 'reach': live, 'op': 'Jump', 'what': '`stop` edge'}
                        s1.instr_at[pid] = 'Jump'
                        ctx.breaks.append(('pos', pid))
                        blob['breaks'].append(pid)
                    else:
                        blob['continues'].append(('pos', ctx.start.pos))
                        if live:
                            m.check_edge_label(s1, {'h': h_abs, 'frame': s1.frame, 'reach': True}, ctx.start, '`volgende` edge')
                elif s1.outer_loops == 'empty':
                    ok = False
                else:
                    if s1.frames and live:
                        s1.viol('O6', '`%s` inside a function body binds to a loop outside the function (jump out of the body)' % ('stop' if kind == 'break' else 'volgende'))
                    s1.escapes.append((kind, h_abs, s1.frame, live, up_assume))
            if ok:
                out.append((s1, en, 'v', ('res', 'ok', ('unit',))))
        # the error exit
        s2 = s.clone()
        s2.trace.append('%s fails' % meth)
        s2.dirty |= self.err_dirty.get(meth, set())
        out.append((s2, en, 'v', ('res', 'err', ('error', 'propagated'))))
        return out

    def op_delta(self, op):
        s = self.m.optable.get(op)
        if not s or s['loops'] or s['class'] not in ('fallthrough',):
            return None
        return s['pushes'] - s['pops']

    # ---- loops ------------------------------------------------------------------------------
    def eval_for(self, e, st, env):
        out = []
        for s0, e0, kind, itv in self.ev(e['iter'], st, env):
            if kind != 'v':
                out.append((s0, e0, kind, itv))
                continue
            if itv[0] in ('breaklist_val', 'itemlist'):
                states = [(s0, e0)]
                if itv[0] == 'itemlist':
                    seq_items = list(itv[1]) + (list(itv[2][1].breaks) if itv[2] is not None and itv[2][0] == 'breaklist_val' else [])
                else:
                    seq_items = list(itv[1].breaks)
                for item in seq_items:
                    nxt = []
                    for s1, e1 in states:
                        ms = self.match_pat(e['pat'], item, s1, e1)
                        for _, s2, e2 in ms:
                            for s3, e3, k3, v3 in self.ev_block(e['body'], s2, e2):
                                if k3 == 'v':
                                    nxt.append((s3, e1))
                                else:
                                    out.append((s3, e3, k3, v3))
                    states = nxt
                for s1, e1 in states:
                    out.append((s1, e1, 'v', ('unit',)))
                continue
            if itv[0] == 'ast':
                name = itv[1]
            elif itv[0] == 'selffield':
                name = 'self.' + itv[1]
            elif itv[0] == 'unk':
                name = 'value.' + str(itv[1])        # a list the analysis knows nothing about (e.g. a clone of the constant pool)
            else:
                raise Undecided('CSA: for-loop over %s at line %s' % (itv, e.get('line')))
            self.m.finalize(s0)
            elem = ('ast', name + '[]')
            nonempty = s0.facts.get(('empty', name)) is False
            if not nonempty:
                z = s0.clone()
                z.facts[('empty', name)] = True
                out.append((z, e0, 'v', ('unit',)))
            seen = {}
            frontier = [s0]
            rounds = 0
            while frontier and rounds < 6:
                rounds += 1
                nxt = []
                for sb in frontier:
                    base = sb.clone()
                    hb = base.h
                    ms = self.match_pat(e['pat'], elem, base, e0)
                    for _, s2, e2 in ms:
                        for s3, e3, k3, v3 in self.ev_block(e['body'], s2, e2):
                            if isinstance(k3, tuple) and k3[0] == 'brk' and k3[1] is None:
                                # leaving the loop early: the remaining elements of the list are never compiled
                                s3.viol('R09.6', 'the loop over `%s` can stop before the end of the list: the remaining nodes are never compiled '
                                        '(their names are not resolved, their code is not emitted)' % name)
                                self.m.finalize(s3)
                                out.append((s3, e0, 'v', ('unit',)))
                                continue
                            if k3 != 'v':
                                out.append((s3, e3, k3, v3))
                                continue
                            self.m.finalize(s3)
                            if s3.reach and sb.reach:
                                d = s3.h.sub(hb)
                                if not d.is_const():
                                    raise Undecided('CSA: non-constant per-iteration stack effect %s in a loop over %s (trace %s)' % (d, name, s3.trace))
                                dk = d.c
                            else:
                                dk = None
                            key = (dk, s3.last, s3.reach, s3.frame, len(s3.loops), tuple(sorted(s3.assume.items())), len(s3.escapes), len(s3.pending))
                            if key not in seen:
                                seen[key] = (s3, dk, sb)
                                nxt.append(s3)
                frontier = nxt
            for key, (s3, dk, sb) in seen.items():
                r = s3.clone()
                if dk is not None and dk != 0:
                    # n iterations of +dk each: h = h(before loop) + dk*len
                    r.h = s0.h.add_sym(name, dk)
                elif dk == 0:
                    r.h = s0.h if s0.reach else r.h
                out.append((r, e0, 'v', ('unit',)))
        return out

    # hand-written iteration over a list: `while let Some(x) = it.next() { .. }` and
    # `loop { match it.next() { Some(x) => .., None => break } }` are the `for x in it { .. }` they desugar from
    @staticmethod
    def _next_call(e):
        return e.get('k') == 'mcall' and e['method'] == 'next' and not e['args']

    def ev_while(self, e, st, env):
        c = e['cond']
        if c.get('k') == 'let' and self._next_call(c['expr']) and c['pat'].get('k') == 'p_tuple_struct' and c['pat']['path'][-1] == 'Some':
            loop = {'k': 'for', 'pat': c['pat']['elems'][0], 'iter': c['expr']['recv'], 'body': e['body'], 'line': e.get('line')}
            return self.eval_for(loop, st, env)
        raise Undecided('CSA: `while` loop inside the compiler at line %s' % e.get('line'))

    def ev_loop(self, e, st, env):
        stmts = e['body']['stmts']
        if len(stmts) == 1 and stmts[0]['k'] == 's_expr' and stmts[0]['expr'].get('k') == 'match' and self._next_call(stmts[0]['expr']['expr']):
            m = stmts[0]['expr']
            some = [a for a in m['arms'] if a['pat'].get('k') == 'p_tuple_struct' and a['pat']['path'][-1] == 'Some' and a.get('guard') is None]
            none = [a for a in m['arms'] if a['pat'].get('k') in ('p_path', 'p_ident', 'p_wild') and a is not (some[0] if some else None)]
            if len(some) == 1 and len(none) == 1 and len(m['arms']) == 2 and none[0]['body'].get('k') == 'break' and none[0]['body'].get('expr') is None:
                body = some[0]['body']
                blk = body['block'] if body.get('k') == 'blockexpr' else {'stmts': [{'k': 's_expr', 'expr': body, 'semi': True}]}
                loop = {'k': 'for', 'pat': some[0]['pat']['elems'][0], 'iter': m['expr']['recv'], 'body': blk, 'line': e.get('line')}
                return self.eval_for(loop, st, env)
        raise Undecided('CSA: `loop` inside the compiler at line %s' % e.get('line'))

    # ---- driver -----------------------------------------------------------------------------
    def run_method(self, meth, init):
        f = self.methods[meth]
        st = State()
        init(st)
        env = {}
        for p in f['inputs']:
            if p.get('self'):
                continue
            if p['pat']['k'] != 'p_ident':
                raise Undecided('CSA: parameter pattern in %s' % meth)
            env[p['pat']['name']] = ('ast', p['pat']['name'])
        outs = self.ev_block(f['body'], st, env)
        res = []
        for s1, e1, kind, v in outs:
            if kind not in ('v', 'ret'):
                raise Undecided('CSA: stray break in %s' % meth)
            if v and v[0] == 'res' and v[1] == 'err':
                # error exit: whatever was half-emitted is discarded by the caller (R17.2); no shape obligation
                s1.cur = None
            else:
                self.m.finalize(s1)
            res.append((s1, v))
        return res

    def solve(self):
        for m_ in self.recursive:
            self.summaries[m_] = {}
        for it in range(30):
            changed = False
            for meth in sorted(self.recursive):
                outs = self.run_method(meth, lambda st: None)
                for st, v in outs:
                    if v[0] == 'res' and v[1] == 'err':
                        d_ = set(st.dirty)
                        if st.scopes > 0:
                            d_.add('scopes')
                        if st.frames:
                            d_.add('contexts')
                        if st.loops:
                            d_.add('loops')
                        if st.emitted:
                            d_ |= {'code', 'last'}
                        if not d_ <= self.err_dirty.setdefault(meth, set()):
                            self.err_dirty[meth] |= d_
                            changed = True
                    if not (v[0] == 'res' and v[1] == 'ok') and v[0] != 'unit':
                        continue
                    last = None
                    if st.emitted:
                        last = st.last if st.last in self.tested_ops or st.last == 'None' else 'other'
                    x = SummaryExit(st.h if st.reach else None, last, st.reach, dict(st.assume), [], max(-2, min(2, st.scopes)),
                                    bool(st.bound) or st.pos in st.labels, bool(getattr(st, 'defs0', False)))
                    for k, h, f, r, asm in st.escapes:
                        if not r:
                            continue
                        h = cap_h(h)
                        rel = 'in_function' if k == 'return' else 'outer_loop'
                        asm = tuple(x for x in asm if x[0] == rel)
                        ek = (k, repr(h), r, asm)
                        if ek not in self.escapes_of.setdefault(meth, {}):
                            self.escapes_of[meth][ek] = (k, h, f, r, asm)
                            changed = True
                    if x.key() not in self.summaries[meth]:
                        self.summaries[meth][x.key()] = x
                        changed = True
            if not changed:
                return it + 1
        raise Undecided('CSA: summaries did not converge')
