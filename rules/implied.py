"""Properties that are implied by others: a violation of the narrower property is a violation of the broader one.

C01 ("running a program yields exactly what its source text denotes") quantifies over every program; each of C06-C14 states one
part of what a source text denotes (operators, the tree, tokens and literals, names, the choice of instructions, control flow, calls,
arrays and strings, builtins).  A construct that breaks one of them breaks C01 for the programs that reach it, so C01's check also
evaluates their rules and reports what they find as its own rule R01.0.  Findings already listed as known for the narrower property
stay with it (C01 lists its own)."""
import importlib

from framework import Report, load_known, load_floors
from mirlib import CheckerError

IMPLIED = {
    'C01': ['C06', 'C07', 'C08', 'C09', 'C10', 'C11', 'C12', 'C13', 'C14'],
}
RULE = {'C01': 'R01.0'}


def fold(ctx, rep, pid):
    srcs = IMPLIED.get(pid)
    if not srcs:
        return
    rid = RULE[pid]
    rep.rule(rid, 'every part of what a source text denotes holds: the rules of %s (operators, tree, tokens, names, choice of instructions, '
                  'control flow, calls, arrays and strings, builtins) report nothing new' % ', '.join(srcs))
    known = load_known()
    floors = load_floors()
    total = 0
    for src in srcs:
        mod = importlib.import_module('rules.' + src.lower())
        sub = Report(src, rep.tier)
        mod.run(ctx, sub)          # a CheckerError here leaves the broader property unestablished as well (fail closed)
        kmap = {f['key'] for f in known.get('findings', []) if f['property'] == src}
        new = [v for v in sub.violations() if v['key'] not in kmap]
        for name, floor in (floors.get(src) or {}).items():
            n = sub.counts.get(name)
            if (n is None or n < floor) and not new:
                raise CheckerError('%s (for %s): instance count %s=%s fell below the floor %s' % (src, pid, name, n, floor))
        total += len(sub.obs)
        for v in new:
            rep.bad(rid, v['fn'], '[%s %s] %s' % (src, v['rule'], v['construct']),
                    '%s: %s - a program that reaches this construct does not yield what its source text denotes' % (sub.rules.get(v['rule'], v['rule'])[:160], v['text']),
                    v['loc'], v['detail'], key='%s|%s' % (src, v['key']))
        if not new:
            rep.good(rid, 'check of %s' % src, 'rules of %s' % src, '%d rule instances of %s evaluated, no new violation' % (len(sub.obs), src), None, nontrivial=False)
    rep.count('implied_rule_instances', total)
