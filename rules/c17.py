"""C17 — a retained session behaves like one growing program (static clauses)."""
from mirlib import *
from rules import vmx as vmxmod

META = {
    'title': 'A retained session behaves like one growing program',
    'explanation': 'placeholder',
    'not_decided': ['the session/concatenation equivalence itself (a relation between runs)'],
}


def pre_loop_blocks(ctx):
    v = vmxmod.vmx(ctx)
    fn = v['fn']
    header = v['header']
    dom = fn.dominators()
    return fn, header, sorted(b for b in dom[header] if b != header)


def frames_reset_ok(ctx):
    """before the dispatch loop, run() cuts `frames` back to the base frame (truncate(1) / clear+push)"""
    fn, header, pre = pre_loop_blocks(ctx)
    for b in pre:
        t = fn.term(b)
        if t['k'] == 'call':
            n = callee_name(t)
            if n.endswith('Vec::<T, A>::truncate') or n.endswith('Vec::<T, A>::clear'):
                d = fn.def_rvalue(t['args'][0])
                if d and d[0] == 'assign' and d[3]['k'] == 'ref' and place_fields(d[3]['place'])[:1] == ['frames']:
                    return True, ''
    return False, 'VM::run does not cut `frames` back to the base frame before executing (a failed line inside a call leaves extra frames)'


def run(ctx, rep):
    raise CheckerError('C17 rules not built yet')
