"""C17 — a retained session behaves like one growing program (static clauses)."""
from mirlib import *
from synlib import *
from rules import vmx as vmxmod, csa_run, psc
from rules.psc import sym, strip

META = {
    'title': 'A retained session behaves like one growing program',
    'explanation': 'R17.1 VM::run re-initialises every field of the VM that is not declared persistent (globals) before the dispatch loop '
                   '(field census by type declaration + dominators). R17.2 compile_ast is transactional for its per-line state: after an '
                   'Err the instruction buffer, loop contexts, peephole register and scope/context depth are what they were (CSA error-exit '
                   'states + an explicit reset on the error path). R17.3 global definitions of a failed line are removed or reading a '
                   'never-stored slot is defined. R17.4 nothing that persists across lines (VM.globals, Compiler.constants) may refer to '
                   'something whose lifetime is a single line (the per-run collector\'s objects, positions in the per-line code buffer).'
                   ' R17.5 persistent VM fields are never cut back. R17.6 the reset after a failed line restores every Context field a declaration writes; only the true length of the outermost global scope counts as the mark to cut back to. R17.7 the constant pool kept across lines merges only equal values (function descriptors by the whole word). R17.8 a successful line closes every scope and context it opens.',
    'not_decided': ['the session/concatenation equivalence itself (a relation between runs)'],
}
PERSISTENT = {'globals': "the session's variables", 'globals_assigned': "which of the session's variables have been stored to"}


def pre_loop_blocks(ctx):
    v = vmxmod.vmx(ctx)
    fn = v['fn']
    header = v['header']
    dom = fn.dominators()
    return fn, header, sorted(b for b in dom[header] if b != header)


def frames_reset_ok(ctx):
    """before the dispatch loop, run() cuts `frames` back to the base frame (truncate(1) / clear+push)"""
    fn, header, pre = pre_loop_blocks(ctx)
    for b in pre:
        t = fn.term(b)
        if t['k'] == 'call':
            n = callee_name(t)
            if n.endswith('Vec::<T, A>::truncate') or n.endswith('Vec::<T, A>::clear'):
                d = fn.def_rvalue(t['args'][0])
                if d and d[0] == 'assign' and d[3]['k'] == 'ref' and place_fields(d[3]['place'])[:1] == ['frames']:
                    return True, ''
    return False, 'VM::run does not cut `frames` back to the base frame before executing (a failed line inside a call leaves extra frames)'


def result_kind(p, r):
    """'err' / 'ok' / 'unknown' for the Result a path returns: by construction, or by what the path tested about it"""
    if r[0] == 'errof' or (r[0] == 'agg' and r[2] == 'Err'):
        return 'err'
    if r[0] == 'agg' and r[2] == 'Ok':
        return 'ok'
    raw = p.env.get('_0')
    for (what, val, b) in p.constraints:
        if what[0] == 'switch' and isinstance(what[1], tuple) and what[1][0] == 'call' and what[1][1].endswith(('::is_err', '::is_ok')) and what[1][2]:
            a = what[1][2][0]
            a = p.env.get(a[1], a) if a[0] == 'ref' else a
            if a == raw or simp(a) == r:
                truth = True if val is None else bool(val)
                return 'err' if truth == what[1][1].endswith('::is_err') else 'ok'
        if what[0] == 'variant' and what[2] == 'core::result::Result' and (what[3] == raw or p.env.get(what[1]) == raw):
            return 'err' if val == 'Err' else 'ok'
    return 'unknown'


def run(ctx, rep):
    F = ctx.facts()
    S = ctx.syn()
    rep.rule('R17.1', 'VM::run resets every non-persistent field of the VM before the dispatch loop')
    rep.rule('R17.2', 'compile_ast restores its per-line state (code buffer, loop contexts, peephole register, scopes, contexts) on Err')
    rep.rule('R17.3', 'definitions of a failed line are removed, or reading a never-stored global slot is defined')
    rep.rule('R17.4', 'persistent places do not refer to single-line owners')
    fn, header, pre = pre_loop_blocks(ctx)
    vm = F.adt('vm::VM')
    fields = [f['name'] for f in vm['variants'][0]['fields']]
    rep.count('vm_fields', len(fields))
    resets = {}
    for b in pre:
        for st in fn.blocks[b]['stmts']:
            if st['k'] == 'assign' and fn.alias_root(st['place']['local']) == 1:
                fl = place_fields(st['place'])
                if len(fl) == 1:
                    resets.setdefault(fl[0], []).append('assigned')
                elif fl:
                    resets.setdefault(fl[0], []).append('partial:' + '.'.join(fl[1:]))
        t = fn.term(b)
        if t['k'] == 'call' and t['args']:
            n = callee_name(t)
            d = fn.def_rvalue(t['args'][0])
            if d and d[0] == 'assign' and d[3]['k'] == 'ref' and fn.alias_root(d[3]['place']['local']) == 1:
                fl = place_fields(d[3]['place'])
                if fl and (n.endswith('::clear') or n.endswith('::truncate')):
                    resets.setdefault(fl[0], []).append(n.split('::')[-1])
                elif fl and n.endswith('IndexMut<I>>::index_mut'):
                    resets.setdefault(fl[0], []).append('partial:element')
            # a setter of the VM called on the machine itself (`self.jump(0)`): the fields it assigns on every path
            if n.startswith('vm::VM::') and n in F.fns and fn.alias_root(op_base_local(t['args'][0]) or -1) == 1:
                g = F.fns[n]
                if len(g.blocks) <= 3:
                    for b2, si2, st2 in g.stmts():
                        if st2['k'] == 'assign' and g.alias_root(st2['place']['local']) == 1:
                            fl2 = place_fields(st2['place'])
                            if len(fl2) == 1:
                                resets.setdefault(fl2[0], []).append('assigned')
    rep.table('vm_field_resets', resets)
    for f_ in fields:
        if f_ in PERSISTENT:
            rep.good('R17.1', 'vm::VM::run', 'field ' + f_, 'declared persistent: ' + PERSISTENT[f_], 'src/vm.rs', nontrivial=False)
            continue
        how = resets.get(f_, [])
        full = any(h in ('assigned', 'clear', 'truncate') for h in how)
        rep.ob(full, 'R17.1', 'vm::VM::run', 'field ' + f_,
               'must be re-initialised before executing a new line (found: %s)%s' % (how or 'nothing', '; only element 0 is rewritten, extra frames of a failed line survive' if f_ == 'frames' and how else
                                                                                       ('; stale operands of a failed line stay on the stack and are handed to the collector as roots' if f_ == 'stack' else '')),
               'src/vm.rs')
    # ---- R17.2 ---------------------------------------------------------------------------------
    R = csa_run.analyse(ctx)
    errs = R['errs']
    dirty = {'instructions': sum(1 for e in errs if e['emitted']), 'loop_contexts': sum(1 for e in errs if e['loops']),
             'scopes': sum(1 for e in errs if e['scopes']), 'contexts': sum(1 for e in errs if e['contexts']), 'pending jumps': sum(1 for e in errs if e['pending'])}
    rep.table('compiler_error_exit_states', dict(dirty, total=len(errs)))
    rep.count('compiler_error_exits', len(errs))
    ca_syn = S.method('src/compiler.rs', 'Compiler', 'compile_ast')
    ca = F.fn('compiler::Compiler::compile_ast')
    # what does compile_ast do on its Err paths?  collect resets performed on paths that return Err
    restored = {'instructions': False, 'loop_contexts': False, 'last_instruction': False, 'symbols': False}
    err_paths = 0
    for p in AbsInt(F, ca, max_paths=5000).run():
        r = simp(p.env.get('_0'))
        if p.exit != 'return' or not r or result_kind(p, r) == 'ok':
            continue
        err_paths += 1
        this = {k: False for k in restored}
        for c in p.calls:
            n = c[1]
            a0 = str(c[2][0]) if c[2] else ''
            if n.endswith('::clear') or n.endswith('::truncate') or n.endswith('mem::take'):
                if 'f2' in a0 or 'instructions' in a0:
                    this['instructions'] = True
                if 'loop_contexts' in a0 or 'f4' in a0:
                    this['loop_contexts'] = True
            if n.startswith('symbols::SymbolTable::') and ('reset' in n or 'rollback' in n or 'restore' in n or 'truncate' in n):
                this['symbols'] = True
            # ... or that method spliced in (it is new and has this one caller): its cut-backs are calls of this path
            inl_ = ca.blocks[c[0]].get('inl') or () if isinstance(c[0], int) and c[0] < len(ca.blocks) else ()
            if (n.endswith('::truncate') or n.endswith('::clear')) and any(isinstance(h_, str) and h_.startswith('symbols::SymbolTable::') for h_ in inl_):
                this['symbols'] = True
        for w in p.writes:
            fl = place_fields(w[3]['place'])
            if fl[:1] == ['last_instruction']:
                this['last_instruction'] = True
            if fl[:1] == ['instructions']:
                this['instructions'] = True
            if fl[:1] == ['loop_contexts']:
                this['loop_contexts'] = True
            if fl[:1] == ['symbols']:
                this['symbols'] = True
        if err_paths == 1:
            restored = this
        else:
            restored = {k: restored[k] and this[k] for k in restored}
    rep.count('compile_ast_err_paths', err_paths)
    # field indices are positional; resolve names from the ADT
    comp = F.adt('compiler::Compiler')
    for comp_name, dirty_key in (('instructions', 'instructions'), ('loop_contexts', 'loop_contexts'), ('last_instruction', 'instructions'), ('symbols', 'scopes')):
        can_be_dirty = dirty.get(dirty_key, 0) > 0 or (comp_name == 'symbols' and (dirty['scopes'] or dirty['contexts']))
        rep.ob((not can_be_dirty) or restored.get(comp_name), 'R17.2', 'compiler::Compiler::compile_ast', 'Err path restores ' + comp_name,
               '%d error exits of the compiler leave `%s` modified; compile_ast must reset it before returning Err (found reset: %s)' % (
                   dirty.get(dirty_key, 0) if comp_name != 'symbols' else dirty['scopes'] + dirty['contexts'], comp_name, restored.get(comp_name)), ca.loc())
    for v_ in R['violations']:
        if v_['oblig'] == 'R17.2':
            rep.bad('R17.2', 'compiler::Compiler::' + v_['method'], v_['construct'], v_['text'], ca.loc(), key=v_['kc'])
    rep.count('top_level_error_exits', len(R.get('toperrs', [])))
    if not [v_ for v_ in R['violations'] if v_['oblig'] == 'R17.2']:
        rep.good('R17.2', 'compiler::Compiler::compile_ast', 'error exits (CSA)', '%d error exits of the top-level driver examined: scopes, contexts, loop contexts, code buffer and peephole register are all back to their initial state' % len(R.get('toperrs', [])), ca.loc())
    # ---- R17.3 ---------------------------------------------------------------------------------
    v = vmxmod.vmx(ctx)
    gg = v['arms'].get('GetGlobal')
    sites = [s for s in psc.census(ctx) if s['fn'] == fn.path and gg and s['block'] in gg['region'] and s['kind'] == 'call']
    from rules import c05
    und = [s for s in sites if c05.discharge(F, s) is None]
    defs_removed = restored.get('symbols')
    rep.ob(defs_removed or not und, 'R17.3', 'vm::VM::run', 'never-stored global slot',
           'a failed line leaves its `stel` definitions in the symbol table; reading such a slot indexes globals out of bounds (panic) unless GetGlobal checks', 'src/vm.rs')
    # a slot that exists only as padding below a later variable must stay distinguishable from a stored one: a line that failed
    # at run time before its `stel` stored anything has declared the name (compile time) but not given it a value
    sg = v['arms'].get('SetGlobal')
    gfield = 'globals'
    pads = []
    marker_written = set()
    if sg:
        for b in sorted(sg['region']):
            t_ = fn.term(b)
            if t_['k'] == 'call' and t_['args']:
                n_ = callee_name(t_)
                a0 = str(sym(fn, t_['args'][0]))
                if n_.endswith(('Vec::<T, A>::push', 'Vec::<T, A>::resize', 'Vec::<T, A>::extend', 'Vec::<T, A>::insert')) and "'%s'" % gfield in a0:
                    pads.append((b, n_.split('::')[-1]))
                elif n_.endswith(('IndexMut<I>>::index_mut', 'Vec::<T, A>::resize', 'Vec::<T, A>::push')) and "'%s'" % gfield not in a0:
                    for f_ in fields:
                        if "'%s'" % f_ in a0 and f_ != gfield:
                            marker_written.add(f_)
            for st_ in fn.blocks[b]['stmts']:
                if st_['k'] == 'assign' and st_['place']['proj']:
                    fl = place_fields(st_['place'])
                    if fl and fl[0] != gfield and fn.alias_root(st_['place']['local']) == 1:
                        marker_written.add(fl[0])
    marker_read = set()
    if gg:
        for b in sorted(gg['region']):
            t_ = fn.term(b)
            texts = [str(sym(fn, a_)) for a_ in (t_.get('args') or [])] if t_['k'] == 'call' else ([str(sym(fn, t_['op']))] if t_['k'] == 'switch' else [])
            for f_ in fields:
                if f_ != gfield and any("'%s'" % f_ in x for x in texts):
                    marker_read.add(f_)
    marker = (marker_written & marker_read) - {'stack', 'ip', 'instructions'}
    # ... and the marker must say `not stored` for padding and `stored` for the slot being written
    marker_vals_ok = True
    if sg and marker:
        for b in sorted(sg['region']):
            t_ = fn.term(b)
            if t_['k'] == 'call' and t_['args']:
                n_ = callee_name(t_)
                a0 = str(sym(fn, t_['args'][0]))
                if any("'%s'" % m_ in a0 for m_ in marker) and n_.endswith(('Vec::<T, A>::push', 'Vec::<T, A>::resize')):
                    fill = strip(sym(fn, t_['args'][-1]))
                    if fill != ('int', 0):
                        marker_vals_ok = False
            for st_ in fn.blocks[b]['stmts']:
                if st_['k'] == 'assign' and st_['place']['proj'] and st_['place']['proj'][0] == 'deref' and len(st_['place']['proj']) == 1:
                    d_ = fn.single_def(st_['place']['local'])
                    if d_ and d_[0] == 'call' and callee_name(d_[2]).endswith('IndexMut<I>>::index_mut') and any("'%s'" % m_ in str(sym(fn, d_[2]['args'][0])) for m_ in marker):
                        v_ = strip(psc.sym_rv(fn, st_['rv']))
                        if v_ != ('int', 1):
                            marker_vals_ok = False
    if marker and not marker_vals_ok:
        marker = set()
    rep.ob(not pads or bool(marker), 'R17.3', 'vm::VM::run', 'padding of never-stored slots',
           'SetGlobal creates the slots below its own as padding (%s) and GetGlobal cannot tell such a slot from a stored one%s: after `stel x = 1/0` '
           '(declared, never stored) and a later `stel y = 7`, reading x gives null instead of an error' % (
               ', '.join(sorted({p_[1] for p_ in pads})) or 'none', '' if not marker else ' (marker field: %s)' % sorted(marker)), 'src/vm.rs')
    # a line that fails at run time before the store of its `stel` has still declared the name at compile time: unless a
    # redeclaration reuses the slot of the existing global (or the session takes the declaration back), the earlier binding is hidden
    cd = F.fn('symbols::Context::define')
    looks_up = any(callee_name(t_).endswith(('::position', '::rposition', '::contains', '::find', 'PartialEq>::eq', '::resolve')) for b_, t_ in cd.calls())
    retract = [f_.path for f_ in F.all_fns if f_.path.startswith('compiler::Compiler::') and f_.j.get('vis', '').startswith('Public')
               and any(w in f_.path.split('::')[-1] for w in ('retract', 'forget', 'rollback', 'undo'))]
    rep.ob(looks_up or bool(retract), 'R17.3', 'symbols::Context::define', 'redeclaration after a failed run',
           'every `stel` takes a fresh slot at compile time and nothing takes the declaration back when the line fails at run time before '
           'its store: after `stel x = 1` and a failing `stel x = 1/0`, `x` names the new, never-stored slot instead of still being 1', cd.loc())
    # everything a declaration writes in the table is taken back with it
    rep.rule('R17.6', 'taking a failed line\'s declarations back restores every piece of state a declaration writes (no cached count or index left behind)')
    check_reset_covers_define(ctx, rep, 'R17.6')
    # the constant pool is kept across lines: what counts as `the same constant` decides whether a later line gets its own
    rep.rule('R17.7', 'the constant pool kept across lines merges only equal values: equality compares tags first, immediates (function descriptors: entry AND frame size) by the whole word, heap values by content')
    from rules import shared as _sh, c15 as _c15
    _sh.check_object_eq(F, rep, 'R17.7', _c15.heap_types(ctx))
    # between two lines only the outermost scope of the global context is open: what a successful line opens it closes
    rep.rule('R17.8', 'a successful line leaves the scope structure as it found it: block scopes and function contexts are closed on every normal path (the next line declares into the outermost scope again, and a later rollback cuts back to it)')
    from rules import csa_run as _cr
    R_ = _cr.analyse(ctx)
    b91 = [v_ for v_ in R_['violations'] if v_['oblig'] == 'R09.1']
    for v_ in b91:
        rep.bad('R17.8', 'compiler::Compiler::' + v_['method'], v_['construct'], v_['text'], 'src/compiler.rs', key=v_['kc'])
    seen_ = set()
    for a_ in R_['arms']:
        if a_['method'] in ('compile_block_statement',) or a_['trace'].startswith('Expr::Function'):
            k_ = (a_['method'], a_['trace'])
            if k_ in seen_:
                continue
            seen_.add(k_)
            if not any(v_['method'] == a_['method'] and v_['construct'].startswith(a_['trace']) for v_ in b91):
                rep.good('R17.8', 'compiler::Compiler::' + a_['method'], 'pairing on ' + a_['trace'], 'balanced on this path', 'src/compiler.rs')
    # what a line stored stays stored: the session's variables are only ever grown or overwritten slot by slot
    rep.rule('R17.5', 'the persistent fields of the VM are never cut back (a failing line keeps the assignments it completed)')
    SHRINK_ = ('::truncate', '::clear', '::pop', '::remove', '::swap_remove', '::drain', '::split_off', '::retain', '::set_len', 'mem::take', 'mem::replace', 'mem::swap')
    nshr = 0
    for f_ in F.all_fns:
        if f_.crate != 'lib':
            continue
        for b_, t_ in f_.calls():
            n_ = callee_name(t_)
            if n_.endswith(SHRINK_) and t_['args']:
                a0 = str(sym(f_, t_['args'][0]))
                for pf in PERSISTENT:
                    if "'%s'" % pf in a0 and 'vm::VM' in (f_.j.get('impl_self') or f_.path):
                        nshr += 1
                        rep.bad('R17.5', f_.path, '%s on VM.%s' % (n_.split('::')[-1], pf),
                                'a persistent field of the VM is cut back: values stored by earlier (or by the failing) line are dropped while the retained compiler still maps their names to those slots', span_loc(t_['span']))
    if not nshr:
        rep.good('R17.5', 'vm::VM', 'persistent fields only grow', 'no truncate/clear/pop/remove/drain/take on %s anywhere in the VM' % sorted(PERSISTENT), 'src/vm.rs')
    # ---- R17.4 ---------------------------------------------------------------------------------
    # (globals, per-run collector): globals persist in the VM, heap objects they point to are owned by the GC local of run()
    gcs_local = any(callee_name(t) == 'gc::GC::new' for b, t in fn.calls())
    vm_has_gc = any('gc::GC' in f['ty'] for f in vm['variants'][0]['fields'])
    rep.ob(not gcs_local or vm_has_gc, 'R17.4', 'vm::VM', 'globals vs per-run collector',
           'VM.globals outlives run(), but every heap object a global points to is owned by the collector created (and dropped) inside run(): '
           'after the line ends the global dangles (latent today only because the sweep frees nothing)', 'src/vm.rs')
    # (globals / constants, per-line code buffer): function values carry an absolute code position; compile_ast moves the buffer out
    from rules import tables
    bb = tables.bytecode_builder(ctx)
    takes = [t for b, t in bb.calls() if callee_name(t).endswith('mem::take') and 'instructions' in str(sym(bb, t['args'][0]))]
    func_has_pos = True
    rep.ob(not takes, 'R17.4', 'compiler::Compiler::compile_ast', 'function values vs per-line code buffer',
           'function values (in globals and in the retained constant pool) hold absolute positions in the instruction buffer, but compile_ast '
           'hands out a fresh buffer per line (mem::take): a function defined on an earlier line points into code that no longer exists', ca.loc())


def _ctx_fields_touched(F, fn, depth=0, seen=None):
    """fields of symbols::Context that fn (or a function of the symbol table it calls) assigns or borrows mutably"""
    seen = seen if seen is not None else set()
    if fn.path in seen or depth > 3:
        return set()
    seen.add(fn.path)
    out = set()

    def fields_of(pl):
        return [e['name'] for e in pl['proj'] if isinstance(e, dict) and 'field' in e and e.get('of') == 'symbols::Context']
    for b, si, st in fn.stmts():
        if st['k'] != 'assign':
            continue
        out |= set(fields_of(st['place'])[:1])
        rv = st['rv']
        if rv['k'] == 'ref' and rv.get('mut'):
            out |= set(fields_of(rv['place'])[:1])
    for b, t_ in fn.calls():
        n = callee_name(t_)
        g = F.fns.get(n)
        if g is not None and n.startswith('symbols::') and any(a.get('k') in ('copy', 'move') and 'mut' in fn.local_ty(a['place']['local'])[:16] for a in t_['args'][:1]):
            out |= _ctx_fields_touched(F, g, depth + 1, seen)
    return out


def check_reset_covers_define(ctx, rep, rule):
    """Context::define is what a declaration does to the table; SymbolTable::reset_to_global is how compile_ast takes the declarations
    of a failed line back.  Every field of Context that define writes is written by the reset as well - except the frame size
    (max_size), which only ever grows and is a bound, not a position (R02.6).  A field define keeps up to date and the reset
    forgets (a cached count of names, say) leaves the slots of the next lines shifted."""
    F = ctx.facts()
    d = F.fn('symbols::Context::define')
    r = F.fns.get('symbols::SymbolTable::reset_to_global')
    if r is None:
        # the reset under another name (or spliced into its only caller): the SymbolTable method the shape analysis classified as
        # cutting back contexts, scopes and definitions
        from rules import csa_run as _cr
        cands = sorted(n_ for n_, w_ in _cr.analyse(ctx)['csa'].symtab_reset.items() if 'definitions' in w_)
        allf = dict(getattr(F, 'transparent_fns', {}) or {})
        allf.update(F.fns)
        for n_ in cands:
            r = r or allf.get('symbols::SymbolTable::' + n_)
        if r is None:
            raise CheckerError('%s: no method of SymbolTable takes the definitions of a failed line back (anchor)' % rule)
    wd = _ctx_fields_touched(F, d)
    wr = _ctx_fields_touched(F, r)
    rep.count('define_fields', len(wd))
    missing = sorted(wd - wr - {'max_size'})
    rep.ob(bool(wd) and not missing, rule, r.path, 'restores what define writes',
           'define writes %s, the reset writes %s%s' % (sorted(wd), sorted(wr), ('; not restored: %s' % missing) if missing else ''), r.loc())
