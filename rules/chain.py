"""The denotation chain lexeme -> Token -> Operator -> OpCode -> VM callee -> primitive (R01.2, R10.1, R06.x)."""
import re
from mirlib import *
from rules import tables, vmx
from rules.tables import _memo, TYPE
from rules.shared import deref

ARITH_PRIMS = {'Add': '+', 'Sub': '-', 'Mul': '*', 'Div': '/', 'Rem': '%'}
CHECKED = {'checked_add': '+', 'checked_sub': '-', 'checked_mul': '*', 'checked_div': '/', 'checked_rem': '%',
           'overflowing_add': '+', 'overflowing_sub': '-', 'overflowing_mul': '*', 'wrapping_add': '+', 'wrapping_sub': '-', 'wrapping_mul': '*',
           'checked_neg': 'neg'}
CMP = {'lt': '<', 'le': '<=', 'gt': '>', 'ge': '>=', 'eq': '==', 'ne': '!='}


def _strip_ref_ty(ty):
    """`&'{erased} object::Object` -> `object::Object` (the comparison traits are implemented for references by delegation)"""
    ty = ty or ''
    for _ in range(3):
        m = re.match(r"^&(?:'[^ ]+ )?(?:mut )?(.*)$", ty)
        if not m:
            break
        ty = m.group(1)
    return ty


def arg_side(v, env):
    """which parameter (1 = self, 2 = rhs) a value derives from, through as_int/as_f64/as_bool/refs"""
    v = deref(env, v)
    for _ in range(8):
        if v[0] == 'call' and v[1].startswith('object::Object::as_'):
            v = deref(env, v[2][0])
            continue
        if v[0] == 'cast':
            v = v[1]
            continue
        if v[0] == 'ref' and v[1] not in ('_1', '_1.*', '_2', '_2.*'):
            v2 = deref(env, v)
            if v2 != v:
                v = v2
                continue
        break
    if v == ('local', 1) or v == ('deref', ('local', 1)):
        return 1
    if v == ('local', 2) or v == ('deref', ('local', 2)):
        return 2
    if v[0] == 'ref' and v[1] in ('_1', '_1.*'):
        return 1
    if v[0] == 'ref' and v[1] in ('_2', '_2.*'):
        return 2
    return None


def find_prims(v, env, out, depth=0):
    """collect primitive operations inside a symbolic value"""
    if not isinstance(v, tuple) or depth > 12 or not v:
        return
    if not isinstance(v[0], str):
        for x in v:
            find_prims(x, env, out, depth + 1)
        return
    if v[0] == 'binop':
        base = v[1].replace('WithOverflow', '')
        if base in ARITH_PRIMS:
            out.append((ARITH_PRIMS[base], v[4], arg_side(v[2], env), arg_side(v[3], env), 'raw' if not v[1].endswith('WithOverflow') else 'overflow-trapping'))
    if v[0] == 'unop' and v[1] == 'Neg':
        out.append(('neg', v[3], arg_side(v[2], env), None, 'raw'))
    if v[0] == 'call':
        m = v[1].split('::')[-1]
        if m in CHECKED and ('core::num' in v[1]):
            a = arg_side(v[2][0], env)
            b = arg_side(v[2][1], env) if len(v[2]) > 1 else None
            ty = 'isize' if 'isize' in v[1] else ('f64' if 'f64' in v[1] else '?')
            out.append((CHECKED[m], ty, a, b, m.split('_')[0]))
    for x in v[1:]:
        if isinstance(x, tuple):
            find_prims(x, env, out, depth + 1)
        elif isinstance(x, (list,)):
            for y in x:
                find_prims(y, env, out, depth + 1)


def _ordering_outcome(pth, c):
    """the outcomes (None / Less / Equal / Greater) of the partial_cmp call c that this path allows, read from the variant tests the
    path made on the call's result and on the Ordering inside it"""
    ALLO = ['Less', 'Equal', 'Greater']
    opt = None       # 'Some' / 'None' / None (untested)
    ords = set(ALLO)
    tested = False
    for k in pth.constraints:
        if k[0][0] != 'variant' or len(k[0]) < 4:
            continue
        v = k[0][3]
        if not isinstance(v, tuple):
            continue
        vs = str(v)
        if c[1] not in vs:
            continue
        lab = str(k[1])
        allowed = set(lab[10:].split('|')) if lab.startswith('otherwise:') else {lab}
        if 'Option' in str(k[0][2]):
            tested = True
            if allowed == {'Some'}:
                opt = 'Some'
            elif allowed == {'None'}:
                opt = 'None'
        elif 'Ordering' in str(k[0][2]):
            tested = True
            ords &= allowed
    if not tested:
        return None
    if opt == 'None':
        return {'None'}
    if opt == 'Some':
        return set(ords)
    return set(ords) | {'None'}


def _bool_answer(val, env):
    """True / False when the value handed to Object::bool on this path is a constant, else None"""
    v = val
    for _ in range(4):
        if isinstance(v, tuple) and v and v[0] == 'call' and v[1] == 'object::Object::bool' and v[2]:
            v = deref(env, v[2][0])
            continue
        break
    if isinstance(v, tuple) and v and v[0] == 'int' and len(v) > 2 and v[2] == 'bool':
        return bool(v[1])
    return None


def _negated(val, env, c):
    """False: the value handed to Object::bool is the trait call's own answer; True: its negation (`!x`, `x == false`, `x != true`);
    None: something else"""
    v = val
    for _ in range(4):
        if isinstance(v, tuple) and v and v[0] == 'call' and v[1] == 'object::Object::bool' and v[2]:
            v = deref(env, v[2][0])
            continue
        break
    def is_call(x):
        x = deref(env, x)
        return isinstance(x, tuple) and x and x[0] == 'call' and x[1] == c[1]
    if is_call(v):
        return False
    if isinstance(v, tuple) and v and v[0] == 'unop' and v[1] == 'Not' and is_call(v[2]):
        return True
    if isinstance(v, tuple) and v and v[0] == 'binop' and v[1] in ('Eq', 'Ne'):
        for x, y in ((v[2], v[3]), (v[3], v[2])):
            y = deref(env, y)
            if is_call(x) and isinstance(y, tuple) and y and y[0] == 'int':
                same = bool(y[1]) == (v[1] == 'Eq')
                return not same
    return None


def object_method_semantics(ctx):
    """for each binary method of Object: what it computes per operand type, and from which operand side"""
    def build():
        F = ctx.facts()
        out = {}
        for fn in F.all_fns:
            p = fn.path
            if not p.startswith('object::Object::') or fn.arg_count != 3:
                continue
            sig = fn.j.get('sig', '')
            if 'gc::GC' not in sig:
                continue
            name = p.split('::')[-1]
            info = {'int': set(), 'float': set(), 'cmp': set(), 'logic': None, 'tagcheck_first': True, 'fn': fn}

            def decide(nm, argv, t):
                return None
            paths = AbsInt(F, fn, max_paths=20000).run()
            for pth in paths:
                if pth.exit != 'return':
                    continue
                r = simp(pth.env.get('_0'))
                if r and r[0] == 'call' and r[1] == 'object::Object::try_int' and r[2]:
                    # the checked encoder's answer is returned as it is: Ok(int(x)) or its range error
                    val = ('call', 'object::Object::int', r[2], r[3] if len(r) > 3 else None)
                elif not (r and r[0] == 'agg' and r[2] == 'Ok'):
                    continue
                else:
                    val = deref(pth.env, r[3][0])
                variants = [c[1] for c in pth.constraints if c[0][0] == 'variant' and c[0][2] == TYPE]
                prims = []
                # the value is Object::int(x) / Object::float(x, gc) / Object::bool(x)
                find_prims(val, pth.env, prims)
                # values may flow through locals (checked ops matched on Option): search the calls of the path too
                for c in pth.calls:
                    if 'core::num' in c[1]:
                        find_prims(('call', c[1], c[2], c[0]), pth.env, prims)
                for pr in prims:
                    if pr[1] in ('isize', 'i64'):
                        info['int'].add(pr)
                    elif pr[1] == 'f64':
                        info['float'].add(pr)
                for c in pth.calls:
                    cal = c[4]['callee'] if isinstance(c[4], dict) and 'callee' in c[4] else {}
                    if cal.get('trait') in ('core::cmp::PartialOrd', 'core::cmp::PartialEq') and _strip_ref_ty(cal.get('self_ty')) == 'object::Object':
                        m = c[1].split('::')[-1]
                        sides = (arg_side(c[2][0], pth.env), arg_side(c[2][1], pth.env))
                        if m == 'partial_cmp':
                            # `matches!(a.partial_cmp(&b), Some(Less))` and friends: the answer is a constant per path; which
                            # outcomes of the comparison (None / Less / Equal / Greater) give `ja` is collected over all paths
                            out_ = _ordering_outcome(pth, c)
                            bv = _bool_answer(val, pth.env)
                            if out_ is not None and bv is not None:
                                for o_ in out_:
                                    info.setdefault('ordtable', {}).setdefault(sides, {}).setdefault(o_, set()).add(bv)
                                continue
                        if m in ('eq', 'ne'):
                            # `eq(a, b) == false`, `!eq(a, b)`: the negation of the trait's answer is the other operator
                            neg = _negated(val, pth.env, c)
                            if neg is True:
                                m = 'ne' if m == 'eq' else 'eq'
                            elif neg is None:
                                m = m + '?'
                        info['cmp'].add((CMP.get(m, m), sides[0], sides[1]))
            for sides, tab in (info.get('ordtable') or {}).items():
                yes = {o_ for o_, bs in tab.items() if bs == {True}}
                mixed = {o_ for o_, bs in tab.items() if len(bs) > 1}
                opx = {frozenset({'Less'}): '<', frozenset({'Less', 'Equal'}): '<=', frozenset({'Greater'}): '>', frozenset({'Greater', 'Equal'}): '>='}.get(frozenset(yes))
                if mixed or opx is None or set(tab) != {'None', 'Less', 'Equal', 'Greater'}:
                    opx = 'partial_cmp?%s' % sorted(yes)
                info['cmp'].add((opx, sides[0], sides[1]))
            out[name] = info
        # logical: truth tables
        for name in list(out):
            fn = out[name]['fn']
            if out[name]['int'] or out[name]['float'] or out[name]['cmp']:
                continue
            table = {}
            for a in (0, 1):
                for b in (0, 1):
                    def decide(nm, argv, t, a=a, b=b):
                        if nm == 'object::Object::tag':
                            return ('enum', TYPE, 'Bool')
                        if nm == 'object::Object::as_bool':
                            side = argv[0]
                            if side == ('local', 1):
                                return ('int', a, 'bool')
                            if side == ('local', 2):
                                return ('int', b, 'bool')
                        return None
                    res = set()
                    for pth in AbsInt(F, fn, decide_call=decide).run():
                        if pth.exit != 'return':
                            continue
                        r = simp(pth.env.get('_0'))
                        if r and r[0] == 'agg' and r[2] == 'Ok':
                            v = deref(pth.env, r[3][0])
                            if v[0] == 'call' and v[1] == 'object::Object::bool' and v[2][0][0] == 'int':
                                res.add(v[2][0][1])
                            else:
                                res.add(None)
                    table[(a, b)] = next(iter(res)) if len(res) == 1 else None
            out[name]['logic'] = table
        return out
    return _memo(ctx, 'object_method_semantics', build)


def classify(info):
    """a short denotation for a method: '+', '<', '&&' ... or None"""
    if info['logic'] and all(v is not None for v in info['logic'].values()):
        t = info['logic']
        if t == {(0, 0): 0, (0, 1): 0, (1, 0): 0, (1, 1): 1}:
            return '&&'
        if t == {(0, 0): 0, (0, 1): 1, (1, 0): 1, (1, 1): 1}:
            return '||'
        return 'logic?' + str(sorted(t.items()))
    if info['cmp']:
        ops = {c[0] for c in info['cmp']}
        return next(iter(ops)) if len(ops) == 1 else 'cmp?' + str(sorted(ops))
    iops = {p[0] for p in info['int']}
    fops = {p[0] for p in info['float']}
    if len(iops) == 1 and (not fops or fops == iops):
        return next(iter(iops))
    return None


def vm_callee(ctx, opcode):
    """the object-layer method an opcode's arm applies to its operands + argument origins"""
    v = vmx.vmx(ctx)
    arm = v['arms'].get(opcode)
    if not arm:
        return None
    res = set()
    for r in arm['paths']:
        if r['kind'] != 'continue':
            continue
        found = False
        for c in r['calls']:
            if c['callee'].startswith('object::Object::') and len(c['args']) == 3 and c['callee'].split('::')[-1] not in ('float',):
                res.add((c['callee'].split('::')[-1], tuple(c['args'][:2])))
                found = True
        if not found and res is not None:
            # a path of the arm that produces its result without the object-layer method (an inline fast path)
            res.add(('<inline>', ('?', '?')))
    return res
