"""The denotation chain lexeme -> Token -> Operator -> OpCode -> VM callee -> primitive (R01.2, R10.1, R06.x)."""
import re
from mirlib import *
from rules import tables, vmx
from rules.tables import _memo, TYPE
from rules.shared import deref

ARITH_PRIMS = {'Add': '+', 'Sub': '-', 'Mul': '*', 'Div': '/', 'Rem': '%'}
CHECKED = {'checked_add': '+', 'checked_sub': '-', 'checked_mul': '*', 'checked_div': '/', 'checked_rem': '%',
           'overflowing_add': '+', 'overflowing_sub': '-', 'overflowing_mul': '*', 'wrapping_add': '+', 'wrapping_sub': '-', 'wrapping_mul': '*',
           'checked_neg': 'neg'}
CMP = {'lt': '<', 'le': '<=', 'gt': '>', 'ge': '>=', 'eq': '==', 'ne': '!='}


def _strip_ref_ty(ty):
    """`&'{erased} object::Object` -> `object::Object` (the comparison traits are implemented for references by delegation)"""
    ty = ty or ''
    for _ in range(3):
        m = re.match(r"^&(?:'[^ ]+ )?(?:mut )?(.*)$", ty)
        if not m:
            break
        ty = m.group(1)
    return ty


def arg_side(v, env):
    """which parameter (1 = self, 2 = rhs) a value derives from, through as_int/as_f64/as_bool/refs"""
    v = deref(env, v)
    for _ in range(8):
        if v[0] == 'call' and v[1].startswith('object::Object::as_'):
            v = deref(env, v[2][0])
            continue
        if v[0] == 'cast':
            v = v[1]
            continue
        if v[0] == 'ref' and v[1] not in ('_1', '_1.*', '_2', '_2.*'):
            v2 = deref(env, v)
            if v2 != v:
                v = v2
                continue
        break
    if v == ('local', 1) or v == ('deref', ('local', 1)):
        return 1
    if v == ('local', 2) or v == ('deref', ('local', 2)):
        return 2
    if v[0] == 'ref' and v[1] in ('_1', '_1.*'):
        return 1
    if v[0] == 'ref' and v[1] in ('_2', '_2.*'):
        return 2
    return None


def find_prims(v, env, out, depth=0):
    """collect primitive operations inside a symbolic value"""
    if not isinstance(v, tuple) or depth > 12 or not v:
        return
    if not isinstance(v[0], str):
        for x in v:
            find_prims(x, env, out, depth + 1)
        return
    if v[0] == 'binop':
        base = v[1].replace('WithOverflow', '')
        if base in ARITH_PRIMS:
            out.append((ARITH_PRIMS[base], v[4], arg_side(v[2], env), arg_side(v[3], env), 'raw' if not v[1].endswith('WithOverflow') else 'overflow-trapping'))
    if v[0] == 'unop' and v[1] == 'Neg':
        out.append(('neg', v[3], arg_side(v[2], env), None, 'raw'))
    if v[0] == 'call':
        m = v[1].split('::')[-1]
        if m in CHECKED and ('core::num' in v[1]):
            a = arg_side(v[2][0], env)
            b = arg_side(v[2][1], env) if len(v[2]) > 1 else None
            ty = 'isize' if 'isize' in v[1] else ('f64' if 'f64' in v[1] else '?')
            out.append((CHECKED[m], ty, a, b, m.split('_')[0]))
    for x in v[1:]:
        if isinstance(x, tuple):
            find_prims(x, env, out, depth + 1)
        elif isinstance(x, (list,)):
            for y in x:
                find_prims(y, env, out, depth + 1)


def _ordering_outcome(pth, c):
    """the outcomes (None / Less / Equal / Greater) of the partial_cmp call c that this path allows, read from the variant tests the
    path made on the call's result and on the Ordering inside it"""
    ALLO = ['Less', 'Equal', 'Greater']
    opt = None       # 'Some' / 'None' / None (untested)
    ords = set(ALLO)
    tested = False
    for k in pth.constraints:
        if k[0][0] != 'variant' or len(k[0]) < 4:
            continue
        v = k[0][3]
        if not isinstance(v, tuple):
            continue
        vs = str(v)
        if c[1] not in vs:
            continue
        lab = str(k[1])
        allowed = set(lab[10:].split('|')) if lab.startswith('otherwise:') else {lab}
        if 'Option' in str(k[0][2]):
            tested = True
            if allowed == {'Some'}:
                opt = 'Some'
            elif allowed == {'None'}:
                opt = 'None'
        elif 'Ordering' in str(k[0][2]):
            tested = True
            ords &= allowed
    if not tested:
        return None
    if opt == 'None':
        return {'None'}
    if opt == 'Some':
        return set(ords)
    return set(ords) | {'None'}


def _const_outcome(v, env):
    """'None' / 'Less' / 'Equal' / 'Greater' when v is that constant of Option<Ordering> (or of Ordering), else None"""
    v = deref(env, v)
    if isinstance(v, tuple) and v and v[0] == 'agg':
        if v[1] == 'core::option::Option':
            if v[2] == 'None':
                return 'None'
            if v[2] == 'Some' and v[3]:
                return _const_outcome(v[3][0], env)
        if v[1] == 'core::cmp::Ordering' and v[2] in ('Less', 'Equal', 'Greater'):
            return v[2]
    if isinstance(v, tuple) and v and v[0] == 'enum' and 'Ordering' in str(v[1]) and v[2] in ('Less', 'Equal', 'Greater'):
        return v[2]
    return None


def _strip_casts(v):
    while isinstance(v, tuple) and v and v[0] == 'cast':
        v = v[1]
    return v


def _apply_predicate_closure(clo, arg, env):
    """the constant boolean a side-effect-free closure value returns for a constant argument (`|o| [Greater, Equal].contains(&o)`
    applied to `Less`): its body is evaluated path by path with the parameter bound to the constant and slice membership in a
    constant array decided; None when the paths do not agree on one constant"""
    import mirlib
    F = mirlib.CURRENT_FACTS
    clo = deref(env, clo)
    if not (isinstance(clo, tuple) and clo and clo[0] == 'closure') or F is None:
        return None
    fn = F.fns.get(clo[1])
    if fn is None or fn.arg_count != 2 or len(fn.blocks) > 60:
        return None
    # captures are looked at through the caller's environment: resolve them now
    caps = []
    init = {'_2': arg}
    for i, x in enumerate(clo[2] if len(clo) > 2 else ()):
        if isinstance(x, tuple) and x and x[0] == 'ref':
            init['$cap%d' % i] = deref(env, x)
            caps.append(('ref', '$cap%d' % i))
        else:
            caps.append(deref(env, x) if isinstance(x, tuple) else x)
    init['$clo'] = ('closure', clo[1], tuple(caps))
    init['_1'] = ('ref', '$clo') if fn.j['locals'][1]['ty'].startswith('&') else init['$clo']
    def decide(nm, argv, t):
        if nm.endswith('::contains') and 'slice' in nm and len(argv) == 2:
            arr = _strip_casts(argv[0])
            return ('contains?', arr, argv[1])
        return None
    res = set()
    for pth in AbsInt(F, fn, init_env=init, decide_call=decide, max_paths=400).run():
        if pth.exit != 'return':
            if pth.exit in ('panic', 'unreachable'):
                continue
            return None
        r = simp(pth.env.get('_0'))
        r = deref(pth.env, r) if isinstance(r, tuple) else r
        if isinstance(r, tuple) and r and r[0] == 'contains?':
            arr = _strip_casts(deref(pth.env, r[1]))
            arr = _strip_casts(deref(env, arr)) if not (isinstance(arr, tuple) and arr and arr[0] == 'agg') else arr
            x = _const_outcome(r[2], pth.env)
            if not (isinstance(arr, tuple) and arr and arr[0] == 'agg' and x is not None):
                return None
            elems = [_const_outcome(e, pth.env) or _const_outcome(e, env) for e in arr[3]]
            if any(e is None for e in elems):
                return None
            res.add(x in elems)
        elif isinstance(r, tuple) and r and r[0] == 'int' and len(r) > 2 and r[2] == 'bool':
            res.add(bool(r[1]))
        else:
            return None
    return next(iter(res)) if len(res) == 1 else None


def _outcome_test(val, env, c, known=None):
    """the value handed to Object::bool as a function of the outcome of the partial_cmp call c: {outcome: bool} for the outcomes
    the path leaves open (`known`, from its variant tests), when the value is a constant, `cmp == Some(Greater)` / `!=`,
    `cmp.is_some_and(..)`-free boolean combinations (`||`, `&&`, `!`) of those; None when it is something else"""
    ALL = ('None', 'Less', 'Equal', 'Greater')
    known = set(known) if known is not None else set(ALL)
    v = val
    for _ in range(4):
        if isinstance(v, tuple) and v and v[0] == 'call' and v[1] == 'object::Object::bool' and v[2]:
            v = deref(env, v[2][0])
            continue
        break

    def is_c(x, inner=False):
        x = deref(env, x)
        if isinstance(x, tuple) and x and x[0] == 'call' and x[1] == c[1] and (len(x) < 4 or len(c) < 1 or x[3] == c[0]):
            return True
        return False

    def ev(x, depth=0):
        x = deref(env, x)
        if depth > 6 or not isinstance(x, tuple) or not x:
            return None
        if x[0] == 'int' and len(x) > 2 and x[2] == 'bool':
            return {o: bool(x[1]) for o in known}
        if x[0] == 'unop' and x[1] == 'Not':
            r = ev(x[2], depth + 1)
            return None if r is None else {o: not b for o, b in r.items()}
        if x[0] == 'binop' and x[1] in ('BitOr', 'BitAnd'):
            a, b = ev(x[2], depth + 1), ev(x[3], depth + 1)
            if a is None or b is None:
                return None
            return {o: (a[o] or b[o]) if x[1] == 'BitOr' else (a[o] and b[o]) for o in known}
        if x[0] == 'call' and x[1].endswith(('Option::<T>::map_or', 'Option::<T>::is_some_and')) and is_c(x[2][0]):
            # `cmp.map_or(false, |o| accepted.contains(&o))`: the default for no outcome, the predicate for each of the others
            dflt = ev(x[2][1], depth + 1) if x[1].endswith('map_or') else {o: False for o in known}
            if dflt is None:
                return None
            tab = {}
            for o in known:
                if o == 'None':
                    tab[o] = dflt[o]
                else:
                    b = _apply_predicate_closure(x[2][-1], ('agg', 'core::cmp::Ordering', o, ()), env)
                    if b is None:
                        return None
                    tab[o] = b
            return tab
        if x[0] == 'call' and x[1].split('::')[-1] in ('eq', 'ne') and 'PartialEq' in x[1] and len(x[2]) == 2:
            for l, r in ((x[2][0], x[2][1]), (x[2][1], x[2][0])):
                k = _const_outcome(r, env)
                if k is not None and is_c(l):
                    # an Ordering constant compared with the Option itself cannot type-check: k names the outcome
                    return {o: (o == k) == (x[1].split('::')[-1] == 'eq') for o in known}
            return None
        return None
    return ev(v)


def _bool_answer(val, env):
    """True / False when the value handed to Object::bool on this path is a constant, else None"""
    v = val
    for _ in range(4):
        if isinstance(v, tuple) and v and v[0] == 'call' and v[1] == 'object::Object::bool' and v[2]:
            v = deref(env, v[2][0])
            continue
        break
    if isinstance(v, tuple) and v and v[0] == 'int' and len(v) > 2 and v[2] == 'bool':
        return bool(v[1])
    return None


def _negated(val, env, c):
    """False: the value handed to Object::bool is the trait call's own answer; True: its negation (`!x`, `x == false`, `x != true`);
    None: something else"""
    v = val
    for _ in range(4):
        if isinstance(v, tuple) and v and v[0] == 'call' and v[1] == 'object::Object::bool' and v[2]:
            v = deref(env, v[2][0])
            continue
        break
    def is_call(x):
        x = deref(env, x)
        return isinstance(x, tuple) and x and x[0] == 'call' and x[1] == c[1]
    if is_call(v):
        return False
    if isinstance(v, tuple) and v and v[0] == 'unop' and v[1] == 'Not' and is_call(v[2]):
        return True
    if isinstance(v, tuple) and v and v[0] == 'binop' and v[1] in ('Eq', 'Ne'):
        for x, y in ((v[2], v[3]), (v[3], v[2])):
            y = deref(env, y)
            if is_call(x) and isinstance(y, tuple) and y and y[0] == 'int':
                same = bool(y[1]) == (v[1] == 'Eq')
                return not same
    return None


def object_method_semantics(ctx):
    """for each binary method of Object: what it computes per operand type, and from which operand side"""
    def build():
        F = ctx.facts()
        out = {}
        for fn in F.all_fns:
            p = fn.path
            if not p.startswith('object::Object::') or fn.arg_count != 3:
                continue
            sig = fn.j.get('sig', '')
            if 'gc::GC' not in sig:
                continue
            name = p.split('::')[-1]
            info = {'int': set(), 'float': set(), 'cmp': set(), 'logic': None, 'tagcheck_first': True, 'fn': fn}

            def decide(nm, argv, t):
                return None
            paths = AbsInt(F, fn, max_paths=20000).run()
            for pth in paths:
                if pth.exit != 'return':
                    continue
                r = simp(pth.env.get('_0'))
                if r and r[0] == 'call' and r[1] == 'object::Object::try_int' and r[2]:
                    # the checked encoder's answer is returned as it is: Ok(int(x)) or its range error
                    val = ('call', 'object::Object::int', r[2], r[3] if len(r) > 3 else None)
                elif not (r and r[0] == 'agg' and r[2] == 'Ok'):
                    continue
                else:
                    val = deref(pth.env, r[3][0])
                variants = [c[1] for c in pth.constraints if c[0][0] == 'variant' and c[0][2] == TYPE]
                prims = []
                # the value is Object::int(x) / Object::float(x, gc) / Object::bool(x)
                find_prims(val, pth.env, prims)
                # values may flow through locals (checked ops matched on Option): search the calls of the path too
                for c in pth.calls:
                    if 'core::num' in c[1]:
                        find_prims(('call', c[1], c[2], c[0]), pth.env, prims)
                for pr in prims:
                    if pr[1] in ('isize', 'i64'):
                        info['int'].add(pr)
                    elif pr[1] == 'f64':
                        info['float'].add(pr)
                for c in pth.calls:
                    cal = c[4]['callee'] if isinstance(c[4], dict) and 'callee' in c[4] else {}
                    if cal.get('trait') in ('core::cmp::PartialOrd', 'core::cmp::PartialEq') and _strip_ref_ty(cal.get('self_ty')) == 'object::Object':
                        m = c[1].split('::')[-1]
                        sides = (arg_side(c[2][0], pth.env), arg_side(c[2][1], pth.env))
                        if m == 'partial_cmp':
                            # `matches!(a.partial_cmp(&b), Some(Less))` and friends: the answer is a constant per path; which
                            # outcomes of the comparison (None / Less / Equal / Greater) give `ja` is collected over all paths
                            out_ = _ordering_outcome(pth, c)
                            bv = _bool_answer(val, pth.env)
                            if out_ is not None and bv is not None:
                                for o_ in out_:
                                    info.setdefault('ordtable', {}).setdefault(sides, {}).setdefault(o_, set()).add(bv)
                                continue
                            # `cmp == Some(Greater)`: the answer is a function of the outcome, read from the expression
                            tab_ = _outcome_test(val, pth.env, c, out_)
                            if tab_ is not None:
                                for o_, bv_ in tab_.items():
                                    info.setdefault('ordtable', {}).setdefault(sides, {}).setdefault(o_, set()).add(bv_)
                                continue
                        if m in ('eq', 'ne'):
                            # `eq(a, b) == false`, `!eq(a, b)`: the negation of the trait's answer is the other operator
                            neg = _negated(val, pth.env, c)
                            if neg is True:
                                m = 'ne' if m == 'eq' else 'eq'
                            elif neg is None:
                                m = m + '?'
                        info['cmp'].add((CMP.get(m, m), sides[0], sides[1]))
            for sides, tab in (info.get('ordtable') or {}).items():
                yes = {o_ for o_, bs in tab.items() if bs == {True}}
                mixed = {o_ for o_, bs in tab.items() if len(bs) > 1}
                opx = {frozenset({'Less'}): '<', frozenset({'Less', 'Equal'}): '<=', frozenset({'Greater'}): '>', frozenset({'Greater', 'Equal'}): '>='}.get(frozenset(yes))
                if mixed or opx is None or set(tab) != {'None', 'Less', 'Equal', 'Greater'}:
                    opx = 'partial_cmp?%s' % sorted(yes)
                info['cmp'].add((opx, sides[0], sides[1]))
            out[name] = info
        # logical: truth tables
        for name in list(out):
            fn = out[name]['fn']
            if out[name]['int'] or out[name]['float'] or out[name]['cmp']:
                continue
            table = {}
            for a in (0, 1):
                for b in (0, 1):
                    def decide(nm, argv, t, a=a, b=b):
                        if nm == 'object::Object::tag':
                            return ('enum', TYPE, 'Bool')
                        if nm == 'object::Object::as_bool':
                            side = argv[0]
                            if side == ('local', 1):
                                return ('int', a, 'bool')
                            if side == ('local', 2):
                                return ('int', b, 'bool')
                        return None
                    res = set()
                    for pth in AbsInt(F, fn, decide_call=decide).run():
                        if pth.exit != 'return':
                            continue
                        r = simp(pth.env.get('_0'))
                        if r and r[0] == 'agg' and r[2] == 'Ok':
                            v = deref(pth.env, r[3][0])
                            if v[0] == 'call' and v[1] == 'object::Object::bool' and v[2][0][0] == 'int':
                                res.add(v[2][0][1])
                            else:
                                res.add(None)
                    table[(a, b)] = next(iter(res)) if len(res) == 1 else None
            out[name]['logic'] = table
        return out
    return _memo(ctx, 'object_method_semantics', build)


def classify(info):
    """a short denotation for a method: '+', '<', '&&' ... or None"""
    if info['logic'] and all(v is not None for v in info['logic'].values()):
        t = info['logic']
        if t == {(0, 0): 0, (0, 1): 0, (1, 0): 0, (1, 1): 1}:
            return '&&'
        if t == {(0, 0): 0, (0, 1): 1, (1, 0): 1, (1, 1): 1}:
            return '||'
        return 'logic?' + str(sorted(t.items()))
    if info['cmp']:
        ops = {c[0] for c in info['cmp']}
        return next(iter(ops)) if len(ops) == 1 else 'cmp?' + str(sorted(ops))
    iops = {p[0] for p in info['int']}
    fops = {p[0] for p in info['float']}
    if len(iops) == 1 and (not fops or fops == iops):
        return next(iter(iops))
    return None


def vm_callee(ctx, opcode):
    """the object-layer method an opcode's arm applies to its operands + argument origins"""
    v = vmx.vmx(ctx)
    arm = v['arms'].get(opcode)
    if not arm:
        return None
    res = set()
    for r in arm['paths']:
        if r['kind'] != 'continue':
            continue
        found = False
        for c in r['calls']:
            if c['callee'].startswith('object::Object::') and len(c['args']) == 3 and c['callee'].split('::')[-1] not in ('float',):
                res.add((c['callee'].split('::')[-1], tuple(c['args'][:2])))
                found = True
        if not found and res is not None:
            # a path of the arm that produces its result without the object-layer method (an inline fast path)
            res.add(('<inline>', ('?', '?')))
    return res
